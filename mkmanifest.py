#!/usr/bin/env python3
"""Regenerates MANIFEST.json from the table below (run: python3 mkmanifest.py)."""
import json
import os

HERE = os.path.dirname(os.path.abspath(__file__))

# property -> (technique, level text, level note)
BUILT = {
    'C01': ('bounded-exhaustive enumeration of control-file layouts, operand alphabets and option deviations through the real tool pair sna2skool -> skool2bin',
            'A: an image of every opcode slot x every combination of operand bytes from {00,01,22,41,5C,7F,80,FF} disassembled under each base letter (36 two-letter pairs on the two-operand forms) x -H x -l x Opcodes settings and reassembled; B: every control-file layout of <= 2 blocks over the 8 block types x split points, with <= 1 sub-block from a ~40-entry menu of B/C/S/T/W sublength patterns (multipliers, a:b parts, base prefixes on every part and on the main length), M and L directives, on code/text/constant/RST fills, with sna2skool option deviations (DefbSize, DefmSize, DefwSize, Wrap, LineWidth, InstructionWidth, -H, -l, Opcodes, -r) d <= 1; C: every slot cut by the 64K edge at k = 1..4 with Wrap 0/1. Oracle: every original byte outside ignored blocks comes back at its original address; no assembly failure.',
            "Well-formedness rules of the generator (DESIGN.md C01): sub-blocks on statement boundaries (2-byte-instruction fill, even W lengths, S on constant runs, sublength lists dividing the sub-block length), '@ org' after an ignored block, base 'm' only on non-zero operands. Layouts that make sna2skool print a warning are counted as ill-formed, not judged. Values outside the 8-value operand alphabet are covered by C02."),
    'C02': ('exhaustive enumeration of operand values per opcode slot (all 256 byte values, all 65536 (d,n) pairs and words, all reachable jump targets) x base/case/format settings on the real assembler and disassembler',
            'Direction 1: for every opcode slot and additional-opcode setting, every value of every byte operand, displacement and jump offset (complete), all 65536 (d,n) pairs of LD (IX/IY+d),n, all 65536 words for a representative of each word-operand decoder (thorough: all of them), relative jumps at every address within reach of either end of memory, the 64K edge with wrap on/off, in every base indicator (two-letter pairs for two-operand forms), either case, decimal or hex: the emitted statement assembles to exactly the bytes it was decoded from (variant-flagged statements: assemble and re-disassemble to the same text, the byte list being what reproduces them); DEFB/DEFM/DEFW/DEFS ranges for all byte values and boundary words. Direction 2: every mnemonic form x 40 operand spellings x 3 case variants: assemble -> disassemble -> assemble is the identity.',
            "Base 'm' only where a signed operand is meaningful (non-zero immediates/displacements/addresses; not RST, IN A,(n), OUT (n),A, DEFS sizes). Word operands of non-representative slots use a 24-value boundary alphabet in the quick tier. Trusted: mc/refs/z80ref.py only to classify operand kinds and to supply mnemonic templates for direction 2."),
    'C03': ('bounded-exhaustive enumeration of control-file layouts and annotation combinations through the real tool chain sna2skool -> skool2ctl -> sna2skool -> skool2ctl (fixed-point check)',
            'S1: every C01-B control-file layout (blocks, sub-blocks, sublength patterns, bases, M and L directives) on three fills, the single-block ones also under 5 skool2ctl (-b always; -k, -h, -l) and 6 sna2skool (-H, -l, -w) option sets. S2: on six representative entries every (annotation kind x text) pair over ~50 kinds (title, D/N/E with 1-2 paragraphs, R plain and O: prefixed, start/mid comments, instruction and multi-instruction comments, M with and without length, dot and colon continuation lines, dot-only headers, every kind of @ directive incl. the six @ignoreua positions, > header/footer blocks) x a 14-text alphabet (blank, dots-only, braces in every unbalanced form, 120-character sentence, 100-character word, semicolon, leading *), plus every ordered pair of kinds. Oracle: the regenerated skool file equals the original byte for byte and the second control file equals the first.',
            'Domain rules of the generator (what a skool file can express): titles/paragraphs are never empty or a lone dot (paragraph separator); dot/colon directives are judged with -k (they carry line breaks); a dot-only entry header is not combined with header directives or entry-level ASM directives (documented); ASM block directives inside entries are a documented limitation. Layouts that make sna2skool warn are counted as ill-formed, not judged.'),
    'C05': ('exhaustive enumeration of finite flag/ALU tables and of a bounded state alphabet per opcode slot, on the real simulators against a reference model',
            'Every (A, operand, carry/F) entry of every 8-bit ALU/rotate/BIT/INC/DEC/DAA/NEG/CPL/SCF/CCF/RLD/RRD table, and every opcode slot x operand fillings x one-at-a-time boundary deviations of every register/pair/T/IFF/IM from 2 base states x PC/SP wrap points, executed on all four simulator implementations and compared (registers, masked F, PC, T, ports, whole memory) with an independent reference model.',
            'Trusted: mc/refs/z80ref.py (flags from arithmetic definitions, timing from machine cycles), CPython, gcc. Undocumented flag bits that depend on Q/MEMPTR or on a repeating block instruction are masked. Register values outside the boundary alphabets are not covered for 16-bit and memory-addressed forms.'),
    'C06': ('explicit-state breadth-first search over instruction sequences (stateful alphabet, then every opcode slot) on the real paired implementations; all static programs up to a length under run() with the interrupt swept over every boundary',
            'Differential model checking of the Python and freshly built C simulators (plain pair and contended pair; 48K and 128K memory; tracer present/absent): breadth-first search from boundary states where every transition executes one letter of a stateful alphabet (prefixes, EI/DI/HALT/IM, I/R loads, exchanges, stack at the ROM edge, repeating block instructions, paging writes incl. lock, self-modifying stores, 64K wrap jumps, interrupt delivery) and the last level executes every opcode slot filling; after every instruction all 30 registers, the whole memory (all banks and ROMs), latch/paged banks, port log and tracer state must be identical. Plus all static programs of <= 2 letters under run(start, stop, interrupts) with IM 1/IM 2 and the frame interrupt swept across the program, and step-by-step == single run.',
            'No reference model: purely differential. 128K without a tracer is explored only without port writes (no tool runs that configuration). Programs longer than the depth bound and states not reachable from the 4 boundary states within it are not covered. Trusted: CPython, gcc, the harness-side store log (list subclass) used for cheap whole-memory comparison.'),
    'C07': ('exhaustive enumeration of a finite table space against a reference model (explicit-state, on the real code)',
            'Complete enumeration of the finite opcode-slot space (1792 slots x 2 operand fillings x 5 addresses x 10 additional-opcode settings x wrap) on the real decoders, timing table and all four simulators, against an independent algorithmic reference decoder.',
            'Trusted: mc/refs/z80ref.py (reference decoder/timing from the Zilog manual), CPython, gcc. Operand bytes beyond two fillings per slot are covered by C02.'),
    'C08': ('inductive-step enumeration over a pointer-edge state alphabet with invariant monitors on the real simulators; TLC model checking of a TLA+ latch model with every edge of the dumped state graph replayed on every paging implementation; exhaustive two/three-write port histories',
            'A: every opcode slot (and interrupt acceptance) executed from every state of an alphabet that aims all pointers and the stack at the ROM/RAM and 64K edges, on all four simulators x {48K, 128K ROM 0, 128K ROM 1}, with monitors for ROM immutability, register and cell ranges and a monotone clock (inductive step). B: models/Paging128.tla (0x7FFD latch: decode, bank/ROM select, sticky lock) is model-checked by TLC and every edge of its state graph is replayed on 10 paging bindings (pagingtracer.PagingTracer both write_port variants with all four simulators, C internal paging without tracer, skoolmacro.PagingTracer/AudioTracer128 with skoolutils.Memory), source states reached three ways, driven by real OUT instructions and observed through simulated marker stores into every 16K region. C: all 256 x 256 two-write histories (thorough: on every binding and 4 port decodes, plus three-write histories over 64 value classes).',
            'Trusted: TLC, the TLA+ model as the statement of the documented latch, CPython, gcc. Part A is an inductive argument over the stated state alphabet (pointers exactly at the two edges); part C quick uses value classes on the secondary bindings.'),
    'C09': ('exhaustive enumeration of RLE input strings and bounded state/option deviations through the real snapshot writers/readers and tools, against an independent format decoder',
            'Z80 run-length coder exhaustively for every string over {ED,00,01} up to length 9 (thorough 10) in both block forms at method level and embedded in page-edge/long-run contexts through real v1/v2/v3/SZX files; ED runs of every length 1..600; runs around the 255 limit; register/hardware-state deviations d <= 2 on 48K/128K/+2 in both formats (thorough: every T-state value of both frame lengths); every single bin2sna/snapmod option and every ordered pair from the option alphabet. Oracles: read(write(x)) == x, Z80-written == SZX-written state, skoolkit reader == independent decoder written from the format specifications, changed set == reference model of the documented option semantics.',
            'Trusted: mc/refs/snapfmt.py (independent Z80 v1-v3/SZX decoders incl. the published RLE coding rules), zlib. Option combinations whose order/precedence the documentation leaves open accept either result; ill-formed specs (moves/pokes past a bank or past 65535, 7ffd on 48K) are outside the generated space.'),
    'C10': ('crash-point style enumeration: every instruction boundary of every generated program is a save point, through the real tool, over configuration deviations',
            'For every program (prologue + each letter of a stateful alphabet + epilogue with IM 2 interrupt, HALT wait, prefix chain, LDIR, port writes, 128K paging/AY) and every split point n1 = 1..N-1, trace.main run for N instructions equals trace.main run for n1, snapshot, then N-n1 from the snapshot: all registers incl. R and MEMPTR (SZX), all RAM banks, border, fe, 7ffd, fffd, AY, iff, im, T mod frame. Configurations: deviations (d <= 1 quick, d <= 2 thorough) over {szx,z80} x {48K,128K} x {plain,--cmio} x {C,--python} x start T (frame-180, three frames later, frame-60, 2^24-170).',
            'Both legs start from the same initial SZX file (common mode). For .z80 mid files MEMPTR, the MEMPTR-derived F bits 3/5 under --cmio and the port-0xFE byte (no field in the format beyond the border colour) are exempt. Programs other than the generated ones are not covered.'),
    'C14': ('bounded-exhaustive enumeration of token-sequence memory images x ranges x options x code maps (execution traces in every map format; all 256 subsets of a window) through the real tools sna2ctl -> sna2skool -> skool2bin',
            'Every image made of <= 3 (thorough 4) tokens from a 21-token alphabet (terminal/conditional jumps into and out of the range, prefixes alone, DD before an unmodified opcode, RST with arguments, text, zero runs, data, an instruction cut off by END) x {whole range, first token dropped, last byte dropped} x options (-C, -r, -h, -l, TextMinLength*, TextChars, Dictionary); execution-trace code maps (computed by the reference model from every token start) in each of five map formats; every subset of an 8-byte window as an arbitrary map on six images. sna2ctl must terminate (10 s watchdog), its block directives must start at START, strictly increase and end with i END, every mapped address must lie in a c block, sna2skool must not warn, every sub-block directive must sit on an instruction boundary of the skool file, and the skool file must reassemble to the original bytes (C01 oracle).',
            'Trusted: the token alphabet as the space of image shapes; mc/refs/z80ref.py for execution traces. The generated control file is fed to sna2skool with default options. Six defects found by this check were repaired (known_findings.json F1b, F13-F16).'),
    'C15': ('bounded-exhaustive enumeration of tile arrays x scale x crop x mask x flip/rotate x transparency deviations through the real image writer, against an independent PNG decoder and a per-pixel display model',
            'Every image in a geometry sweep (bases x scale 1..8 x mask type 0..2 x the full crop alphabet) and in all deviations d <= 3 (thorough 4) over shape, attributes, graphics, masks, flip, rotate, tindex, alpha, animation, second frame with offsets and shared Udg objects (each x scale 1..8 x mask 0..2 x 6 crop rectangles) is written by ImageWriter.write_image and by sna2img / skool2html image macros, validated by an independent PNG/APNG decoder (signature, chunk order, lengths, CRCs, IHDR/PLTE/tRNS/acTL/fcTL/fdAT consistency, zlib stream length, all filters) and compared pixel by pixel, frame by frame, with the Spectrum display rules and the documented mask truth tables; the flash frame must be confined to the reported rectangle; every specialised encoder must agree with the generic one (all seven reached: vacuity guards).',
            'Trusted: mc/refs/png.py (self-tested on malformed files at start-up), mc/refs/pixels.py (display rules, mask truth tables from the documentation), zlib. Default [Colours] and compression level only; crop origins outside the image and ragged arrays excluded. Built by a sub-agent under the lead\'s contract (BUILDING.md).'),
    'C19': ('exhaustive enumeration of both contention delay tables and of a bounded placement x frame-position space per opcode slot, on the real contended simulators against a reference bus-cycle/ULA model',
            'Both delay tables read back completely (a NOP at every one of the 69888/70908 frame positions), and every opcode slot x operand fillings x placements of PC, data pointers, stack and port address (ROM, contended, uncontended, 0xC000 with even/odd bank) x I register x both condition outcomes x every phase of the wait pattern at both ends of the contended window (first, middle, last line; frame edges), on CMIOSimulator and CCMIOSimulator: state equals the reference semantics, T delta equals documented duration plus the sum over the reference bus cycles of the published wait pattern, Python == C.',
            'Trusted: mc/refs/z80ref.py bus-cycle lists per instruction class (published contention table) and mc/refs/ula.py (published wait pattern and frame layouts). Frame positions outside the enumerated set (quick: ~90; thorough: four whole lines + edges) are covered only by the table read-back with a NOP. Interrupt acceptance is not part of this property.'),
}

PENDING_REASON = 'check not built yet in this session (work in progress; DESIGN.md section 8 gives the build order)'


def main():
    props = [json.loads(l) for l in open(os.path.join(HERE, 'properties.jsonl'))]
    m = {
        'version': 1,
        'setup_cmd': 'true',
        'hooks': {
            'guard': 'SKOOLKIT_VERIF',
            'enable': 'no source hooks are needed: all instrumentation lives in the check process (mc/), which imports /repo\'s working tree and rebuilds c/csimulator.c itself',
            'baseline_off_cmd': 'cd /repo && /venv/bin/python -m pytest -ra -q -p no:cacheprovider --timeout=900 --continue-on-collection-errors',
            'source_commits': [],
            'add_only': True,
        },
        'engines': [{'name': 'mc', 'path': '/verif/mc', 'serves_properties': sorted(BUILT),
                     'kind_free_text': 'hand-written bounded-exhaustive explorer (enumeration kernel, sharding, explicit-state search, reference models) driving the real code in-process; TLC for the C08 paging model'}],
        'checks': [],
        'notes': 'See DESIGN.md. "fix:" commits in /repo are listed in known_findings.json.',
        'not_applicable': [],
    }
    for p in props:
        pid = p['id']
        if pid in BUILT:
            tech, text, note = BUILT[pid]
            m['checks'].append({
                'property_id': pid,
                'quick_cmd': './check {} --tier quick'.format(pid),
                'thorough_cmd': './check {} --tier thorough'.format(pid),
                'evidence_file': '/verif/evidence/{}.json'.format(pid),
                'replay_cmd_template': './check {} --replay {{path}}'.format(pid),
                'engine': 'mc',
                'level_claimed': {'category': 'model_checking', 'text': text, 'design_ref': 'DESIGN.md section 4, ' + pid},
                'level_note': note,
                'technique': tech,
            })
        else:
            m['not_applicable'].append({'property_id': pid, 'reason': PENDING_REASON})
    with open(os.path.join(HERE, 'MANIFEST.json'), 'w') as f:
        json.dump(m, f, indent=1)
        f.write('\n')


if __name__ == '__main__':
    main()
