"""./check <PROP> [--tier quick|thorough] [--seed N] [--replay FILE]"""
import argparse
import importlib
import json
import os
import subprocess
import sys
import time

from . import core, skbuild


def _confirm(prop, v):
    """Re-execute a violating case in a fresh process; must reproduce identically."""
    p = subprocess.run([sys.executable, '-m', 'mc.main', prop, '--replay-json', json.dumps(v['case'], default=str)],
                       capture_output=True, text=True, cwd=core.VERIF, timeout=1800)
    try:
        out = json.loads(p.stdout.strip().splitlines()[-1])
    except Exception:
        return None, 'replay process failed: rc={} stdout={!r} stderr={!r}'.format(p.returncode, p.stdout[-500:], p.stderr[-1500:])
    return out, None


def _reproduces_in_full_run(prop, tier, seed, case_id):
    import tempfile
    import shutil
    tmp = tempfile.mkdtemp(prefix='verif-rerun-')
    try:
        env = dict(os.environ, VERIF_EVIDENCE_DIR=os.path.join(tmp, 'evidence'), VERIF_REPLAY_DIR=os.path.join(tmp, 'replays'))
        p = subprocess.run([sys.executable, '-m', 'mc.main', prop, '--tier', tier, '--seed', str(seed), '--no-confirm'],
                           capture_output=True, text=True, cwd=core.VERIF, env=env, timeout=6 * 3600)
        return any(line.startswith('  case {}:'.format(case_id)) for line in p.stdout.splitlines())
    finally:
        shutil.rmtree(tmp, ignore_errors=True)


def main(argv=None):
    ap = argparse.ArgumentParser()
    ap.add_argument('prop')
    ap.add_argument('--tier', default=os.environ.get('VERIF_TIER') or 'quick', choices=['quick', 'thorough'])
    ap.add_argument('--seed', type=int, default=int(os.environ.get('VERIF_SEED') or 0))
    ap.add_argument('--replay')
    ap.add_argument('--replay-json')
    ap.add_argument('--no-confirm', action='store_true')
    ns = ap.parse_args(argv)
    prop = ns.prop.upper()
    try:
        mod = importlib.import_module('mc.props.' + prop.lower())
        skbuild.bind(getattr(mod, 'NEEDS_C', True))
        if hasattr(mod, 'setup'):
            mod.setup()
    except skbuild.BrokenCheck as e:
        print('BROKEN-CHECK property={} {}'.format(prop, e), file=sys.stderr)
        return 2

    if ns.replay_json is not None:
        details = mod.replay(json.loads(ns.replay_json))
        print(json.dumps(details))
        return 1 if details else 0
    if ns.replay:
        with open(ns.replay) as f:
            rec = json.load(f)
        if isinstance(rec['case'], dict) and rec['case'].get('impl_crash'):
            print('replay: this record is the traceback of an exception raised by the implementation while a shard was exploring;')
            print('        re-run ./check {} to reproduce it:'.format(prop))
            print(rec['case']['traceback'])
            print('VIOLATION property={} replay={}'.format(prop, os.path.abspath(ns.replay)))
            return 1
        details = mod.replay(rec['case'])
        for d in details:
            print('replay:', d)
        if details:
            print('VIOLATION property={} replay={}'.format(prop, os.path.abspath(ns.replay)))
            return 1
        print('replay: property holds for this case')
        return 0

    t0 = time.time()
    try:
        stats, meta = mod.run(ns.tier, ns.seed)
    except skbuild.BrokenCheck as e:
        print('BROKEN-CHECK property={} {}'.format(prop, e), file=sys.stderr)
        return 2
    wall = time.time() - t0

    # vacuity guards
    missing = [g for g in meta.get('required_guards', []) if not stats.counters.get(g)]
    if missing and not stats.impl_crashes:
        print('BROKEN-CHECK property={} vacuity guards at zero: {}'.format(prop, missing), file=sys.stderr)
        return 2

    core.write_evidence(prop, ns.tier, ns.seed, stats, wall, meta['rule'], meta.get('exhaustive', True),
                        meta.get('bound', ''), meta.get('assumptions', []), meta.get('extra'))

    for f in core.load_known_findings(prop):
        n = stats.known.get(f['id'], 0)
        ex = stats.known_examples.get(f['id'])
        print('KNOWN-FINDING: property={} {} [{}; observed in this run: {}{}]'.format(
            prop, f['what'], f['id'], n, '' if not ex else '; e.g. ' + str(ex['case_id'])))

    rc = 0
    if stats.n_violations:
        vios = sorted(stats.violations, key=lambda v: (v['order'], str(v['case_id'])))
        seen = set()
        reported = 0
        for v in vios:
            if v['case_id'] in seen:
                continue
            seen.add(v['case_id'])
            if reported >= 5:
                break
            if not ns.no_confirm and reported < 2 and not (isinstance(v['case'], dict) and v['case'].get('impl_crash')):
                out, err = _confirm(prop, v)
                if err:
                    print('BROKEN-CHECK property={} {}'.format(prop, err), file=sys.stderr)
                    return 2
                if not out:
                    # The case alone holds in a fresh process.  Either the exploration is nondeterministic (broken check), or
                    # the implementation carries state from one case to the next (a cache, a module-level table), in which case
                    # the whole exploration - a fixed enumeration order - reproduces it: run it again in a fresh process.
                    if not _reproduces_in_full_run(prop, ns.tier, ns.seed, v['case_id']):
                        print('BROKEN-CHECK property={} violation {} did not reproduce in a fresh process (nondeterminism): {}'.format(
                            prop, v['case_id'], v['detail']), file=sys.stderr)
                        return 2
                    v['detail'] += ' [history-dependent: holds when this case is run alone in a fresh process, fails again at the same ' \
                                   'point of a second complete exploration - the implementation keeps state between cases]'
                    v['case'] = dict(v['case'], history_dependent=True) if isinstance(v['case'], dict) else v['case']
                    ns.no_confirm = True
            path = core.write_replay(prop, v)
            print('  case {}: {}'.format(v['case_id'], v['detail']))
            print('VIOLATION property={} replay={}'.format(prop, path))
            reported += 1
        print('violations: {} (distinct cases stored: {}) by group: {}'.format(stats.n_violations, len(seen), dict(stats.viol_groups)))
        rc = 1
    print('{} {} seed={} evaluations={} states={} transitions={} traces={} nontrivial={} violations={} known={} wall={:.1f}s'.format(
        prop, ns.tier, ns.seed, stats.evaluations, len(stats.states), stats.transitions, stats.traces,
        len(stats.nontrivial), stats.n_violations, dict(stats.known), wall))
    return rc


if __name__ == '__main__':
    sys.exit(main())
