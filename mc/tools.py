"""In-process runner for SkoolKit's command-line tools (their real main(args))."""
import contextlib
import importlib
import io
import os
import sys
import tempfile

from . import skbuild


class ToolResult:
    __slots__ = ('out', 'err', 'rc', 'exc')

    def __init__(self, out, err, rc, exc):
        self.out = out
        self.err = err
        self.rc = rc        # 0 ok; 1 SkoolKitError/SystemExit(non-zero); 2 unexpected exception
        self.exc = exc

    def __repr__(self):
        return 'ToolResult(rc={}, err={!r}, exc={!r})'.format(self.rc, self.err[-300:], self.exc)


class _Out(io.StringIO):
    """Text stream with a .buffer, like sys.stdout (some tools write bytes)."""
    def __init__(self):
        super().__init__()
        self.buffer = io.BytesIO()


def run_tool(name, args, stdin=None, cwd=None):
    """Run skoolkit.<name>.main(args) capturing stdout/stderr.  Exceptions are caught."""
    from skoolkit import SkoolKitError
    mod = importlib.import_module('skoolkit.' + name)
    out, err = _Out(), _Out()
    old = sys.stdout, sys.stderr, sys.stdin
    oldcwd = None
    rc, exc = 0, None
    try:
        if cwd:
            oldcwd = os.getcwd()
            os.chdir(cwd)
        sys.stdout, sys.stderr = out, err
        if stdin is not None:
            sys.stdin = io.StringIO(stdin)
        try:
            mod.main([str(a) for a in args])
        except SkoolKitError as e:
            rc, exc = 1, 'SkoolKitError: {}'.format(e.args[0] if e.args else '')
        except SystemExit as e:
            code = e.code
            rc = 0 if code in (None, 0) else 1
            if rc:
                exc = 'SystemExit: {}'.format(code)
        except Exception as e:      # a crash of the tool is information, not a harness failure
            rc, exc = 2, '{}: {}'.format(type(e).__name__, e)
    finally:
        sys.stdout, sys.stderr, sys.stdin = old
        if oldcwd:
            os.chdir(oldcwd)
    text = out.getvalue()
    b = out.buffer.getvalue()
    if b and not text:
        text = b.decode('latin-1')
    return ToolResult(text, err.getvalue(), rc, exc)


_workdir = None


def workdir():
    """Private per-process scratch directory (under the auto-removed scratch area)."""
    global _workdir
    pid = os.getpid()
    if _workdir is None or _workdir[0] != pid:
        d = tempfile.mkdtemp(prefix='w{}-'.format(pid), dir=skbuild.scratch_dir())
        _workdir = (pid, d)
    return _workdir[1]


def write_file(name, data, d=None):
    path = os.path.join(d or workdir(), name)
    mode = 'wb' if isinstance(data, (bytes, bytearray)) else 'w'
    with open(path, mode) as f:
        f.write(data)
    return path


def read_file(path, binary=True):
    with open(path, 'rb' if binary else 'r') as f:
        return f.read()
