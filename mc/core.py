"""Enumeration kernel: sharding, statistics, evidence, violations, known findings.

Every check is a *complete* enumeration of a stated finite space.  A driver module
(mc/props/cNN.py) provides

    PROPERTY = 'C07'; NEEDS_C = True/False
    run(tier, seed) -> Stats          (usually via run_shards)
    replay(case)    -> list[str]      (violation details for one case; [] = holds)

Stats carries only measured numbers.
"""
import hashlib
import json
import os
import re
import sys
import time
import traceback
import multiprocessing
from collections import Counter

VERIF = os.path.dirname(os.path.dirname(os.path.abspath(__file__)))
NPROC = int(os.environ.get('VERIF_JOBS', '0')) or min(16, os.cpu_count() or 1)
VIOLATION_CAP = 40          # per shard, stored (all are counted)


def h64(obj):
    """Stable 64-bit hash of a canonical (repr-able) object."""
    if not isinstance(obj, (bytes, bytearray)):
        obj = repr(obj).encode()
    return int.from_bytes(hashlib.blake2b(obj, digest_size=8).digest(), 'big')


# --------------------------------------------------------------------------- findings
def load_known_findings(prop):
    path = os.path.join(VERIF, 'known_findings.json')
    if not os.path.exists(path):
        return []
    with open(path) as f:
        data = json.load(f)
    return [e for e in data.get('findings', []) if e.get('property') == prop and e.get('status') == 'open']


def _match_one(want, have):
    if isinstance(want, dict):
        if 'regex' in want:
            return have is not None and re.search(want['regex'], str(have)) is not None
        if 'in' in want:
            return have in want['in']
        if 'range' in want:
            return have is not None and want['range'][0] <= have <= want['range'][1]
        return False
    if isinstance(want, list):
        return have in want
    return want == have


def match_finding(findings, tags):
    for f in findings:
        m = f.get('match', {})
        if m and all(_match_one(v, tags.get(k)) for k, v in m.items()):
            return f
    return None


# --------------------------------------------------------------------------- stats
class Stats:
    def __init__(self, prop=None):
        self.prop = prop
        self.evaluations = 0        # cases generated and checked
        self.transitions = 0        # implementation steps / tool executions
        self.traces = 0             # model/reference traces replayed on the real code
        self.states = set()         # hashes of distinct canonical states / outcomes
        self.nontrivial = set()     # hashes of distinct non-trivial cases
        self.counters = Counter()   # vacuity guards and other measured counts
        self.violations = []        # dicts (capped)
        self.n_violations = 0
        self.viol_groups = Counter()
        self.known = Counter()      # finding id -> number of matching violations
        self.known_examples = {}
        self.samples = []
        self.caps = []
        self.impl_crashes = 0
        self.notes = []
        self._findings = load_known_findings(prop) if prop else []

    # -- recording
    def state(self, key):
        self.states.add(key if isinstance(key, int) else h64(key))

    def nontriv(self, key):
        self.nontrivial.add(key if isinstance(key, int) else h64(key))

    def sample(self, obj, limit=6):
        if len(self.samples) < limit:
            self.samples.append(obj)

    def violation(self, case_id, case, detail, tags=None, order=None):
        """case: JSON-serialisable description sufficient for replay(case)."""
        tags = dict(tags or {})
        detail = str(detail)
        if len(detail) > 700:
            detail = detail[:700] + ' ...[truncated]'
        f = match_finding(self._findings, tags)
        if f is not None:
            self.known[f['id']] += 1
            self.known_examples.setdefault(f['id'], {'case_id': case_id, 'detail': detail})
            return
        self.n_violations += 1
        self.viol_groups[str(tags.get('group') or tags.get('part') or tags.get('table') or tags.get('kind') or '')] += 1
        if len(self.violations) < VIOLATION_CAP:
            self.violations.append({'case_id': case_id, 'case': case, 'detail': detail, 'tags': tags,
                                    'order': order if order is not None else self.evaluations})

    def merge(self, o):
        self.evaluations += o.evaluations
        self.impl_crashes += getattr(o, 'impl_crashes', 0)
        self.transitions += o.transitions
        self.traces += o.traces
        self.states |= o.states
        self.nontrivial |= o.nontrivial
        self.counters.update(o.counters)
        self.violations.extend(o.violations)
        self.n_violations += o.n_violations
        self.known.update(o.known)
        self.viol_groups.update(o.viol_groups)
        for k, v in o.known_examples.items():
            self.known_examples.setdefault(k, v)
        for s in o.samples:
            if len(self.samples) < 8:
                self.samples.append(s)
        for c in o.caps:
            if c not in self.caps:
                self.caps.append(c)
        for n in o.notes:
            if n not in self.notes:
                self.notes.append(n)
        return self


# --------------------------------------------------------------------------- sharding
def _shard_entry(args):
    fn, shard, nshards, fargs = args
    try:
        return ('ok', fn(shard, nshards, *fargs))
    except BaseException as e:
        text = 'shard {}: {}'.format(shard, traceback.format_exc())
        if isinstance(e, Exception) and not isinstance(e, Horizon) and _raised_in_implementation(e):
            return ('implcrash', (shard, text))
        return ('err', text)


def _raised_in_implementation(e):
    """True if the innermost frame of the exception's traceback is code of the tree under
    test (not the harness, not the standard library): the implementation raised on an input
    the driver considered in-domain.  Drivers normally catch this per case; this is the
    backstop, so that such a crash is reported as a violation of the property being explored
    rather than as a broken check."""
    from .skbuild import REPO
    tb = e.__traceback__
    last = None
    while tb is not None:
        last = tb
        tb = tb.tb_next
    if last is None:
        return False
    fname = os.path.abspath(last.tb_frame.f_code.co_filename)
    return fname.startswith(os.path.abspath(REPO) + os.sep) and not fname.startswith(VERIF + os.sep)


def run_shards(fn, *fargs, nshards=None, prop=None):
    """Run fn(shard, nshards, *fargs) -> Stats in forked workers and merge.

    The parent has already bound skoolkit (incl. fresh C builds); fork shares it.
    A worker exception makes the whole check *broken* (exit 2), never a verdict.
    """
    from .skbuild import BrokenCheck, scratch_dir
    scratch_dir()       # created (and later removed) by the parent, shared by the workers
    nshards = nshards or NPROC
    total = Stats(prop)
    if nshards == 1:
        res = [_shard_entry((fn, 0, 1, fargs))]
    else:
        ctx = multiprocessing.get_context('fork')
        with ctx.Pool(min(nshards, NPROC)) as pool:
            res = pool.map(_shard_entry, [(fn, i, nshards, fargs) for i in range(nshards)], chunksize=1)
    for kind, val in res:
        if kind == 'err':
            raise BrokenCheck(val)
    for kind, val in res:
        if kind == 'implcrash':
            shard, text = val
            total.impl_crashes += 1
            total.caps.append('shard {} of {} stopped when the implementation raised; the rest of its share was not explored'.format(shard, nshards))
            total.violation('impl-crash/shard-{}'.format(shard), {'impl_crash': True, 'traceback': text},
                            'the implementation raised on an in-domain case: ' + text.strip().splitlines()[-1] + ' | ' + ' / '.join(text.strip().splitlines()[-7:-1]),
                            tags={'group': 'impl-crash'}, order=-1)
        else:
            total.merge(val)
    return total


def shard_iter(iterable, shard, nshards):
    """Items whose index is congruent to shard (the enumeration itself stays complete)."""
    for i, item in enumerate(iterable):
        if i % nshards == shard:
            yield i, item


# --------------------------------------------------------------------------- horizons
class Horizon(Exception):
    pass


class watchdog:
    """Wall-clock horizon for code that offers no instruction/T-state budget of its own.
    Both the Python simulators (pure Python loops) and the C ones (CHECK_SIGNALS in their
    loops) are interruptible by SIGALRM."""
    def __init__(self, seconds, what=''):
        self.seconds = seconds
        self.what = what

    def _fire(self, signum, frame):
        raise Horizon('horizon of {} s exceeded: {}'.format(self.seconds, self.what))

    def __enter__(self):
        import signal
        self.old = signal.signal(signal.SIGALRM, self._fire)
        signal.alarm(self.seconds)
        return self

    def __exit__(self, *exc):
        import signal
        signal.alarm(0)
        signal.signal(signal.SIGALRM, self.old)
        return False


# --------------------------------------------------------------------------- deviations
def deviations(defaults, alternatives, d):
    """Every assignment differing from `defaults` in at most d dimensions.

    defaults: dict name -> default value; alternatives: dict name -> list of
    non-default values.  Yields (ndev, dict).  Order: 0 deviations first.
    """
    import itertools
    names = [n for n in defaults if alternatives.get(n)]
    for k in range(0, d + 1):
        for combo in itertools.combinations(names, k):
            for vals in itertools.product(*(alternatives[n] for n in combo)):
                cfg = dict(defaults)
                cfg.update(zip(combo, vals))
                yield k, cfg


# --------------------------------------------------------------------------- evidence
def write_evidence(prop, tier, seed, stats, wall, rule, exhaustive, bound, assumptions, extra=None):
    cov = {
        'states': len(stats.states),
        'transitions': stats.transitions,
        'traces_validated_against_impl': stats.traces,
        'evaluations': stats.evaluations,
        'distinct_nontrivial': len(stats.nontrivial),
        'rule': rule,
        'samples': stats.samples[:8] or ['(none recorded)'],
        'exhaustive': bool(exhaustive),
        'bound_completed': bound,
        'caps_hit': stats.caps,
        'guards': dict(sorted(stats.counters.items())),
        'known_findings_observed': dict(stats.known),
        'notes': stats.notes,
    }
    if extra:
        cov.update(extra)
    ev = {
        'property_id': prop,
        'tier': tier,
        'seed': seed,
        'level': 'model_checking',
        'coverage': cov,
        'assumptions': assumptions,
        'wall_s': round(wall, 2),
        'violations': stats.n_violations,
    }
    d = os.environ.get('VERIF_EVIDENCE_DIR') or os.path.join(VERIF, 'evidence')
    os.makedirs(d, exist_ok=True)
    tmp = os.path.join(d, prop + '.json.tmp')
    with open(tmp, 'w') as f:
        json.dump(ev, f, indent=1, sort_keys=False, default=str)
        f.write('\n')
    os.replace(tmp, os.path.join(d, prop + '.json'))
    return ev


def write_replay(prop, v):
    d = os.path.join(os.environ.get('VERIF_REPLAY_DIR') or os.path.join(VERIF, 'replays'), prop)
    os.makedirs(d, exist_ok=True)
    name = re.sub(r'[^A-Za-z0-9_.=,+-]', '_', str(v['case_id']))[:120]
    if not name:
        name = 'case'
    name += '-' + format(h64(json.dumps(v['case'], sort_keys=True, default=str)), '016x')[:8]
    path = os.path.join(d, name + '.json')
    with open(path, 'w') as f:
        json.dump({'property': prop, 'case_id': v['case_id'], 'case': v['case'], 'detail': v['detail'],
                   'tags': v.get('tags', {})}, f, indent=1, default=str)
        f.write('\n')
    test = os.path.join(d, 'test_' + name.replace('-', '_').replace('.', '_').replace('=', '_').replace(',', '_').replace('+', '_') + '.py')
    with open(test, 'w') as f:
        f.write(_TEST_TEMPLATE.format(prop=prop, modname=prop.lower(), path=path))
    return path


_TEST_TEMPLATE = '''"""Stand-alone replay of one {prop} counter-example (no explorer involved).

Run:  cd /verif && PYTHONPATH=/verif /venv/bin/python -m pytest -q {path!r:.0}<this file>
"""
import json, sys
sys.path.insert(0, '/verif')
from mc import skbuild
import importlib

def test_replay():
    mod = importlib.import_module('mc.props.{modname}')
    skbuild.bind(getattr(mod, 'NEEDS_C', True))
    case = json.load(open({path!r}))['case']
    assert mod.replay(case) == [], 'property {prop} violated for this case'
'''
