"""One-instruction comparison engine shared by C05/C06/C07/C08/C19.

Keeps one instance of each simulator implementation alive together with an
'expected memory' image; a case = (code bytes at PC, CPU state, port answer).  The
reference model (z80ref.step) runs on the expected image; every simulator runs on its
own memory; afterwards registers, F (under the documented-bits mask), PC, T, the
port log and the *whole* 64K memory are compared, and all touched cells restored.
"""
from . import core, simh
from .refs import z80ref


def base_fill(a):
    return (a * 37 + 11) & 0xFF


class RefMem:
    """Expected memory image kept both as a list and as a bytearray (cheap compares)."""
    def __init__(self, values):
        self.l = list(values)
        self.b = bytearray(values)

    def __getitem__(self, a):
        return self.l[a]

    def __setitem__(self, a, v):
        self.l[a] = v
        self.b[a] = v

    def __len__(self):
        return 65536


class Engine:
    def __init__(self, kinds=simh.KINDS, answer=0xBF, fill=base_fill, frame=69888):
        self.kinds = kinds
        self.base = [fill(a) for a in range(65536)]
        self.base_bytes = bytearray(self.base)
        self.refmem = RefMem(self.base)
        self.tracers = {}
        self.sims = {}
        self.answer = answer
        for k in kinds:
            tr = simh.Tracer(self._answer)
            self.tracers[k] = tr
            self.sims[k] = simh.new_sim(k, list(self.base), tr)
        self.frame = frame
        self.dirty = set()

    def _answer(self, port):
        a = self.answer
        return a(port) if callable(a) else a

    def poke(self, addr, values):
        for i, v in enumerate(values):
            a = (addr + i) & 0xFFFF
            self.refmem[a] = v
            for s in self.sims.values():
                s.memory[a] = v
            self.dirty.add(a)

    def restore(self):
        base = self.base
        for a in self.dirty:
            v = base[a]
            self.refmem[a] = v
            for s in self.sims.values():
                s.memory[a] = v
        self.dirty.clear()

    def hard_reset_memory(self, kind):
        m = self.sims[kind].memory
        for a in range(65536):
            m[a] = self.base[a]

    def run_ref(self, st):
        """Run the reference on a copy of st; returns (state', Result)."""
        s2 = st.copy()
        res = z80ref.step(s2, self.refmem, inp=self._answer, frame=self.frame)
        for a, _ in res.writes:
            self.dirty.add(a)
        return s2, res

    def run_sim(self, kind, st):
        sim = self.sims[kind]
        tr = self.tracers[kind]
        del tr.log[:]
        simh.load_state(sim, st)
        sim.registers[simh.MEMPTR] = 0
        sim.run(st.PC)
        return sim

    def compare(self, st, check_memory=True, mask_override=None):
        """Returns list of mismatch strings over all simulators vs the reference."""
        exp, res = self.run_ref(st)
        out = []
        fmask = res.fmask if mask_override is None else (res.fmask & mask_override)
        self.last_T = {}
        for k in self.kinds:
            try:
                sim = self.run_sim(k, st)
            except core.Horizon:
                raise
            except Exception as e:
                # the simulator itself raised on an in-domain state: a violation, not a harness failure
                out.append('{}: simulator raised {}: {}'.format(k, type(e).__name__, e))
                self.hard_reset_memory(k)
                continue
            r = sim.registers
            self.last_T[k] = int(r[25]) - st.T
            for n in simh.NAMES:
                got = int(r[simh.RIDX[n]])
                want = getattr(exp, n)
                if n == 'F':
                    if (got ^ want) & fmask:
                        out.append('{}: F={:02X} expected {:02X} (mask {:02X})'.format(k, got, want, fmask))
                elif got != want:
                    out.append('{}: {}={} expected {}'.format(k, n, got, want))
            log = self.tracers[k].log
            if log != res.ports:
                out.append('{}: port log {} expected {}'.format(k, log, res.ports))
            if check_memory:
                m = sim.memory
                if isinstance(m, list):
                    same = m == self.refmem.l
                else:
                    same = m == self.refmem.b
                if not same:
                    diffs = [a for a in range(65536) if m[a] != self.refmem[a]][:4]
                    out.append('{}: memory differs at {} (got {}, expected {})'.format(
                        k, diffs, [m[a] for a in diffs], [self.refmem[a] for a in diffs]))
                    for a in diffs:
                        self.dirty.add(a)
                    if len(diffs) == 4:
                        self.hard_reset_memory(k)
        return exp, res, out
