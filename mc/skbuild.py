"""Bind the check process to /repo's *current working tree*.

* Python sources come straight from /repo (asserted).
* The two C simulator modules are rebuilt from /repo/c/csimulator.c into a scratch
  directory (outside /repo and /verif) and placed in sys.modules before
  `import skoolkit`, so that `skoolkit.CSimulator`/`CCMIOSimulator` and every tool's
  `from skoolkit import CSimulator` resolve to the fresh build rather than to the
  git-ignored (possibly stale) .so files lying in /repo/skoolkit.
"""
import atexit
import importlib.util
import os
import shutil
import subprocess
import sys
import sysconfig
import tempfile
from concurrent.futures import ThreadPoolExecutor

REPO = os.environ.get('VERIF_REPO', '/repo')
_scratch = None
_bound = False


class BrokenCheck(Exception):
    """The harness itself cannot run (not a verdict about the property)."""


def scratch_dir():
    global _scratch
    if _scratch is None:
        base = os.environ.get('VERIF_SCRATCH') or tempfile.gettempdir()
        _scratch = tempfile.mkdtemp(prefix='skverif-', dir=base)
        pid = os.getpid()

        def _cleanup(d=_scratch, pid=pid):
            if os.getpid() == pid:
                shutil.rmtree(d, ignore_errors=True)
        atexit.register(_cleanup)
    return _scratch


def _compile(name, extra):
    d = scratch_dir()
    suffix = sysconfig.get_config_var('EXT_SUFFIX')
    out = os.path.join(d, name + suffix)
    inc = sysconfig.get_paths()['include']
    cmd = ['gcc', '-O2', '-shared', '-fPIC', '-I' + inc] + extra + [os.path.join(REPO, 'c', 'csimulator.c'), '-o', out]
    p = subprocess.run(cmd, capture_output=True, text=True)
    if p.returncode:
        raise BrokenCheck('C build failed: {}\n{}'.format(' '.join(cmd), p.stderr[-2000:]))
    return out


def bind(with_c=True):
    """Import skoolkit from /repo, with freshly built C modules if with_c."""
    global _bound
    if _bound:
        return
    if 'skoolkit' in sys.modules:
        raise BrokenCheck('skoolkit imported before skbuild.bind()')
    if REPO not in sys.path:
        sys.path.insert(0, REPO)
    if with_c:
        with ThreadPoolExecutor(2) as ex:
            f1 = ex.submit(_compile, 'csimulator', [])
            f2 = ex.submit(_compile, 'ccmiosimulator', ['-DCONTENTION'])
            paths = {'skoolkit.csimulator': f1.result(), 'skoolkit.ccmiosimulator': f2.result()}
        # The parent package must exist for a dotted module name; create it first
        # *without* executing skoolkit/__init__ (which imports the C modules).
        for modname, path in paths.items():
            spec = importlib.util.spec_from_file_location(modname, path)
            mod = importlib.util.module_from_spec(spec)
            spec.loader.exec_module(mod)
            sys.modules[modname] = mod
    import skoolkit
    if os.path.dirname(os.path.abspath(skoolkit.__file__)) != os.path.join(REPO, 'skoolkit'):
        raise BrokenCheck('skoolkit resolved to {} not {}'.format(skoolkit.__file__, REPO))
    if with_c:
        if skoolkit.CSimulator is None or skoolkit.CCMIOSimulator is None:
            raise BrokenCheck('C simulators not bound')
        for modname, path in paths.items():
            if os.path.abspath(sys.modules[modname].__file__) != path:
                raise BrokenCheck('stale C module bound: ' + modname)
    _bound = True
