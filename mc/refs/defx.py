"""Independent evaluation of DEFB/DEFM/DEFS/DEFW statements (reference for C04).

Written from the documentation (asm.rst / skool-files.rst: DEFB/DEFM items are strings or byte values,
DEFW items are word values, DEFS takes a length and an optional filler byte; numbers may be decimal,
hexadecimal with a '$' prefix in either case, or binary with a '%' prefix; operands may be arithmetic
expressions over + - * / % and parentheses, and a character in double quotes stands for its code).

Structure: a tokenizer and a recursive-descent parser (no regular-expression rewriting, no eval), so that
it shares no mechanism with skoolkit.z80.eval_int.  A '%' is the binary prefix where an operand is expected
and the modulo operator where an operator is expected.  Anything outside this grammar raises ValueError.
"""

DIRECTIVES = ('DEFB', 'DEFM', 'DEFS', 'DEFW')
_DEC = '0123456789'
_HEX = '0123456789abcdefABCDEF'


def directive_of(op):
    """'DEFB' etc. if `op` is a data statement (in either case), else None."""
    head = op.strip()[:4].upper()
    rest = op.strip()[4:5]
    if head in DIRECTIVES and (rest == '' or rest.isspace()):
        return head
    return None


def split_items(text):
    """Split at the commas that are outside double quotes (a backslash escapes the next character inside quotes)."""
    items, cur, quoted, i = [], [], False, 0
    while i < len(text):
        c = text[i]
        if quoted and c == '\\' and i + 1 < len(text):
            cur.append(text[i:i + 2])
            i += 2
            continue
        if c == '"':
            quoted = not quoted
        if c == ',' and not quoted:
            items.append(''.join(cur).strip())
            cur = []
        else:
            cur.append(c)
        i += 1
    if quoted:
        raise ValueError('unterminated string in {!r}'.format(text))
    items.append(''.join(cur).strip())
    return items


def tokens(item):
    """Tokens of one item: ('str', [codes]), ('num', value), ('op', char)."""
    out = []
    i, n = 0, len(item)
    while i < n:
        c = item[i]
        if c.isspace():
            i += 1
            continue
        expect_operand = not out or (out[-1][0] == 'op' and out[-1][1] != ')')
        if c == '"':
            codes = []
            i += 1
            while True:
                if i >= n:
                    raise ValueError('unterminated string in {!r}'.format(item))
                if item[i] == '"':
                    i += 1
                    break
                if item[i] == '\\':
                    i += 1
                    if i >= n:
                        raise ValueError('dangling backslash in {!r}'.format(item))
                codes.append(ord(item[i]))
                i += 1
            out.append(('str', codes))
        elif c == '$':
            j = i + 1
            while j < n and item[j] in _HEX:
                j += 1
            if j == i + 1:
                raise ValueError('no digits after $ in {!r}'.format(item))
            out.append(('num', _value(item[i + 1:j], 16)))
            i = j
        elif c == '%' and expect_operand:
            j = i + 1
            while j < n and item[j] in '01':
                j += 1
            if j == i + 1 or (j < n and item[j] in _DEC):
                raise ValueError('bad binary number in {!r}'.format(item))
            out.append(('num', _value(item[i + 1:j], 2)))
            i = j
        elif c in _DEC:
            j = i
            while j < n and item[j] in _DEC:
                j += 1
            out.append(('num', _value(item[i:j], 10)))
            i = j
        elif c in '+-*/%()':
            out.append(('op', c))
            i += 1
        else:
            raise ValueError('unexpected {!r} in {!r}'.format(c, item))
    return out


def _value(digits, radix):
    v = 0
    for ch in digits:
        v = v * radix + '0123456789abcdef'.index(ch.lower())
    return v


class _Parser:
    def __init__(self, toks, item):
        self.t = toks
        self.i = 0
        self.item = item

    def peek(self):
        return self.t[self.i] if self.i < len(self.t) else (None, None)

    def take(self):
        tok = self.peek()
        self.i += 1
        return tok

    def expr(self):
        v = self.term()
        while self.peek() in (('op', '+'), ('op', '-')):
            if self.take()[1] == '+':
                v = v + self.term()
            else:
                v = v - self.term()
        return v

    def term(self):
        v = self.factor()
        while self.peek()[0] == 'op' and self.peek()[1] in '*/%':
            o = self.take()[1]
            w = self.factor()
            if o == '*':        # ('**' is not modelled: the second '*' is not an operand)
                v = v * w
            else:
                if w == 0:
                    raise ValueError('division by zero in {!r}'.format(self.item))
                if v < 0 or w < 0:
                    raise ValueError('division of negative numbers is not modelled: {!r}'.format(self.item))
                q, r = divmod(v, w)
                v = q if o == '/' else r
        return v

    def factor(self):
        kind, val = self.take()
        if kind == 'num':
            return val
        if kind == 'str':
            if len(val) != 1:
                raise ValueError('a string of {} characters inside an expression: {!r}'.format(len(val), self.item))
            return val[0]
        if kind == 'op' and val == '(':
            v = self.expr()
            if self.take() != ('op', ')'):
                raise ValueError('missing ) in {!r}'.format(self.item))
            return v
        if kind == 'op' and val == '-':
            return -self.factor()
        if kind == 'op' and val == '+':
            return self.factor()
        raise ValueError('operand expected in {!r}'.format(self.item))


def value(item, toks=None):
    toks = tokens(item) if toks is None else toks
    if not toks:
        raise ValueError('empty operand')
    p = _Parser(toks, item)
    v = p.expr()
    if p.i != len(toks):
        raise ValueError('trailing tokens in {!r}'.format(item))
    return v


def _ranged(v, limit, item):
    # values outside 0..limit-1 are not modelled (the documentation does not say how they wrap)
    if not 0 <= v < limit:
        raise ValueError('{!r} = {} is outside 0..{}'.format(item, v, limit - 1))
    return v


def assemble(op):
    """Bytes of a DEFB/DEFM/DEFS/DEFW statement as a list.  Raises ValueError for anything not modelled."""
    d = directive_of(op)
    if d is None:
        raise ValueError('not a data statement: {!r}'.format(op))
    items = split_items(op.strip()[4:].strip())
    data = []
    if d in ('DEFB', 'DEFM'):
        for item in items:
            toks = tokens(item)
            if len(toks) == 1 and toks[0][0] == 'str':
                if not toks[0][1]:
                    raise ValueError('empty string in {!r}'.format(op))
                data.extend(toks[0][1])
            else:
                data.append(_ranged(value(item, toks), 256, item))
    elif d == 'DEFW':
        for item in items:
            v = _ranged(value(item), 65536, item)
            data.append(v % 256)
            data.append(v // 256)
    else:
        if not 1 <= len(items) <= 2:
            raise ValueError('DEFS takes one or two operands: {!r}'.format(op))
        filler = _ranged(value(items[1]), 256, items[1]) if len(items) == 2 else 0
        data = [filler] * _ranged(value(items[0]), 65536, items[0])
    return data
