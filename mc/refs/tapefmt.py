"""Reference TAP / TZX / PZX writers and a pulse-level expander (independent of skoolkit).

Written from the published format descriptions:

* TAP: a sequence of [u16 length][length bytes]; blocks carry no timing and are played as
  the 48K ROM saves them (SA-BYTES at 0x04C2: 8063 pilot pulses of 2168 T when bit 7 of the
  flag byte is reset, 3223 otherwise; sync 667 + 735; bit = two equal pulses, 855 / 1710).
* TZX v1.20 ("ZXTape!" 0x1A major minor, then [id byte][body]).
* PZX v1.0 ([4-char tag][u32 length][body]; first block PZXT).

A block spec is a plain dict {'k': kind, ...} (JSON-serialisable).  Kinds:

  TAP   'tap'  data
  TZX   't10' pause data | 't11' pilot sync1 sync2 zero one npilot used pause data
        't12' width count | 't13' pulses | 't14' zero one used pause data
        't15' tps pause used data(samples) | 't18' / 't19' (unsupported kinds)
        't20' pause | 't21' text | 't22' | 't23' offset | 't24' n | 't25' | 't26' offsets
        't27' | 't28' options[(offset, text)] | 't2A' | 't2B' level | 't30' text
        't31' time text | 't32' strings[(id, text)] | 't33' hw[(type, id, info)]
        't34' | 't35' ident data | 't5A'
  PZX   'PZXT' major minor strings term | 'PULS' pulses[(count, duration, flags)]
        'DATA' level tail s0 s1 used data | 'PAUS' level duration | 'BRWS' text
        'STOP' flags | 'UNKN' tag body

The expander computes, for a list of specs and tap2sna's selection / signal options, the
exact list of level toggles ("edges") the tape specifies:

* the signal is a sequence of pulses; every pulse ends with a toggle of the level; a pulse of
  zero duration is a toggle with no duration;
* edges[0] is the leading edge of the first pulse, at `first_edge`; with polarity 1 the level
  is toggled once more before the first pulse (so EAR readings are inverted);
* TZX/TAP pulses simply alternate (tap2sna man page: "the EAR bit reading produced by a
  pulse is 0 if the 0-based index of the pulse is even, 1 otherwise");
* PZX PULS / DATA / PAUS blocks state their initial level: if the current level differs an
  extra toggle is inserted at the block start;
* a pause is silence (no toggle, time advances); pauses after the last pulse are not part of
  the signal.
"""

MS = 3500            # T-states per millisecond
ROM = {'pilot': 2168, 'sync1': 667, 'sync2': 735, 'zero': 855, 'one': 1710}

ARCHIVE_IDS = {0: 'Full title', 1: 'Software house/publisher', 2: 'Author(s)', 3: 'Year of publication',
               4: 'Language', 5: 'Game/utility type', 6: 'Price', 7: 'Protection scheme/loader',
               8: 'Origin', 255: 'Comment(s)'}


def le(n, size):
    if not 0 <= n < 1 << (8 * size):
        raise ValueError('{} does not fit in {} bytes'.format(n, size))
    return bytes((n >> (8 * i)) & 255 for i in range(size))


def _txt(s):
    return s.encode('latin-1')


# =========================================================================== writers
def tap_file(datas):
    out = bytearray()
    for d in datas:
        out += le(len(d), 2) + bytes(d)
    return bytes(out)


def tzx_block(b):
    k = b['k']
    bid = int(k[1:], 16)
    o = bytearray([bid])
    if k == 't10':
        o += le(b['pause'], 2) + le(len(b['data']), 2) + bytes(b['data'])
    elif k == 't11':
        for f in ('pilot', 'sync1', 'sync2', 'zero', 'one', 'npilot'):
            o += le(b[f], 2)
        o += le(b['used'], 1) + le(b['pause'], 2) + le(len(b['data']), 3) + bytes(b['data'])
    elif k == 't12':
        o += le(b['width'], 2) + le(b['count'], 2)
    elif k == 't13':
        o += le(len(b['pulses']), 1)
        for p in b['pulses']:
            o += le(p, 2)
    elif k == 't14':
        o += le(b['zero'], 2) + le(b['one'], 2) + le(b['used'], 1) + le(b['pause'], 2)
        o += le(len(b['data']), 3) + bytes(b['data'])
    elif k == 't15':
        o += le(b['tps'], 2) + le(b['pause'], 2) + le(b['used'], 1) + le(len(b['data']), 3) + bytes(b['data'])
    elif k == 't18':
        # CSW recording: DWORD block length (without these 4 bytes), WORD pause, 3-byte
        # sampling rate, BYTE compression type, DWORD number of stored pulses, CSW data
        body = le(b['pause'], 2) + le(b['rate'], 3) + le(b['ctype'], 1) + le(b['npulses'], 4) + bytes(b['data'])
        o += le(len(body), 4) + body
    elif k == 't19':
        # Generalized data block: DWORD block length (without these 4 bytes), then
        # WORD pause, DWORD totp, BYTE npp, BYTE asp, DWORD totd, BYTE npd, BYTE asd (no tables
        # when totp = totd = 0)
        body = le(b['pause'], 2) + le(0, 4) + le(0, 1) + le(0, 1) + le(0, 4) + le(0, 1) + le(0, 1)
        o += le(len(body), 4) + body
    elif k == 't20':
        o += le(b['pause'], 2)
    elif k == 't21':
        o += le(len(b['text']), 1) + _txt(b['text'])
    elif k in ('t22', 't25', 't27'):
        pass
    elif k == 't23':
        o += le(b['offset'] & 0xFFFF, 2)
    elif k == 't24':
        o += le(b['n'], 2)
    elif k == 't26':
        o += le(len(b['offsets']), 2)
        for off in b['offsets']:
            o += le(off & 0xFFFF, 2)
    elif k == 't28':
        body = le(len(b['options']), 1)
        for off, text in b['options']:
            body += le(off & 0xFFFF, 2) + le(len(text), 1) + _txt(text)
        o += le(len(body), 2) + body
    elif k == 't2A':
        o += le(0, 4)
    elif k == 't2B':
        o += le(1, 4) + le(b['level'], 1)
    elif k == 't30':
        o += le(len(b['text']), 1) + _txt(b['text'])
    elif k == 't31':
        o += le(b['time'], 1) + le(len(b['text']), 1) + _txt(b['text'])
    elif k == 't32':
        body = le(len(b['strings']), 1)
        for sid, text in b['strings']:
            body += le(sid, 1) + le(len(text), 1) + _txt(text)
        o += le(len(body), 2) + body
    elif k == 't33':
        o += le(len(b['hw']), 1)
        for t, i, v in b['hw']:
            o += bytes((t, i, v))
    elif k == 't34':
        o += bytes(8)
    elif k == 't35':
        ident = _txt(b['ident']).ljust(16)[:16]
        o += ident + le(len(b['data']), 4) + bytes(b['data'])
    elif k == 't5A':
        o += b'XTape!\x1a\x01\x14'
    else:
        raise ValueError('unknown TZX kind ' + k)
    return bytes(o)


def tzx_file(blocks, major=1, minor=20):
    return b'ZXTape!\x1a' + bytes((major, minor)) + b''.join(tzx_block(b) for b in blocks)


PULS_EXPLICIT = 1        # write the repeat count even when it is 1
PULS_EXTENDED = 2        # write the duration in the two-word form even when it is < 0x8000


def puls_words(count, duration, flags=0):
    """u16 words for one PULS entry.  pzx.txt decoder:
         count = 1; d = u16(); if d > 0x8000: count = d & 0x7FFF; d = u16()
         if d >= 0x8000: d = ((d & 0x7FFF) << 16) | u16()
    so a two-word duration whose high part is non-zero needs the count word."""
    if not 1 <= count <= 0x7FFF or not 0 <= duration < 0x80000000:
        raise ValueError('PULS entry out of range')
    w = []
    if count != 1 or flags & PULS_EXPLICIT or duration >= 0x10000:
        w.append(0x8000 | count)
    if duration >= 0x8000 or flags & PULS_EXTENDED:
        w += [0x8000 | (duration >> 16), duration & 0xFFFF]
    else:
        w.append(duration)
    return w


def data_bits(b):
    n = len(b['data'])
    return 8 * (n - 1) + b['used'] if n else 0


def pzx_block(b):
    k = b['k']
    if k == 'PZXT':
        body = bytes((b['major'], b['minor'])) + b'\x00'.join(_txt(s) for s in b['strings'])
        if b.get('term') and b['strings']:
            body += b'\x00'
        tag = b'PZXT'
    elif k == 'PULS':
        body = b''.join(le(w, 2) for p in b['pulses'] for w in puls_words(*p))
        tag = b'PULS'
    elif k == 'DATA':
        body = le(data_bits(b) | (b['level'] << 31), 4) + le(b['tail'], 2) + bytes((len(b['s0']), len(b['s1'])))
        body += b''.join(le(p, 2) for p in b['s0']) + b''.join(le(p, 2) for p in b['s1']) + bytes(b['data'])
        tag = b'DATA'
    elif k == 'PAUS':
        body = le(b['duration'] | (b['level'] << 31), 4)
        tag = b'PAUS'
    elif k == 'BRWS':
        body = _txt(b['text'])
        tag = b'BRWS'
    elif k == 'STOP':
        body = le(b['flags'], 2)
        tag = b'STOP'
    elif k == 'UNKN':
        body = bytes(b['body'])
        tag = _txt(b['tag'])
    else:
        raise ValueError('unknown PZX kind ' + k)
    return tag + le(len(body), 4) + body


def pzx_file(blocks):
    return b''.join(pzx_block(b) for b in blocks)


def write_file(fmt, blocks):
    if fmt == 'tap':
        return tap_file([b['data'] for b in blocks])
    if fmt == 'tzx':
        return tzx_file(blocks)
    return pzx_file(blocks)


# ------------------------------------------------- the same standard-speed tape in every format
def std_tap(datas):
    return [{'k': 'tap', 'data': list(d)} for d in datas]


def std_t10(datas, pause=1000):
    return [{'k': 't10', 'pause': pause, 'data': list(d)} for d in datas]


def rom_pilot_count(flag):
    return 8063 if flag < 128 else 3223


def std_t11(datas, pause=1000):
    return [{'k': 't11', 'pilot': 2168, 'sync1': 667, 'sync2': 735, 'zero': 855, 'one': 1710,
             'npilot': rom_pilot_count(d[0]), 'used': 8, 'pause': pause, 'data': list(d)} for d in datas]


def std_pzx(datas, tail=945, pause=1000 * MS):
    """PZXT, then per block PULS(pilot, sync) + DATA(high, tail, 855/1710), PAUS between blocks
    (pzx.txt's rendering of a standard-speed block)."""
    out = [{'k': 'PZXT', 'major': 1, 'minor': 0, 'strings': [], 'term': 0}]
    for i, d in enumerate(datas):
        if i:
            out.append({'k': 'PAUS', 'level': 0, 'duration': pause})
        out.append({'k': 'PULS', 'pulses': [[rom_pilot_count(d[0]), 2168, 0], [1, 667, 0], [1, 735, 0]]})
        out.append({'k': 'DATA', 'level': 1, 'tail': tail, 's0': [855, 855], 's1': [1710, 1710], 'used': 8, 'data': list(d)})
    return out


# =========================================================================== selection
class Unsupported(Exception):
    pass


def loop_shape_ok(fmt, kinds):
    """TZX loops are only defined when every loop start has a loop end (no nesting)."""
    if fmt != 'tzx':
        return True
    inside = False
    for k in kinds:
        if k == 't24':
            if inside:
                return False
            inside = True
        elif k == 't25':
            if not inside:
                return False
            inside = False
        elif inside and k in ('t20', 't2A', 't18', 't19'):
            return False
    return not inside


def selected_numbers(n, start, stop, skip):
    """1-based numbers of the blocks --tape-start/--tape-stop/--tape-skip leave on the tape:
    the tape starts at block `start`, stops at (before) block `stop` (0 = end), and the
    numbers in `skip` are left out."""
    return [i for i in range(1, n + 1) if i >= start and not (stop > 0 and i >= stop) and i not in skip]


def play_list(fmt, blocks, start=1, stop=0, skip=(), is48=True, honour_stops=True):
    """Specs in playing order (loops unrolled).  'Stop the tape' commands end the tape
    unless an explicit stop block was given.  Raises Unsupported for TZX 0x18/0x19."""
    sel = [blocks[i - 1] for i in selected_numbers(len(blocks), start, stop, skip)]
    out = []
    loop = None
    for b in sel:
        k = b['k']
        if k in ('t18', 't19'):
            raise Unsupported(k)
        if honour_stops and stop == 0:
            if k == 't20' and b['pause'] == 0:
                break
            if k == 't2A' and is48:
                break
            if k == 'STOP' and (b['flags'] != 1 or is48):
                break
        if k == 't24':
            loop = (b['n'], [])
        elif k == 't25':
            if loop is not None:
                out.extend(loop[1] * loop[0])
                loop = None
        elif loop is not None:
            loop[1].append(b)
        else:
            out.append(b)
    return out


# =========================================================================== expansion
def msb_bits(data, used):
    bits = []
    for i, byte in enumerate(data):
        n = 8 if i < len(data) - 1 else used
        for j in range(n):
            bits.append((byte >> (7 - j)) & 1)
    return bits


class Signal:
    def __init__(self, first_edge=0, polarity=0):
        self.polarity = polarity & 1
        self.t = first_edge
        self.edges = [first_edge] * (1 + self.polarity)
        self.pending = None         # (duration, level) of a pause not yet followed by anything
        self.exact = True           # False: only the level function is defined, not the toggle list
        self.tail_last = False      # the last toggle is the trailing edge of a DATA tail pulse
        self.datablocks = []
        self.events = []            # (time, EAR level, kind, numbers) per pulse group
        self.npulses = 0
        self.features = set()       # input classes (for triage of violations)
        self.last_pulse = None      # 'pulse' / 'tail': what the last pulse of non-zero duration was

    def level(self):
        return (len(self.edges) - 1) & 1

    @property
    def t_end(self):
        """Time of the last toggle: the signal is defined on [0, t_end)."""
        return self.edges[-1]

    def _resume(self):
        """Something follows the pending pause, so it is played."""
        if self.pending:
            duration, level = self.pending
            self.pending = None
            self.force(level)
            self.events.append((self.t, self.level(), 'Pause', (duration,)))
            self.t += duration

    def force(self, level):
        """PZX: the next pulse has physical level `level` (EAR reading level ^ polarity)."""
        if level is not None and self.level() != level ^ self.polarity:
            self.events.append((self.t, self.level(), 'Polarity adjustment', ()))
            self.edges.append(self.t)
            self.tail_last = False

    def tone(self, count, duration, level=None):
        self._resume()
        self.force(level)
        self.events.append((self.t, self.level(), 'Pulse' if count == 1 else 'Tone',
                            (duration,) if count == 1 else (count, duration)))
        if count:
            t = self.t
            if duration:
                self.edges.extend(range(t + duration, t + duration * count + 1, duration))
            else:
                self.edges.extend([t] * count)
            self.t = t + duration * count
            self.tail_last = False
            self.npulses += count
            if duration:
                self.last_pulse = 'pulse'

    def data(self, data, used, s0, s1, tail=0, level=None):
        """Bits MSB first, `used` bits of the last byte, each bit the pulse sequence s0/s1,
        then the tail pulse."""
        self._resume()
        self.force(level)
        nbytes = len(data) - (used < 8)
        self.events.append((self.t, self.level(), 'Data', (nbytes,) + ((used,) if used < 8 else ()) + tuple(s0) + tuple(s1)))
        bits = msb_bits(data, used)
        start = len(self.edges) - 1
        t_first = t = self.t
        t_lead = self.edges[-1]         # the last toggle: the leading edge of the first bit pulse
        gap = t > t_lead                # silence between the last toggle and the first bit
        ear = self.level()
        has_zero = 0 in s0 or 0 in s1
        if has_zero:
            self.exact = False
        elif used < 8 and len(s0) != len(s1):
            self.features.add('partial_byte_unequal_pulse_counts')
        n = 0
        zeros = 0                       # zero-length pulses since the last non-zero pulse
        seen_nonzero = False
        for bit in bits:
            for d in (s1 if bit else s0):
                t += d
                self.edges.append(t)
                n += 1
                if d:
                    if not seen_nonzero and zeros % 2 and gap:
                        self.features.add('zero_lead_after_pause')
                    seen_nonzero = True
                    zeros = 0
                    self.last_pulse = 'pulse'
                else:
                    zeros += 1
        if n:
            self.tail_last = False
        t_bits = self.edges[-1]
        self.t = t
        if tail:
            if zeros % 2:
                self.features.add('odd_zero_pulses_before_tail')
            self.events.append((t, self.level(), 'Tail pulse', (tail,)))
            t += tail
            self.edges.append(t)
            self.t = t
            self.tail_last = True
            self.last_pulse = 'tail'
            n += 1
        self.npulses += n
        self.datablocks.append({'data': bytes(data), 'bits': bits, 'start': start, 'end': len(self.edges) - 1,
                                't_first': t_first, 't_lead': t_lead, 't_bits': t_bits, 't_last': self.edges[-1],
                                'ear': ear, 'npulses': n,
                                's0': tuple(s0), 's1': tuple(s1), 'tail': tail, 'used': used,
                                'fast': not has_zero})

    def pause(self, duration, level=None):
        """Silence at the given (PZX) level.  It is played only if something follows it."""
        if duration:
            self._resume()
            self.pending = (duration, level)


def rom_block(sig, data, pause):
    sig.tone(rom_pilot_count(data[0]), 2168)
    sig.tone(1, 667)
    sig.tone(1, 735)
    sig.data(data, 8, (855, 855), (1710, 1710))
    sig.pause(pause)


def sample_runs(data, used):
    """Direct recording: one bit per sample, MSB first -> (first level, run lengths)."""
    bits = msb_bits(data, used)
    runs = []
    for bit in bits:
        if runs and runs[-1][0] == bit:
            runs[-1][1] += 1
        else:
            runs.append([bit, 1])
    return bits[0], [r[1] for r in runs]


def play_block(sig, b):
    k = b['k']
    if k == 'tap':
        if b['data']:
            rom_block(sig, b['data'], 1000 * MS)
    elif k == 't10':
        if b['data']:
            rom_block(sig, b['data'], b['pause'] * MS)
    elif k == 't11':
        sig.tone(b['npilot'], b['pilot'])
        sig.tone(1, b['sync1'])
        sig.tone(1, b['sync2'])
        if b['data']:
            sig.data(b['data'], b['used'], (b['zero'],) * 2, (b['one'],) * 2)
        sig.pause(b['pause'] * MS)
    elif k == 't12':
        sig.tone(b['count'], b['width'])
    elif k == 't13':
        for p in b['pulses']:
            sig.tone(1, p)
    elif k == 't14':
        if b['data']:
            sig.data(b['data'], b['used'], (b['zero'],) * 2, (b['one'],) * 2)
        sig.pause(b['pause'] * MS)
    elif k == 't15':
        # Levels in TZX are relative (see module docstring): a recording that starts high
        # begins with a level toggle (a pulse of no duration), then one pulse per run.
        first, runs = sample_runs(b['data'], b['used'])
        if first:
            sig.tone(1, 0)
        for r in runs:
            sig.tone(1, r * b['tps'])
        sig.pause(b['pause'] * MS)
    elif k == 't20':
        sig.pause(b['pause'] * MS)
    elif k == 'PULS':
        pulses = [tuple(p[:2]) for p in b['pulses']]
        level = 0
        if pulses and pulses[0][1] == 0 and pulses[0][0] % 2:
            # "initial pulse of zero duration may be used to make it high"
            level = 1
            pulses = pulses[1:]
        first = True
        for count, duration in pulses:
            if duration == 0 and count > 1:
                # "as if there was one pulse if the repeat count is odd and no such pulse at
                # all if it is even": only the parity of the toggles is specified
                sig.exact = False
            sig.tone(count, duration, level if first else None)
            first = False
    elif k == 'DATA':
        if b['data']:
            sig.data(b['data'], b['used'], b['s0'], b['s1'], b['tail'], b['level'])
    elif k == 'PAUS':
        sig.pause(b['duration'], b['level'])
    # every other kind carries no signal


def expand(fmt, blocks, start=1, stop=0, skip=(), is48=True, polarity=0, first_edge=0, honour_stops=True):
    """-> Signal for the blocks that are played (raises Unsupported)."""
    sig = Signal(first_edge, polarity)
    for b in play_list(fmt, blocks, start, stop, skip, is48, honour_stops):
        play_block(sig, b)
    if not sig.tail_last and any(d['tail'] and d['t_last'] == sig.t_end for d in sig.datablocks):
        # the tape ends at the end of a tail pulse, but with further zero-length pulses
        sig.features.add('zero_length_end_after_tail')
    return sig


def has_timing(b):
    """Does the block contribute pulses or silence to the signal?"""
    k = b['k']
    if k in ('tap', 't10'):
        return bool(b['data'])
    return k in ('t11', 't12', 't13', 't14', 't15', 't20', 'PULS', 'DATA', 'PAUS')


def final_edges(sig):
    """The toggle list with the end-of-tape rule applied: the trailing edge of a tail pulse
    that ends the tape delimits nothing and is not generated."""
    edges = sig.edges
    if sig.tail_last and len(edges) > 1:
        edges = edges[:-1]
    return edges


def level_function(edges, t_end, idle=1):
    """Canonical (level, duration) runs on [0, t_end): `idle` before edges[0], then pulse k
    (between edges[k] and edges[k+1]) has level k % 2, the last level extending to t_end.
    Zero-length runs vanish and equal neighbours merge."""
    runs = []
    prev_t = 0
    level = idle
    for k, e in enumerate(edges):
        if e >= t_end:
            break
        if e > prev_t:
            if runs and runs[-1][0] == level:
                runs[-1][1] += e - prev_t
            else:
                runs.append([level, e - prev_t])
            prev_t = e
        level = k & 1
    if t_end > prev_t:
        if runs and runs[-1][0] == level:
            runs[-1][1] += t_end - prev_t
        else:
            runs.append([level, t_end - prev_t])
    return runs


# =========================================================================== decoding
def prefix_free(s0, s1):
    s0, s1 = tuple(s0), tuple(s1)
    if not s0 or not s1:
        return False
    m = min(len(s0), len(s1))
    return s0[:m] != s1[:m]


def decode_bits(widths, s0, s1):
    """Read a list of measured pulse widths as bits (s0/s1 must be prefix free).
    -> list of bits, or a string describing where decoding failed."""
    s0, s1 = list(s0), list(s1)
    bits = []
    i = 0
    while i < len(widths):
        if widths[i:i + len(s0)] == s0:
            bits.append(0)
            i += len(s0)
        elif widths[i:i + len(s1)] == s1:
            bits.append(1)
            i += len(s1)
        else:
            return 'pulse widths {} at data pulse {} match neither bit encoding'.format(widths[i:i + max(len(s0), len(s1))], i)
    return bits


# =========================================================================== tapinfo text
def _data_lines(data):
    if data is None:
        return []
    if not data:
        return ['Length: 0']
    return ['Length: {}'.format(len(data)), 'Data: ' + ', '.join(str(v) for v in data)]


def info_lines(b, number):
    """(header, parameter lines) tapinfo shows for a block (data of at most 14 bytes)."""
    k = b['k']
    if k == 'tap':
        return '{}:'.format(number), _data_lines(b['data'])
    if k[0] == 't':
        bid = int(k[1:], 16)
        names = {0x10: 'Standard speed data', 0x11: 'Turbo speed data', 0x12: 'Pure tone', 0x13: 'Pulse sequence',
                 0x14: 'Pure data', 0x15: 'Direct recording', 0x18: 'CSW recording', 0x19: 'Generalized data',
                 0x20: 'Pause (silence)', 0x21: 'Group start', 0x22: 'Group end', 0x23: 'Jump to block',
                 0x24: 'Loop start', 0x25: 'Loop end', 0x26: 'Call sequence', 0x27: 'Return from sequence',
                 0x28: 'Select block', 0x2A: 'Stop the tape if in 48K mode', 0x2B: 'Set signal level',
                 0x30: 'Text description', 0x31: 'Message', 0x32: 'Archive info', 0x33: 'Hardware type',
                 0x34: 'Emulation info', 0x35: 'Custom info', 0x5A: '"Glue" block'}
        name = names[bid]
        lines = []
        if k == 't10':
            lines = ['Pause: {}ms'.format(b['pause'])] + _data_lines(b['data'])
        elif k == 't11':
            lines = ['Pilot pulse: {}'.format(b['pilot']), 'Sync pulse 1: {}'.format(b['sync1']),
                     'Sync pulse 2: {}'.format(b['sync2']), '0-pulse: {}'.format(b['zero']), '1-pulse: {}'.format(b['one']),
                     'Pilot length: {} pulses'.format(b['npilot']), 'Used bits in last byte: {}'.format(b['used']),
                     'Pause: {}ms'.format(b['pause'])] + _data_lines(b['data'])
        elif k == 't12':
            lines = ['Pulse length: {} T-states'.format(b['width']), 'Pulses: {}'.format(b['count'])]
        elif k == 't13':
            n = len(b['pulses'])
            lines = ['Pulse {}/{}: {}'.format(i + 1, n, p) for i, p in enumerate(b['pulses'])]
        elif k == 't14':
            lines = ['0-pulse: {}'.format(b['zero']), '1-pulse: {}'.format(b['one']),
                     'Used bits in last byte: {}'.format(b['used']), 'Pause: {}ms'.format(b['pause'])] + _data_lines(b['data'])
        elif k == 't15':
            lines = ['T-states per sample: {}'.format(b['tps']), 'Pause: {}ms'.format(b['pause']),
                     'Used bits in last byte: {}'.format(b['used']), 'Length: {}'.format(len(b['data']))]
        elif k == 't18':
            lines = ['Number of pulses: {}'.format(b['npulses']), 'Sampling rate: {} Hz'.format(b['rate']),
                     'Compression type: {}'.format({1: 'RLE', 2: 'Z-RLE'}.get(b['ctype'], 'Unknown')),
                     'Pause: {}ms'.format(b['pause'])]
        elif k == 't20':
            if b['pause']:
                lines = ['Duration: {}ms'.format(b['pause'])]
            else:
                name = "'Stop the tape' command"
        elif k == 't21':
            lines = ['Name: ' + b['text']]
        elif k == 't23':
            lines = ['Destination block: {}'.format(number + b['offset'])]
        elif k == 't24':
            lines = ['Repetitions: {}'.format(b['n'])]
        elif k == 't28':
            lines = ['Option {} (block {}): {}'.format(i + 1, number + off, text) for i, (off, text) in enumerate(b['options'])]
        elif k == 't2B':
            lines = ['Signal level: {} ({})'.format(b['level'], 'high' if b['level'] else 'low')]
        elif k == 't30':
            lines = ['Text: ' + b['text']]
        elif k == 't31':
            lines = ['Message: ' + b['text']]
        elif k == 't32':
            lines = ['{}: {}'.format(ARCHIVE_IDS.get(sid, str(sid)), text) for sid, text in b['strings']]
        elif k == 't33':
            lines = None        # descriptive tables: only the number of lines (3 per entry) is checked
        elif k == 't35':
            lines = ['{}: {}'.format(b['ident'].strip(), bytes(b['data']).decode('latin-1'))]
        return '{}: {} (0x{:02X})'.format(number, name, bid), lines
    names = {'PZXT': 'PZX header block', 'PULS': 'Pulse sequence', 'DATA': 'Data block', 'PAUS': 'Pause',
             'BRWS': 'Browse point', 'STOP': 'Stop tape command'}
    lines = []
    if k == 'PZXT':
        lines = ['Version: {}.{}'.format(b['major'], b['minor'])]
        s = b['strings']
        if s and (s[0] or len(s) > 1 or b.get('term')):
            lines.append('Title: ' + s[0])
        for i in range(1, len(s) - 1, 2):
            lines.append('{}: {}'.format(s[i], s[i + 1]))
    elif k == 'PULS':
        lines = ['{} x {} T-states'.format(p[0], p[1]) for p in b['pulses']]
    elif k == 'DATA':
        bits = data_bits(b)
        if bits % 8:
            lines = ['Bits: {} ({} bytes + {} bits)'.format(bits, bits // 8, bits % 8)]
        else:
            lines = ['Bits: {} ({} bytes)'.format(bits, bits // 8)]
        lines += ['Initial pulse level: {}'.format(b['level']),
                  '0-bit pulse sequence: {} (T-states)'.format(', '.join(str(p) for p in b['s0'])),
                  '1-bit pulse sequence: {} (T-states)'.format(', '.join(str(p) for p in b['s1'])),
                  'Tail pulse: {} T-states'.format(b['tail'])] + _data_lines(b['data'])
    elif k == 'PAUS':
        lines = ['Duration: {} T-states'.format(b['duration']), 'Initial pulse level: {}'.format(b['level'])]
    elif k == 'BRWS':
        lines = [b['text']]
    elif k == 'STOP':
        lines = ['Mode: ' + ('48K only' if b['flags'] & 1 else 'Always')]
    return '{}: {}'.format(number, names.get(k, b.get('tag'))), lines
