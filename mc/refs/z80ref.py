"""Reference model of the Z80 written from the published instruction-set documentation.

Structurally different from the code under test on purpose: SkoolKit's disassemblers,
ctl decoder, timing table and simulators are each driven by 7 x 256 hand-typed tables;
this model decodes *algorithmically* (x/y/z/p/q bit fields of the opcode, DD/FD as a
modifier that replaces HL/H/L/(HL), CB/ED/DDCB sub-decoders), computes flags from
arithmetic definitions (carry = 9th bit, half-carry from nibble sums, overflow from sign
comparison, parity by popcount), and derives every instruction's duration as the sum of
its machine cycles, which are listed per instruction *class* as in the Zilog manual /
the comp.sys.sinclair contention table.

decode(mem, addr)            -> Insn (length, text, timing alternatives, flags ...)
step(st, mem, inp, out)      -> Result (bus cycles, T-states, port log); st/mem updated

Conventions of the machine being modelled (SkoolKit's simulators):
* a DD/FD prefix in front of an opcode it does not modify is an instruction of its own
  (1 byte, 4 T-states, R+1); so is a DD/FD in front of ED, DD or FD;
* undefined ED opcodes are 2-byte, 8 T-state NOPs;
* a single IFF; HALT re-executes (PC unchanged) while halted.
"""

R8 = ('B', 'C', 'D', 'E', 'H', 'L', '(HL)', 'A')
R16 = ('BC', 'DE', 'HL', 'SP')
R16AF = ('BC', 'DE', 'HL', 'AF')
CC = ('NZ', 'Z', 'NC', 'C', 'PO', 'PE', 'P', 'M')
ALU = ('ADD A,', 'ADC A,', 'SUB ', 'SBC A,', 'AND ', 'XOR ', 'OR ', 'CP ')
ROT = ('RLC', 'RRC', 'RL', 'RR', 'SLA', 'SRA', 'SLL', 'SRL')
ACC = ('RLCA', 'RRCA', 'RLA', 'RRA', 'DAA', 'CPL', 'SCF', 'CCF')
BLOCK = {0xA0: 'LDI', 0xA1: 'CPI', 0xA2: 'INI', 0xA3: 'OUTI', 0xA8: 'LDD', 0xA9: 'CPD', 0xAA: 'IND', 0xAB: 'OUTD',
         0xB0: 'LDIR', 0xB1: 'CPIR', 0xB2: 'INIR', 0xB3: 'OTIR', 0xB8: 'LDDR', 0xB9: 'CPDR', 0xBA: 'INDR', 0xBB: 'OTDR'}
IM_MODES = (0, 0, 1, 2, 0, 0, 1, 2)


class Insn:
    __slots__ = ('length', 'text', 'op', 'a', 'idx', 'prefix_len', 'undoc', 'timing', 'kind')

    def __init__(self, length, text, op, a=(), idx=None, prefix_len=0, undoc='', timing=None, kind=''):
        self.length = length        # bytes
        self.text = text            # canonical text, operands in decimal, upper case
        self.op = op                # semantic class
        self.a = a                  # semantic arguments
        self.idx = idx              # None / 'IX' / 'IY'
        self.prefix_len = prefix_len
        self.undoc = undoc          # '' or a tag naming the undocumented family
        self.timing = timing        # tuple of possible T-state counts (filled by _timing)
        self.kind = kind

    def __repr__(self):
        return 'Insn({!r}, len={}, t={})'.format(self.text, self.length, self.timing)


def _sd(d):
    return d - 256 if d > 127 else d


def _idx_text(idx, d):
    return '({}{}{})'.format(idx, '-' if d > 127 else '+', 256 - d if d > 127 else d)


def decode(mem, addr):
    """Decode the instruction at addr (addresses wrap mod 65536)."""
    def b(i):
        return mem[(addr + i) & 0xFFFF]
    op = b(0)
    if op == 0xCB:
        return _decode_cb(b(1), None, 0)
    if op == 0xED:
        return _decode_ed(b(1), b(2), b(3))
    if op in (0xDD, 0xFD):
        idx = 'IX' if op == 0xDD else 'IY'
        op2 = b(1)
        if op2 == 0xCB:
            return _decode_cb(b(3), idx, b(2))
        ins = _decode_main(op2, b(2), b(3), idx, addr + 1)
        if ins is None:
            return Insn(1, 'DEFB {}'.format(op), 'prefix', idx=idx, undoc='prefix', kind='prefix')
        ins.length += 1
        ins.prefix_len = 1
        return ins
    return _decode_main(op, b(1), b(2), None, addr)


def _decode_main(op, n1, n2, idx, addr):
    """Unprefixed opcode (idx None) or the opcode after DD/FD (returns None if the
    prefix does not modify it)."""
    x, y, z = op >> 6, (op >> 3) & 7, op & 7
    p, q = y >> 1, y & 1
    nn = n1 + 256 * n2
    HL = idx or 'HL'
    used = [False]          # did the index register matter?

    def rp(i, tab=R16):
        if tab[i] == 'HL':
            used[0] = True
            return HL
        return tab[i]

    def r8(i, mem_ok=True):
        # register name under a DD/FD prefix; (HL) -> (IX+d)
        if idx and i in (4, 5):
            used[0] = True
            return idx + ('h' if i == 4 else 'l')
        return R8[i]

    ins = None
    if x == 0:
        if z == 0:
            if y == 0:
                ins = Insn(1, 'NOP', 'nop')
            elif y == 1:
                ins = Insn(1, "EX AF,AF'", 'ex_af')
            elif y == 2:
                ins = Insn(2, 'DJNZ {}'.format((addr + 2 + _sd(n1)) & 0xFFFF), 'djnz', (n1,))
            elif y == 3:
                ins = Insn(2, 'JR {}'.format((addr + 2 + _sd(n1)) & 0xFFFF), 'jr', (None, n1))
            else:
                ins = Insn(2, 'JR {},{}'.format(CC[y - 4], (addr + 2 + _sd(n1)) & 0xFFFF), 'jr', (y - 4, n1))
        elif z == 1:
            if q == 0:
                ins = Insn(3, 'LD {},{}'.format(rp(p), nn), 'ld_rr_nn', (rp(p), nn))
            else:
                ins = Insn(1, 'ADD {},{}'.format(HL, rp(p)), 'add16', (HL, rp(p)))
                used[0] = bool(idx)
        elif z == 2:
            if p < 2:
                pair = ('BC', 'DE')[p]
                if q == 0:
                    ins = Insn(1, 'LD ({}),A'.format(pair), 'ld_m_a', (pair,))
                else:
                    ins = Insn(1, 'LD A,({})'.format(pair), 'ld_a_m', (pair,))
            elif p == 2:
                used[0] = bool(idx)
                if q == 0:
                    ins = Insn(3, 'LD ({}),{}'.format(nn, HL), 'ld_mm_rr', (nn, HL))
                else:
                    ins = Insn(3, 'LD {},({})'.format(HL, nn), 'ld_rr_mm', (HL, nn))
            else:
                if q == 0:
                    ins = Insn(3, 'LD ({}),A'.format(nn), 'ld_nn_a', (nn,))
                else:
                    ins = Insn(3, 'LD A,({})'.format(nn), 'ld_a_nn', (nn,))
        elif z == 3:
            ins = Insn(1, '{} {}'.format(('INC', 'DEC')[q], rp(p)), 'incdec16', (rp(p), q))
        elif z in (4, 5):
            name = ('INC', 'DEC')[z - 4]
            if y == 6:
                if idx:
                    used[0] = True
                    ins = Insn(2, '{} {}'.format(name, _idx_text(idx, n1)), 'incdec8', (('idx', n1), z - 4))
                else:
                    ins = Insn(1, '{} (HL)'.format(name), 'incdec8', (('hl',), z - 4))
            else:
                ins = Insn(1, '{} {}'.format(name, r8(y)), 'incdec8', (('r', r8(y)), z - 4))
        elif z == 6:
            if y == 6:
                if idx:
                    used[0] = True
                    ins = Insn(3, 'LD {},{}'.format(_idx_text(idx, n1), n2), 'ld8', (('idx', n1), ('n', n2)))
                else:
                    ins = Insn(2, 'LD (HL),{}'.format(n1), 'ld8', (('hl',), ('n', n1)))
            else:
                ins = Insn(2, 'LD {},{}'.format(r8(y), n1), 'ld8', (('r', r8(y)), ('n', n1)))
        else:
            ins = Insn(1, ACC[y], 'acc', (y,))
    elif x == 1:
        if op == 0x76:
            ins = Insn(1, 'HALT', 'halt')
        elif idx and (y == 6 or z == 6):
            used[0] = True
            if y == 6:
                ins = Insn(2, 'LD {},{}'.format(_idx_text(idx, n1), R8[z]), 'ld8', (('idx', n1), ('r', R8[z])))
            else:
                ins = Insn(2, 'LD {},{}'.format(R8[y], _idx_text(idx, n1)), 'ld8', (('r', R8[y]), ('idx', n1)))
        else:
            def opnd(i):
                if i == 6:
                    return ('hl',)
                return ('r', r8(i))
            ins = Insn(1, 'LD {},{}'.format(r8(y), r8(z)), 'ld8', (opnd(y), opnd(z)))
    elif x == 2:
        if z == 6:
            if idx:
                used[0] = True
                ins = Insn(2, ALU[y] + _idx_text(idx, n1), 'alu', (y, ('idx', n1)))
            else:
                ins = Insn(1, ALU[y] + '(HL)', 'alu', (y, ('hl',)))
        else:
            ins = Insn(1, ALU[y] + r8(z), 'alu', (y, ('r', r8(z))))
    else:
        if z == 0:
            ins = Insn(1, 'RET ' + CC[y], 'ret', (y,))
        elif z == 1:
            if q == 0:
                ins = Insn(1, 'POP ' + rp(p, R16AF), 'pop', (rp(p, R16AF),))
            elif p == 0:
                ins = Insn(1, 'RET', 'ret', (None,))
            elif p == 1:
                ins = Insn(1, 'EXX', 'exx')
            elif p == 2:
                used[0] = bool(idx)
                ins = Insn(1, 'JP ({})'.format(HL), 'jp_rr', (HL,))
            else:
                used[0] = bool(idx)
                ins = Insn(1, 'LD SP,' + HL, 'ld_sp_rr', (HL,))
        elif z == 2:
            ins = Insn(3, 'JP {},{}'.format(CC[y], nn), 'jp', (y, nn))
        elif z == 3:
            if y == 0:
                ins = Insn(3, 'JP {}'.format(nn), 'jp', (None, nn))
            elif y == 1:
                return None if idx else None    # CB handled by caller
            elif y == 2:
                ins = Insn(2, 'OUT ({}),A'.format(n1), 'out_n_a', (n1,))
            elif y == 3:
                ins = Insn(2, 'IN A,({})'.format(n1), 'in_a_n', (n1,))
            elif y == 4:
                used[0] = bool(idx)
                ins = Insn(1, 'EX (SP),' + HL, 'ex_sp', (HL,))
            elif y == 5:
                ins = Insn(1, 'EX DE,HL', 'ex_de_hl')
            elif y == 6:
                ins = Insn(1, 'DI', 'di_ei', (0,))
            else:
                ins = Insn(1, 'EI', 'di_ei', (1,))
        elif z == 4:
            ins = Insn(3, 'CALL {},{}'.format(CC[y], nn), 'call', (y, nn))
        elif z == 5:
            if q == 0:
                ins = Insn(1, 'PUSH ' + rp(p, R16AF), 'push', (rp(p, R16AF),))
            elif p == 0:
                ins = Insn(3, 'CALL {}'.format(nn), 'call', (None, nn))
            else:
                return None     # DD/ED/FD prefixes: caller's business
        elif z == 6:
            ins = Insn(2, '{}{}'.format(ALU[y], n1), 'alu', (y, ('n', n1)))
        else:
            ins = Insn(1, 'RST {}'.format(y * 8), 'rst', (y * 8,))
    if idx:
        if not used[0]:
            return None
        ins.idx = idx
        if 'IXh' in ins.text or 'IXl' in ins.text or 'IYh' in ins.text or 'IYl' in ins.text:
            ins.undoc = 'xyhl'
    return ins


def _decode_cb(op, idx, d):
    x, y, z = op >> 6, (op >> 3) & 7, op & 7
    if idx is None:
        r = R8[z]
        target = ('hl',) if z == 6 else ('r', r)
        if x == 0:
            return Insn(2, '{} {}'.format(ROT[y], r), 'rot', (y, target, None), undoc='sll' if y == 6 else '')
        if x == 1:
            return Insn(2, 'BIT {},{}'.format(y, r), 'bit', (y, target))
        return Insn(2, '{} {},{}'.format(('RES', 'SET')[x - 2], y, r), 'resset', (x - 2, y, target, None))
    m = _idx_text(idx, d)
    target = ('idx', d)
    copy = None if z == 6 else R8[z]
    tail = '' if copy is None else ',' + copy
    undoc = '' if copy is None else 'xycb'
    if x == 0:
        return Insn(4, '{} {}{}'.format(ROT[y], m, tail), 'rot', (y, target, copy), idx=idx,
                    undoc=undoc or ('sll' if y == 6 else ''))
    if x == 1:
        return Insn(4, 'BIT {},{}'.format(y, m), 'bit', (y, target), idx=idx, undoc=undoc)
    return Insn(4, '{} {},{}{}'.format(('RES', 'SET')[x - 2], y, m, tail), 'resset', (x - 2, y, target, copy),
                idx=idx, undoc=undoc)


def _decode_ed(op, n1, n2):
    x, y, z = op >> 6, (op >> 3) & 7, op & 7
    p, q = y >> 1, y & 1
    nn = n1 + 256 * n2
    if x == 1:
        if z == 0:
            if y == 6:
                return Insn(2, 'IN F,(C)', 'in_r_c', (None,), undoc='ED70')
            return Insn(2, 'IN {},(C)'.format(R8[y]), 'in_r_c', (R8[y],))
        if z == 1:
            if y == 6:
                return Insn(2, 'OUT (C),0', 'out_c_r', (None,), undoc='ED71')
            return Insn(2, 'OUT (C),{}'.format(R8[y]), 'out_c_r', (R8[y],))
        if z == 2:
            return Insn(2, '{} HL,{}'.format(('SBC', 'ADC')[q], R16[p]), 'adcsbc16', (q, R16[p]))
        if z == 3:
            und = ''
            if p == 2:
                und = 'ED63' if q == 0 else 'ED6B'
            if q == 0:
                return Insn(4, 'LD ({}),{}'.format(nn, R16[p]), 'ld_mm_rr', (nn, R16[p]), undoc=und)
            return Insn(4, 'LD {},({})'.format(R16[p], nn), 'ld_rr_mm', (R16[p], nn), undoc=und)
        if z == 4:
            return Insn(2, 'NEG', 'neg', undoc='' if y == 0 else 'NEG')
        if z == 5:
            if y == 1:
                return Insn(2, 'RETI', 'retn')
            return Insn(2, 'RETN', 'retn', undoc='' if y == 0 else 'RETN')
        if z == 6:
            return Insn(2, 'IM {}'.format(IM_MODES[y]), 'im', (IM_MODES[y],), undoc='' if y in (0, 2, 3) else 'IM')
        if y == 0:
            return Insn(2, 'LD I,A', 'ld_ir_a', ('I',))
        if y == 1:
            return Insn(2, 'LD R,A', 'ld_ir_a', ('R',))
        if y == 2:
            return Insn(2, 'LD A,I', 'ld_a_ir', ('I',))
        if y == 3:
            return Insn(2, 'LD A,R', 'ld_a_ir', ('R',))
        if y == 4:
            return Insn(2, 'RRD', 'rrd_rld', (0,))
        if y == 5:
            return Insn(2, 'RLD', 'rrd_rld', (1,))
        return Insn(2, 'DEFB 237,{}'.format(op), 'ednop', undoc='ednop')
    if op in BLOCK:
        return Insn(2, BLOCK[op], 'block', (BLOCK[op],))
    return Insn(2, 'DEFB 237,{}'.format(op), 'ednop', undoc='ednop')


# ---------------------------------------------------------------------------- flags
def parity(v):
    return 0 if bin(v & 0xFF).count('1') & 1 else 4


def sz53(v):
    return (v & 0xA8) | (0x40 if (v & 0xFF) == 0 else 0)


def sz53p(v):
    return sz53(v) | parity(v)


def add8(a, b, c):
    r = a + b + c
    f = sz53(r & 0xFF)
    if (a & 15) + (b & 15) + c > 15:
        f |= 0x10
    if (~(a ^ b)) & (a ^ r) & 0x80:
        f |= 0x04
    if r > 0xFF:
        f |= 0x01
    return r & 0xFF, f


def sub8(a, b, c):
    r = a - b - c
    f = sz53(r & 0xFF) | 0x02
    if (a & 15) - (b & 15) - c < 0:
        f |= 0x10
    if (a ^ b) & (a ^ r) & 0x80:
        f |= 0x04
    if r < 0:
        f |= 0x01
    return r & 0xFF, f


class State:
    """CPU state; registers by name."""
    NAMES = ('A', 'F', 'B', 'C', 'D', 'E', 'H', 'L', 'IXh', 'IXl', 'IYh', 'IYl', 'SP', 'I', 'R',
             'xA', 'xF', 'xB', 'xC', 'xD', 'xE', 'xH', 'xL', 'PC', 'T', 'IFF', 'IM', 'HALT')
    __slots__ = NAMES

    def __init__(self, **kw):
        for n in self.NAMES:
            setattr(self, n, kw.get(n, 0))

    def copy(self):
        s = State()
        for n in self.NAMES:
            setattr(s, n, getattr(self, n))
        return s

    def as_dict(self):
        return {n: getattr(self, n) for n in self.NAMES}

    # 16-bit pairs
    def get16(self, name):
        if name == 'SP':
            return self.SP
        if name == 'AF':
            return self.A * 256 + self.F
        if name in ('IX', 'IY'):
            return getattr(self, name + 'h') * 256 + getattr(self, name + 'l')
        return getattr(self, name[0]) * 256 + getattr(self, name[1])

    def set16(self, name, v):
        v &= 0xFFFF
        if name == 'SP':
            self.SP = v
        elif name == 'AF':
            self.A, self.F = v >> 8, v & 0xFF
        elif name in ('IX', 'IY'):
            setattr(self, name + 'h', v >> 8)
            setattr(self, name + 'l', v & 0xFF)
        else:
            setattr(self, name[0], v >> 8)
            setattr(self, name[1], v & 0xFF)


class Result:
    __slots__ = ('insn', 'cycles', 'tstates', 'ports', 'writes', 'fmask', 'taken')

    def __init__(self, insn):
        self.insn = insn
        self.cycles = []     # ordered bus cycles: (address, length) | ('io', port)
        self.ports = []      # ('in', port, value) | ('out', port, value)
        self.writes = []     # (address, value) attempted stores (ROM stores are dropped by mem model)
        self.fmask = 0xFF    # which bits of F the documentation fixes
        self.taken = None
        self.tstates = 0


def cond(cc, f):
    bit = (0x40, 0x40, 0x01, 0x01, 0x04, 0x04, 0x80, 0x80)[cc]
    return bool(f & bit) == bool(cc & 1)


def step(st, mem, inp=None, out=None, rom_top=0x4000, frame=69888, int_active=32):
    """Execute one instruction at st.PC.  mem: mutable sequence of 65536 ints.
    inp(port) -> byte; out(port, value).  Stores below rom_top are discarded.
    Returns Result; st and mem are updated in place."""
    pc = st.PC
    ins = decode(mem, pc)
    res = Result(ins)
    cyc = res.cycles
    ir = st.I * 256 + st.R

    def rd(a):
        return mem[a & 0xFFFF]

    def wr(a, v):
        a &= 0xFFFF
        res.writes.append((a, v & 0xFF))
        if a >= rom_top:
            mem[a] = v & 0xFF

    def port_in(port):
        v = inp(port) if inp else 0xBF
        res.ports.append(('in', port, v))
        return v & 0xFF

    def port_out(port, v):
        res.ports.append(('out', port, v))
        if out:
            out(port, v)

    def getr(name):
        return getattr(st, name)

    def setr(name, v):
        setattr(st, name, v & 0xFF)

    # opcode fetch cycles
    op = ins.op
    a = ins.a
    idx = ins.idx
    npc = (pc + ins.length) & 0xFFFF
    r_inc = 1
    if op == 'prefix':
        cyc.append((pc, 4))
    elif mem[pc] in (0xCB, 0xED, 0xDD, 0xFD):
        cyc.append((pc, 4))
        cyc.append((pc + 1, 4))
        r_inc = 2
    else:
        cyc.append((pc, 4))
    is_ddcb = ins.length == 4 and idx is not None and mem[(pc + 1) & 0xFFFF] == 0xCB

    def idx_addr(d, ddcb=False):
        """Address of (IX+d) plus the displacement-fetch/internal cycles."""
        base = st.get16(idx)
        addr = (base + _sd(d)) & 0xFFFF
        if ddcb:
            cyc.append((pc + 2, 3))
            cyc.append((pc + 3, 3))
            cyc.extend([(pc + 3, 1)] * 2)
        else:
            cyc.append((pc + 2, 3))
        return addr

    def operand_addr(t, internal5=True):
        if t[0] == 'hl':
            return st.get16('HL')
        addr = idx_addr(t[1])
        if internal5:
            cyc.extend([(pc + 2, 1)] * 5)
        return addr

    F = st.F
    if op in ('nop', 'prefix', 'ednop'):
        pass
    elif op == 'ex_af':
        st.A, st.xA = st.xA, st.A
        st.F, st.xF = st.xF, st.F
    elif op == 'exx':
        for n in 'BCDEHL':
            v = getr(n)
            setr(n, getr('x' + n))
            setr('x' + n, v)
    elif op == 'ex_de_hl':
        st.D, st.H = st.H, st.D
        st.E, st.L = st.L, st.E
    elif op == 'djnz':
        cyc.append((ir, 1))
        cyc.append((pc + 1, 3))
        st.B = (st.B - 1) & 0xFF
        res.taken = st.B != 0
        if res.taken:
            cyc.extend([(pc + 1, 1)] * 5)
            npc = (pc + 2 + _sd(a[0])) & 0xFFFF
    elif op == 'jr':
        cyc.append((pc + 1, 3))
        res.taken = a[0] is None or cond(a[0], F)
        if res.taken:
            cyc.extend([(pc + 1, 1)] * 5)
            npc = (pc + 2 + _sd(a[1])) & 0xFFFF
    elif op == 'ld_rr_nn':
        o = ins.prefix_len
        cyc.append((pc + o + 1, 3))
        cyc.append((pc + o + 2, 3))
        st.set16(a[0], a[1])
    elif op == 'add16':
        cyc.extend([(ir, 1)] * 7)
        x, y = st.get16(a[0]), st.get16(a[1])
        r = x + y
        f = F & 0xC4
        if (x & 0xFFF) + (y & 0xFFF) > 0xFFF:
            f |= 0x10
        if r > 0xFFFF:
            f |= 0x01
        f |= (r >> 8) & 0x28
        st.set16(a[0], r)
        st.F = f
    elif op == 'adcsbc16':
        cyc.extend([(ir, 1)] * 7)
        x, y, c = st.get16('HL'), st.get16(a[1]), F & 1
        if a[0]:    # ADC
            r = x + y + c
            f = 0
            if (x & 0xFFF) + (y & 0xFFF) + c > 0xFFF:
                f |= 0x10
            if (~(x ^ y)) & (x ^ r) & 0x8000:
                f |= 0x04
            if r > 0xFFFF:
                f |= 0x01
        else:
            r = x - y - c
            f = 0x02
            if (x & 0xFFF) - (y & 0xFFF) - c < 0:
                f |= 0x10
            if (x ^ y) & (x ^ r) & 0x8000:
                f |= 0x04
            if r < 0:
                f |= 0x01
        r &= 0xFFFF
        f |= (r >> 8) & 0xA8
        if r == 0:
            f |= 0x40
        st.set16('HL', r)
        st.F = f
    elif op == 'ld_m_a':
        addr = st.get16(a[0])
        cyc.append((addr, 3))
        wr(addr, st.A)
    elif op == 'ld_a_m':
        addr = st.get16(a[0])
        cyc.append((addr, 3))
        st.A = rd(addr)
    elif op == 'ld_nn_a':
        cyc.append((pc + 1, 3))
        cyc.append((pc + 2, 3))
        cyc.append((a[0], 3))
        wr(a[0], st.A)
    elif op == 'ld_a_nn':
        cyc.append((pc + 1, 3))
        cyc.append((pc + 2, 3))
        cyc.append((a[0], 3))
        st.A = rd(a[0])
    elif op == 'ld_mm_rr':
        o = ins.length - 2
        cyc.append((pc + o, 3))
        cyc.append((pc + o + 1, 3))
        v = st.get16(a[1])
        cyc.append((a[0], 3))
        cyc.append(((a[0] + 1) & 0xFFFF, 3))
        wr(a[0], v & 0xFF)
        wr(a[0] + 1, v >> 8)
    elif op == 'ld_rr_mm':
        o = ins.length - 2
        cyc.append((pc + o, 3))
        cyc.append((pc + o + 1, 3))
        cyc.append((a[1], 3))
        cyc.append(((a[1] + 1) & 0xFFFF, 3))
        st.set16(a[0], rd(a[1]) + 256 * rd(a[1] + 1))
    elif op == 'incdec16':
        cyc.extend([(ir, 1)] * 2)
        st.set16(a[0], st.get16(a[0]) + (-1 if a[1] else 1))
    elif op == 'incdec8':
        t, dec = a
        if t[0] == 'r':
            v = getr(t[1])
        else:
            addr = operand_addr(t)
            cyc.append((addr, 3))
            cyc.append((addr, 1))
            v = rd(addr)
        if dec:
            r = (v - 1) & 0xFF
            f = (F & 1) | 0x02 | sz53(r) | (0x10 if (v & 15) == 0 else 0) | (0x04 if v == 0x80 else 0)
        else:
            r = (v + 1) & 0xFF
            f = (F & 1) | sz53(r) | (0x10 if (v & 15) == 15 else 0) | (0x04 if v == 0x7F else 0)
        if t[0] == 'r':
            setr(t[1], r)
        else:
            cyc.append((addr, 3))
            wr(addr, r)
        st.F = f
    elif op == 'ld8':
        dst, src = a
        o = ins.prefix_len
        if src[0] == 'n':
            if dst[0] == 'idx':
                # LD (IX+d),n: pc:4,pc+1:4,pc+2:3,pc+3:3,pc+3:1 x2,ii+d:3
                addr = idx_addr(dst[1])
                cyc.append((pc + 3, 3))
                cyc.extend([(pc + 3, 1)] * 2)
                cyc.append((addr, 3))
                wr(addr, src[1])
            elif dst[0] == 'hl':
                cyc.append((pc + 1, 3))
                addr = st.get16('HL')
                cyc.append((addr, 3))
                wr(addr, src[1])
            else:
                cyc.append((pc + o + 1, 3))
                setr(dst[1], src[1])
        elif src[0] in ('hl', 'idx'):
            addr = operand_addr(src)
            cyc.append((addr, 3))
            setr(dst[1], rd(addr))
        elif dst[0] in ('hl', 'idx'):
            addr = operand_addr(dst)
            cyc.append((addr, 3))
            wr(addr, getr(src[1]))
        else:
            setr(dst[1], getr(src[1]))
    elif op == 'acc':
        k = a[0]
        A = st.A
        if k == 0:      # RLCA
            c = A >> 7
            A = ((A << 1) | c) & 0xFF
            st.F = (F & 0xC4) | (A & 0x28) | c
        elif k == 1:    # RRCA
            c = A & 1
            A = (A >> 1) | (c << 7)
            st.F = (F & 0xC4) | (A & 0x28) | c
        elif k == 2:    # RLA
            c = A >> 7
            A = ((A << 1) | (F & 1)) & 0xFF
            st.F = (F & 0xC4) | (A & 0x28) | c
        elif k == 3:    # RRA
            c = A & 1
            A = (A >> 1) | ((F & 1) << 7)
            st.F = (F & 0xC4) | (A & 0x28) | c
        elif k == 4:    # DAA
            c = F & 1
            h = (F >> 4) & 1
            n = (F >> 1) & 1
            corr = 0
            cout = c
            if h or (A & 15) > 9:
                corr |= 0x06
            if c or A > 0x99:
                corr |= 0x60
                cout = 1
            if n:
                hout = 1 if (h and (A & 15) < 6) else 0
                A = (A - corr) & 0xFF
            else:
                hout = 1 if (A & 15) > 9 else 0
                A = (A + corr) & 0xFF
            st.F = sz53p(A) | (hout << 4) | (n << 1) | cout
        elif k == 5:    # CPL
            A ^= 0xFF
            st.F = (F & 0xC5) | (A & 0x28) | 0x12
        elif k == 6:    # SCF
            st.F = (F & 0xC4) | (A & 0x28) | 0x01
            res.fmask = 0xD7        # bits 3/5 depend on undocumented Q register
        else:           # CCF
            st.F = (F & 0xC4) | (A & 0x28) | ((F & 1) << 4) | ((F & 1) ^ 1)
            res.fmask = 0xD7
        st.A = A
    elif op == 'halt':
        pass    # handled after timing (needs T)
    elif op == 'alu':
        k, t = a
        o = ins.prefix_len
        if t[0] == 'r':
            v = getr(t[1])
        elif t[0] == 'n':
            cyc.append((pc + 1, 3))
            v = t[1]
        else:
            addr = operand_addr(t)
            cyc.append((addr, 3))
            v = rd(addr)
        A = st.A
        if k == 0:
            st.A, st.F = add8(A, v, 0)
        elif k == 1:
            st.A, st.F = add8(A, v, F & 1)
        elif k == 2:
            st.A, st.F = sub8(A, v, 0)
        elif k == 3:
            st.A, st.F = sub8(A, v, F & 1)
        elif k == 4:
            st.A = A & v
            st.F = sz53p(st.A) | 0x10
        elif k == 5:
            st.A = A ^ v
            st.F = sz53p(st.A)
        elif k == 6:
            st.A = A | v
            st.F = sz53p(st.A)
        else:
            _, f = sub8(A, v, 0)
            st.F = (f & 0xD7) | (v & 0x28)
    elif op == 'ret':
        cc = a[0]
        if cc is not None:
            cyc.append((ir, 1))
        res.taken = cc is None or cond(cc, F)
        if res.taken:
            sp = st.SP
            cyc.append((sp, 3))
            cyc.append(((sp + 1) & 0xFFFF, 3))
            npc = rd(sp) + 256 * rd(sp + 1)
            st.SP = (sp + 2) & 0xFFFF
    elif op == 'retn':
        sp = st.SP
        cyc.append((sp, 3))
        cyc.append(((sp + 1) & 0xFFFF, 3))
        npc = rd(sp) + 256 * rd(sp + 1)
        st.SP = (sp + 2) & 0xFFFF
    elif op == 'pop':
        sp = st.SP
        cyc.append((sp, 3))
        cyc.append(((sp + 1) & 0xFFFF, 3))
        st.set16(a[0], rd(sp) + 256 * rd(sp + 1))
        st.SP = (sp + 2) & 0xFFFF
    elif op == 'push':
        cyc.append((ir, 1))
        v = st.get16(a[0])
        sp = st.SP
        cyc.append(((sp - 1) & 0xFFFF, 3))
        cyc.append(((sp - 2) & 0xFFFF, 3))
        wr(sp - 1, v >> 8)
        wr(sp - 2, v & 0xFF)
        st.SP = (sp - 2) & 0xFFFF
    elif op == 'jp_rr':
        npc = st.get16(a[0])
    elif op == 'ld_sp_rr':
        cyc.extend([(ir, 1)] * 2)
        st.SP = st.get16(a[0])
    elif op == 'jp':
        cyc.append((pc + 1, 3))
        cyc.append((pc + 2, 3))
        res.taken = a[0] is None or cond(a[0], F)
        if res.taken:
            npc = a[1]
    elif op == 'call':
        cyc.append((pc + 1, 3))
        cyc.append((pc + 2, 3))
        res.taken = a[0] is None or cond(a[0], F)
        if res.taken:
            cyc.append((pc + 2, 1))
            sp = st.SP
            cyc.append(((sp - 1) & 0xFFFF, 3))
            cyc.append(((sp - 2) & 0xFFFF, 3))
            wr(sp - 1, npc >> 8)
            wr(sp - 2, npc & 0xFF)
            st.SP = (sp - 2) & 0xFFFF
            npc = a[1]
    elif op == 'rst':
        cyc.append((ir, 1))
        sp = st.SP
        cyc.append(((sp - 1) & 0xFFFF, 3))
        cyc.append(((sp - 2) & 0xFFFF, 3))
        wr(sp - 1, npc >> 8)
        wr(sp - 2, npc & 0xFF)
        st.SP = (sp - 2) & 0xFFFF
        npc = a[0]
    elif op == 'out_n_a':
        cyc.append((pc + 1, 3))
        port = st.A * 256 + a[0]
        cyc.append(('io', port))
        port_out(port, st.A)
    elif op == 'in_a_n':
        cyc.append((pc + 1, 3))
        port = st.A * 256 + a[0]
        cyc.append(('io', port))
        st.A = port_in(port)
    elif op == 'ex_sp':
        sp = st.SP
        cyc.append((sp, 3))
        cyc.append(((sp + 1) & 0xFFFF, 3))
        cyc.append(((sp + 1) & 0xFFFF, 1))
        cyc.append(((sp + 1) & 0xFFFF, 3))
        cyc.append((sp, 3))
        cyc.extend([(sp, 1)] * 2)
        v = st.get16(a[0])
        new = rd(sp) + 256 * rd(sp + 1)
        wr(sp + 1, v >> 8)
        wr(sp, v & 0xFF)
        st.set16(a[0], new)
    elif op == 'di_ei':
        st.IFF = a[0]
    elif op == 'rot':
        k, t, copy = a
        if t[0] == 'r':
            v = getr(t[1])
        elif t[0] == 'hl':
            addr = st.get16('HL')
            cyc.append((addr, 3))
            cyc.append((addr, 1))
            v = rd(addr)
        else:
            addr = idx_addr(t[1], True)
            cyc.append((addr, 3))
            cyc.append((addr, 1))
            v = rd(addr)
        c_in = F & 1
        if k == 0:
            c = v >> 7
            r = ((v << 1) | c) & 0xFF
        elif k == 1:
            c = v & 1
            r = (v >> 1) | (c << 7)
        elif k == 2:
            c = v >> 7
            r = ((v << 1) | c_in) & 0xFF
        elif k == 3:
            c = v & 1
            r = (v >> 1) | (c_in << 7)
        elif k == 4:
            c = v >> 7
            r = (v << 1) & 0xFF
        elif k == 5:
            c = v & 1
            r = (v >> 1) | (v & 0x80)
        elif k == 6:
            c = v >> 7
            r = ((v << 1) | 1) & 0xFF
        else:
            c = v & 1
            r = v >> 1
        st.F = sz53p(r) | c
        if t[0] == 'r':
            setr(t[1], r)
        else:
            cyc.append((addr, 3))
            wr(addr, r)
            if copy:
                setr(copy, r)
    elif op == 'bit':
        n, t = a
        if t[0] == 'r':
            v = getr(t[1])
            x53 = v & 0x28
        elif t[0] == 'hl':
            addr = st.get16('HL')
            cyc.append((addr, 3))
            cyc.append((addr, 1))
            v = rd(addr)
            x53 = 0
            res.fmask = 0xD7        # bits 3/5 come from MEMPTR
        else:
            addr = idx_addr(t[1], True)
            cyc.append((addr, 3))
            cyc.append((addr, 1))
            v = rd(addr)
            x53 = (addr >> 8) & 0x28
        bit = v & (1 << n)
        f = (F & 1) | 0x10 | x53
        if not bit:
            f |= 0x44
        if n == 7 and bit:
            f |= 0x80
        st.F = f
    elif op == 'resset':
        s, n, t, copy = a
        if t[0] == 'r':
            v = getr(t[1])
        elif t[0] == 'hl':
            addr = st.get16('HL')
            cyc.append((addr, 3))
            cyc.append((addr, 1))
            v = rd(addr)
        else:
            addr = idx_addr(t[1], True)
            cyc.append((addr, 3))
            cyc.append((addr, 1))
            v = rd(addr)
        r = (v | (1 << n)) if s else (v & ~(1 << n) & 0xFF)
        if t[0] == 'r':
            setr(t[1], r)
        else:
            cyc.append((addr, 3))
            wr(addr, r)
            if copy:
                setr(copy, r)
    elif op == 'in_r_c':
        port = st.get16('BC')
        cyc.append(('io', port))
        v = port_in(port)
        if a[0]:
            setr(a[0], v)
        st.F = (F & 1) | sz53p(v)
    elif op == 'out_c_r':
        port = st.get16('BC')
        cyc.append(('io', port))
        port_out(port, getr(a[0]) if a[0] else 0)
    elif op == 'neg':
        st.A, st.F = sub8(0, st.A, 0)
    elif op == 'im':
        st.IM = a[0]
    elif op == 'ld_ir_a':
        cyc.append((ir, 1))
        setr(a[0], st.A)
        if a[0] == 'R':
            r_inc = 0   # R is loaded after the refresh increments
    elif op == 'ld_a_ir':
        cyc.append((ir, 1))
        # handled after R increment / timing below
    elif op == 'rrd_rld':
        addr = st.get16('HL')
        cyc.append((addr, 3))
        cyc.extend([(addr, 1)] * 4)
        cyc.append((addr, 3))
        m = rd(addr)
        A = st.A
        if a[0]:    # RLD
            wr(addr, ((m << 4) | (A & 15)) & 0xFF)
            A = (A & 0xF0) | (m >> 4)
        else:       # RRD
            wr(addr, ((A << 4) | (m >> 4)) & 0xFF)
            A = (A & 0xF0) | (m & 15)
        st.A = A
        st.F = (F & 1) | sz53p(A)
    elif op == 'block':
        name = a[0]
        rep = name.endswith('R')
        inc = -1 if name[2] == 'D' or name[-2:] == 'DR' and name[0] != 'L' and False else 1
        inc = -1 if name in ('LDD', 'LDDR', 'CPD', 'CPDR', 'IND', 'INDR', 'OUTD', 'OTDR') else 1
        hl = st.get16('HL')
        bc = st.get16('BC')
        if name[:2] == 'LD':
            de = st.get16('DE')
            cyc.append((hl, 3))
            cyc.append((de, 3))
            cyc.extend([(de, 1)] * 2)
            v = rd(hl)
            wr(de, v)
            bc = (bc - 1) & 0xFFFF
            st.set16('BC', bc)
            st.set16('HL', hl + inc)
            st.set16('DE', de + inc)
            n = v + st.A
            st.F = (F & 0xC1) | (n & 0x08) | ((n & 0x02) << 4) | (0x04 if bc else 0)
            if rep and bc:
                cyc.extend([(de, 1)] * 5)
                npc = pc
                res.fmask = 0xD7    # bits 3/5 while repeating: from PC (undocumented, masked)
        elif name[:2] == 'CP':
            cyc.append((hl, 3))
            cyc.extend([(hl, 1)] * 5)
            v = rd(hl)
            bc = (bc - 1) & 0xFFFF
            st.set16('BC', bc)
            st.set16('HL', hl + inc)
            r, f = sub8(st.A, v, 0)
            n = r - ((f >> 4) & 1)
            st.F = (f & 0xD2) | (F & 1) | (n & 0x08) | ((n & 0x02) << 4) | (0x04 if bc else 0)
            if rep and bc and r:
                cyc.extend([(hl, 1)] * 5)
                npc = pc
                res.fmask = 0xD7
        elif name[:2] == 'IN':
            cyc.append((ir, 1))
            cyc.append(('io', bc))
            cyc.append((hl, 3))
            v = port_in(bc)
            wr(hl, v)
            b = (st.B - 1) & 0xFF
            st.B = b
            st.set16('HL', hl + inc)
            k = v + ((st.C + inc) & 0xFF)
            st.F = sz53(b) | ((v >> 6) & 0x02) | (0x11 if k > 0xFF else 0) | parity((k & 7) ^ b)
            if rep and b:
                cyc.extend([(hl, 1)] * 5)
                npc = pc
                res.fmask = 0xC2    # H, P/V, C, bits 3/5 while repeating: undocumented interplay, masked
        else:   # OUTI/OUTD/OTIR/OTDR
            cyc.append((ir, 1))
            cyc.append((hl, 3))
            v = rd(hl)
            b = (st.B - 1) & 0xFF
            st.B = b
            port = st.get16('BC')
            cyc.append(('io', port))
            port_out(port, v)
            st.set16('HL', hl + inc)
            k = v + st.L
            st.F = sz53(b) | ((v >> 6) & 0x02) | (0x11 if k > 0xFF else 0) | parity((k & 7) ^ b)
            if rep and b:
                cyc.extend([(bc & 0xFF | (b << 8), 1)] * 5)
                npc = pc
                res.fmask = 0xC2
        if rep:
            res.taken = npc == pc
    else:
        raise AssertionError('unhandled op ' + op)

    # normalise cycle addresses
    t = 0
    for i, c in enumerate(cyc):
        if c[0] == 'io':
            t += 4
        else:
            cyc[i] = (c[0] & 0xFFFF, c[1])
            t += c[1]
    res.tstates = t
    st.T += t
    if r_inc:
        st.R = (st.R & 0x80) | ((st.R + r_inc) & 0x7F)
    if op == 'ld_a_ir':
        v = getr(a[0])
        st.A = v
        pv = st.IFF
        if st.IFF and st.T % frame < int_active:
            pv = 0      # an interrupt accepted during the instruction resets P/V (documented Z80 bug)
        st.F = (F & 1) | sz53(v) | (pv << 2)
    if op == 'halt':
        if st.IFF and st.T % frame < int_active:
            st.HALT = 0
        else:
            st.HALT = 1
            npc = pc
    st.PC = npc
    return res


# ---------------------------------------------------------------------------- timing by class
def timings(mem, addr):
    """All T-state counts the instruction at addr can take (documented durations),
    obtained by running the reference model itself under both outcomes of its
    condition/repeat test.  Returns a sorted tuple."""
    ins = decode(mem, addr)
    outs = set()
    variants = [dict(F=0x00, B=2, C=2), dict(F=0xFF, B=2, C=2), dict(F=0x00, B=1, C=0), dict(F=0xFF, B=0, C=1),
                dict(F=0x00, B=0, C=1, A=1), dict(F=0x00, B=1, C=1, A=1)]
    for v in variants:
        st = State(PC=addr, SP=0x8000, H=0x90, L=0x00, D=0xA0, E=0, IXh=0x90, IYh=0x90, T=1000, **v)
        m = _Overlay(mem)
        r = step(st, m)
        outs.add(r.tstates)
    return tuple(sorted(outs))


class _Overlay:
    """Copy-on-write view of a memory (so that timing probes do not disturb it)."""
    def __init__(self, base):
        self.base = base
        self.delta = {}

    def __getitem__(self, a):
        return self.delta.get(a, self.base[a])

    def __setitem__(self, a, v):
        self.delta[a] = v
