import sys
sys.path.insert(0, '/repo')
from skoolkit import tap2sna, tape
def edges(name, data, **kw):
    blocks = [b for b in tap2sna._get_tape_blocks([(name, data)], True, 1, 0, (), True) if b.timings]
    for b in blocks: b.keys = None
    e, d = tape.get_edges(blocks, kw.get('first_edge', 0), kw.get('polarity', 0))
    return e, [(x.start, x.end) for x in d]
def blk(tag, body): return tag + len(body).to_bytes(4, 'little') + body
w = lambda *ws: b''.join(x.to_bytes(2, 'little') for x in ws)
hdr = blk(b'PZXT', b'\x01\x00')
# F-A: PULS 1x1000 ; PAUS level 1, 5000 T ; DATA level 1, 8 bits 0xA5, s0=(80,0) s1=(0,80), tail 0
pzx = hdr + blk(b'PULS', w(1000)) + blk(b'PAUS', (0x80000000 | 5000).to_bytes(4, 'little')) + \
      blk(b'DATA', (0x80000000 | 8).to_bytes(4, 'little') + w(0) + bytes((2, 2)) + w(80, 0) + w(0, 80) + bytes([0xA5]))
print('F-A', edges('a.pzx', pzx))
# F-B: PULS 1x1000 ; DATA level 1, 1 bit (0), s0=(0) s1=(855), tail 945 ; PULS 1x1000
pzx = hdr + blk(b'PULS', w(1000)) + blk(b'DATA', (0x80000000 | 1).to_bytes(4, 'little') + w(945) + bytes((1, 1)) + w(0) + w(855) + bytes([0x00])) + blk(b'PULS', w(1000))
print('F-B', edges('b.pzx', pzx))
# F-C: TAP block with flag byte 1
print('F-C', len(edges('c.tap', bytes((2, 0, 1, 1)))[0]))
# F-D: DATA level 0, 11 bits (FF + top 3 bits of A5 = 1,0,1), s0=(500) s1=(250,250), tail 0
pzx = hdr + blk(b'DATA', (11).to_bytes(4, 'little') + w(0) + bytes((1, 2)) + w(500) + w(250, 250) + bytes([0xFF, 0xA5]))
e = edges('d.pzx', pzx)[0]
print('F-D', len(e) - 1, 'pulses; last widths', [e[i+1]-e[i] for i in range(len(e)-6, len(e)-1)], '(expected 21 pulses ending 250,250,500,250,250)')
# F-E: DATA (level 0, std, tail 945) ; DATA level 1, 1 bit (0), s0=(0) s1=(855), tail 0
pzx = hdr + blk(b'DATA', (8).to_bytes(4, 'little') + w(945) + bytes((2, 2)) + w(855, 855) + w(1710, 1710) + bytes([0xA5])) + \
      blk(b'DATA', (0x80000000 | 1).to_bytes(4, 'little') + w(0) + bytes((1, 1)) + w(0) + w(855) + bytes([0x00]))
e, d = edges('e.pzx', pzx)
print('F-E', 'edges', len(e), 'max index', len(e) - 1, 'data block ranges', d)
