"""Stand-alone reproductions (skoolkit only) of the C11 findings on the unchanged tree.

Run:  /venv/bin/python /verif/mc/refs/c11_repro.py

Each case feeds a tiny tape through the path tap2sna takes (tap2sna._get_tape_blocks ->
tape.get_edges) and prints what comes out next to what the tape specifies.

F-A  features ~ zero_lead_after_pause          (lead's F9)
F-B  features ~ odd_zero_pulses_before_tail    (lead's F10)
F-C  space=flags clause=pilot_count flag 1..127 (lead's F11)
F-D  features ~ partial_byte_unequal_pulse_counts
F-E  features ~ zero_length_end_after_tail
"""
import sys
sys.path.insert(0, '/repo')
from skoolkit import tap2sna, tape


def edges(name, data, **kw):
    blocks = [b for b in tap2sna._get_tape_blocks([(name, data)], True, 1, 0, (), True) if b.timings]
    for b in blocks:
        b.keys = None
    e, d = tape.get_edges(blocks, kw.get('first_edge', 0), kw.get('polarity', 0))
    return e, [(x.start, x.end) for x in d]


def blk(tag, body):
    return tag + len(body).to_bytes(4, 'little') + body


def w(*ws):
    return b''.join(x.to_bytes(2, 'little') for x in ws)


def dword(n):
    return n.to_bytes(4, 'little')


HIGH = 0x80000000
hdr = blk(b'PZXT', b'\x01\x00')

# F-A: PULS 1x1000 ; PAUS level 1, 5000 T ; DATA level 1, 8 bits 0xA5, s0=(80,0) s1=(0,80), tail 0
#      get_edges zero-pulse merge path does `edges[-1] += d` on the edge BEFORE the pause.
pzx = hdr + blk(b'PULS', w(1000)) + blk(b'PAUS', dword(HIGH | 5000)) + \
    blk(b'DATA', dword(HIGH | 8) + w(0) + bytes((2, 2)) + w(80, 0) + w(0, 80) + bytes([0xA5]))
print('F-A got     ', edges('a.pzx', pzx)[0])
print('    expected [0, 1000, 6000, 6080, 6160, 6240, 6400, 6480, 6560, 6640]  (the first 1-bit, low for 80 T after the pause, is lost)')

# F-B: PULS 1x1000 ; DATA level 1, 1 bit (0), s0=(0) s1=(855), tail 945 ; PULS 1x1000
#      the toggle of the zero-length pulse is still pending (p != q) when the tail pulse is added.
pzx = hdr + blk(b'PULS', w(1000)) + blk(b'DATA', dword(HIGH | 1) + w(945) + bytes((1, 1)) + w(0) + w(855) + bytes([0x00])) + blk(b'PULS', w(1000))
print('F-B got     ', edges('b.pzx', pzx)[0])
print('    expected level low throughout [0, 2945): level changes only at 0 and 2945 (e.g. [0, 1000, 1000, 1945, 1945, 2945])')

# F-C: standard-speed block with flag byte 0x01 (TAP bytes 02 00 01 01)
print('F-C got      {} edges (3223 pilot pulses)'.format(len(edges('c.tap', bytes((2, 0, 1, 1)))[0])))
print('    expected 8098 edges: 8063 pilot pulses for a flag byte < 128 (TZX 0x10 text, ROM SA-FLAG BIT 7,A)')

# F-D: DATA level 0, 11 bits (FF + top 3 bits of A5 = 1,0,1), s0=(500) s1=(250,250), tail 0
#      used-bits slice `(len(bt) * used_bits) // 8` assumes 0 and 1 bits have the same number of pulses.
pzx = hdr + blk(b'DATA', dword(11) + w(0) + bytes((1, 2)) + w(500) + w(250, 250) + bytes([0xFF, 0xA5]))
e = edges('d.pzx', pzx)[0]
print('F-D got      {} pulses, the last five {}'.format(len(e) - 1, [e[i + 1] - e[i] for i in range(len(e) - 6, len(e) - 1)]))
print('    expected 21 pulses, the last five [250, 250, 500, 250, 250]')

# F-E: DATA (level 0, standard encodings, tail 945) ; DATA level 1, 1 bit (0), s0=(0) s1=(855), tail 0
#      the final `edges[-1] == tail` pop adjusts only the last DataBlock (tap2sna: "array index out of range").
pzx = hdr + blk(b'DATA', dword(8) + w(945) + bytes((2, 2)) + w(855, 855) + w(1710, 1710) + bytes([0xA5])) + \
    blk(b'DATA', dword(HIGH | 1) + w(0) + bytes((1, 1)) + w(0) + w(855) + bytes([0x00]))
e, d = edges('e.pzx', pzx)
print('F-E got      {} edges (max index {}), data block ranges {}'.format(len(e), len(e) - 1, d))
print('    expected every range inside 0..{}'.format(len(e) - 1))
