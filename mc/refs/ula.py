"""Reference model of ZX Spectrum ULA memory/IO contention (from the published
description: comp.sys.sinclair FAQ / "Contended memory" technical notes).

During the 128 T-states in which the ULA fetches display data on each of the 192 display
lines, an access to contended memory (or an I/O access the ULA is involved in) that
begins at T-state t is held up by (6,5,4,3,2,1,0,0)[(t - t_first) mod 8] T-states, where
t_first is the frame position of the first contended T-state (48K: 14335, 224 T-states
per line, 69888 per frame; 128K: 14361, 228 per line, 70908 per frame).
"""

PATTERN = (6, 5, 4, 3, 2, 1, 0, 0)

MACHINES = {
    '48K': dict(first=14335, line=224, frame=69888),
    '128K': dict(first=14361, line=228, frame=70908),
}


def delay(machine, t):
    m = MACHINES[machine]
    t %= m['frame']
    d = t - m['first']
    if d < 0:
        return 0
    line, pos = divmod(d, m['line'])
    if line >= 192 or pos >= 128:
        return 0
    return PATTERN[pos % 8]


def contended(machine, addr, odd_bank=False):
    addr &= 0xFFFF
    if 0x4000 <= addr < 0x8000:
        return True
    return machine == '128K' and odd_bank and addr >= 0xC000


def io_cycles(machine, port, odd_bank=False):
    """The I/O cycle as a list of (is_contended, length) sub-cycles."""
    high = contended(machine, port, odd_bank)
    if port & 1:
        if high:
            return [(True, 1), (True, 1), (True, 1), (True, 1)]
        return [(False, 4)]
    if high:
        return [(True, 1), (True, 3)]
    return [(False, 1), (True, 3)]


def total_delay(machine, t, cycles, odd_bank=False):
    """Sum of the delays over an instruction's bus cycles (as produced by z80ref.step)
    when the instruction starts at frame position t."""
    total = 0
    for c in cycles:
        if c[0] == 'io':
            subs = io_cycles(machine, c[1], odd_bank)
        else:
            subs = [(contended(machine, c[0], odd_bank), c[1])]
        for is_c, n in subs:
            if is_c:
                d = delay(machine, t)
                total += d
                t += d
            t += n
    return total
