"""PNG / APNG decoder and validator (reference model for C15).

Written from the PNG specification (ISO/IEC 15948, sections 5, 7, 9, 10, 11) and the APNG
specification (acTL / fcTL / fdAT).  It is a *validator* first: every structural rule is
checked and a violation raises PngError; nothing is repaired or tolerated.

Supported image kinds: colour type 3 (palette) with bit depth 1, 2, 4 or 8, non-interlaced
- the only kind SkoolKit's image writer claims to produce.  Anything else is reported as
an error ("unsupported"), which for the check means "not the documented kind of file".

    img = decode(data)          # raises PngError
    img.width, img.height, img.bit_depth, img.palette [(r,g,b)], img.alpha [a per entry]
    img.animated, img.num_frames, img.num_plays
    img.default_rows            # rows of the IDAT image: list of bytes (palette indices)
    img.frames                  # list of FrameData (APNG frames in display order); for a
                                # plain PNG a single FrameData covering the whole image
    img.canvases()              # fully composed RGBA canvases, one per frame (slow path)

Rows are `bytes` objects holding one palette index per pixel, so callers can compare and
translate them at C speed.
"""
import struct
import zlib

SIGNATURE = b'\x89PNG\r\n\x1a\n'


class PngError(Exception):
    pass


class FrameData:
    __slots__ = ('seq', 'x', 'y', 'width', 'height', 'delay_num', 'delay_den', 'dispose_op', 'blend_op', 'rows',
                 'source')

    def __init__(self):
        self.seq = None
        self.x = self.y = 0
        self.width = self.height = 0
        self.delay_num = 0
        self.delay_den = 100
        self.dispose_op = 0
        self.blend_op = 0
        self.rows = None
        self.source = 'IDAT'

    @property
    def delay(self):
        """Delay in seconds as an exact fraction (numerator, denominator)."""
        return (self.delay_num, self.delay_den or 100)

    def rect(self):
        return (self.x, self.y, self.width, self.height)


class Image:
    def __init__(self):
        self.width = self.height = 0
        self.bit_depth = 0
        self.colour_type = 3
        self.palette = []
        self.alpha = []
        self.has_trns = False
        self.animated = False
        self.num_frames = 1
        self.num_plays = 0
        self.default_rows = None
        self.default_in_animation = True
        self.frames = []
        self.chunks = []        # (type, length) in file order

    def rgba_table(self):
        return [(r, g, b, a) for (r, g, b), a in zip(self.palette, self.alpha)]

    def rgba_rows(self, rows):
        t = self.rgba_table()
        return [[t[i] for i in row] for row in rows]

    def canvases(self):
        """Compose the animation per the APNG rules; returns one RGBA canvas per frame.

        The output buffer starts fully transparent black; dispose_op PREVIOUS on the
        first frame is treated as BACKGROUND (as the specification requires)."""
        t = self.rgba_table()
        w, h = self.width, self.height
        canvas = [[(0, 0, 0, 0)] * w for _ in range(h)]
        out = []
        for n, f in enumerate(self.frames):
            before = [row[:] for row in canvas]
            for j, row in enumerate(f.rows):
                crow = canvas[f.y + j]
                for i, idx in enumerate(row):
                    src = t[idx]
                    if f.blend_op == 0 or src[3] == 255:
                        crow[f.x + i] = src
                    elif src[3] != 0:
                        crow[f.x + i] = _over(src, crow[f.x + i])
            out.append([row[:] for row in canvas])
            dop = f.dispose_op
            if dop == 2 and n == 0:
                dop = 1
            if dop == 1:
                for j in range(f.height):
                    crow = canvas[f.y + j]
                    for i in range(f.width):
                        crow[f.x + i] = (0, 0, 0, 0)
            elif dop == 2:
                canvas = before
        return out


def _over(src, dst):
    """Alpha compositing 'over' on 8-bit samples (PNG spec section 13.16, integer form)."""
    sa, da = src[3], dst[3]
    if da == 0:
        return src
    oa = sa * 255 + da * (255 - sa)
    if oa == 0:
        return (0, 0, 0, 0)
    rgb = tuple((src[k] * sa * 255 + dst[k] * da * (255 - sa) + oa // 2) // oa for k in range(3))
    return rgb + ((oa + 127) // 255,)


# --------------------------------------------------------------------------- chunk walk
def chunks(data):
    """Yield (type: bytes, body: bytes) after checking signature, lengths and CRCs."""
    if not isinstance(data, (bytes, bytearray)):
        raise PngError('not bytes')
    data = bytes(data)
    if data[:8] != SIGNATURE:
        raise PngError('bad signature {!r}'.format(data[:8]))
    pos = 8
    n = len(data)
    seen_iend = False
    while pos < n:
        if seen_iend:
            raise PngError('{} bytes after IEND'.format(n - pos))
        if pos + 12 > n:
            raise PngError('truncated chunk header/trailer at offset {}'.format(pos))
        length, = struct.unpack('>I', data[pos:pos + 4])
        ctype = data[pos + 4:pos + 8]
        if length > 0x7FFFFFFF:
            raise PngError('chunk length {} exceeds 2^31-1'.format(length))
        for c in ctype:
            if not (65 <= c <= 90 or 97 <= c <= 122):
                raise PngError('chunk type {!r} is not four ASCII letters'.format(ctype))
        if pos + 12 + length > n:
            raise PngError('chunk {} at offset {} declares length {} but only {} bytes follow'.format(
                ctype.decode(), pos, length, n - pos - 12))
        body = data[pos + 8:pos + 8 + length]
        crc, = struct.unpack('>I', data[pos + 8 + length:pos + 12 + length])
        want = zlib.crc32(ctype + body) & 0xFFFFFFFF
        if crc != want:
            raise PngError('chunk {} at offset {}: CRC {:08x}, computed {:08x}'.format(ctype.decode(), pos, crc, want))
        if ctype == b'IEND':
            seen_iend = True
        yield ctype, body
        pos += 12 + length
    if not seen_iend:
        raise PngError('no IEND chunk')


# --------------------------------------------------------------------------- scanlines
def _paeth(a, b, c):
    p = a + b - c
    pa, pb, pc = abs(p - a), abs(p - b), abs(p - c)
    if pa <= pb and pa <= pc:
        return a
    if pb <= pc:
        return b
    return c


def unfilter(raw, height, row_bytes, bpp=1):
    """Undo the per-scanline filters.  raw must hold height * (1 + row_bytes) bytes."""
    stride = row_bytes + 1
    if not any(raw[0::stride]):
        # every scanline has filter type 0 (None): the bytes are the samples
        return [raw[j + 1:j + stride] for j in range(0, height * stride, stride)]
    rows = []
    prev = bytes(row_bytes)
    cache = {}
    for j in range(height):
        ft = raw[j * stride]
        line = raw[j * stride + 1:(j + 1) * stride]
        if ft == 0:
            cur = line
        elif ft > 4:
            raise PngError('scanline {}: filter type {}'.format(j, ft))
        else:
            key = (ft, line, prev)
            cur = cache.get(key)
            if cur is None:
                out = bytearray(row_bytes)
                for i in range(row_bytes):
                    a = out[i - bpp] if i >= bpp else 0
                    b = prev[i]
                    c = prev[i - bpp] if i >= bpp else 0
                    x = line[i]
                    if ft == 1:
                        v = x + a
                    elif ft == 2:
                        v = x + b
                    elif ft == 3:
                        v = x + ((a + b) >> 1)
                    else:
                        v = x + _paeth(a, b, c)
                    out[i] = v & 255
                cur = cache[key] = bytes(out)
        rows.append(cur)
        prev = cur
    return rows


_UNPACK = {}


def _unpack_table(depth):
    t = _UNPACK.get(depth)
    if t is None:
        per = 8 // depth
        m = (1 << depth) - 1
        t = _UNPACK[depth] = [bytes((v >> (depth * (per - 1 - k))) & m for k in range(per)) for v in range(256)]
    return t


def unpack_row(row, width, depth):
    """Packed scanline -> bytes with one sample per pixel (leftmost pixel in the high bits)."""
    if depth == 8:
        return row[:width]
    t = _unpack_table(depth)
    return b''.join([t[v] for v in row])[:width]


def _inflate(stream, what):
    d = zlib.decompressobj()
    try:
        raw = d.decompress(stream)
        raw += d.flush()
    except zlib.error as e:
        raise PngError('{}: zlib error: {}'.format(what, e))
    if not d.eof:
        raise PngError('{}: zlib stream is truncated'.format(what))
    if d.unused_data:
        raise PngError('{}: {} bytes after the end of the zlib stream'.format(what, len(d.unused_data)))
    return raw


def _decode_pixels(stream, width, height, depth, npal, what):
    raw = _inflate(stream, what)
    row_bytes = (width * depth + 7) // 8
    want = height * (1 + row_bytes)
    if len(raw) != want:
        raise PngError('{}: decompressed length {} but {} rows x (1 + {}) bytes = {}'.format(
            what, len(raw), height, row_bytes, want))
    lines = unfilter(raw, height, row_bytes)
    cache = {}
    for line in set(lines):
        px = unpack_row(line, width, depth)
        if px and max(px) >= npal:
            raise PngError('{}: pixel index {} but the palette has {} entries'.format(what, max(px), npal))
        cache[line] = px
    return [cache[line] for line in lines]


# --------------------------------------------------------------------------- decode
def decode(data):
    img = Image()
    state = 'start'             # start -> header -> idat -> after_idat -> end
    seen = set()
    idat = []
    next_seq = 0
    fctl_before_idat = None
    cur = None                  # frame being collected after IDAT: (FrameData, [fdAT payloads])
    pending = []                # [(FrameData, payload list)]
    for ctype, body in chunks(data):
        name = ctype.decode()
        img.chunks.append((name, len(body)))
        if state == 'start':
            if ctype != b'IHDR':
                raise PngError('first chunk is {} not IHDR'.format(name))
            if len(body) != 13:
                raise PngError('IHDR length {}'.format(len(body)))
            w, h, depth, ctyp, comp, filt, inter = struct.unpack('>IIBBBBB', body)
            if w == 0 or h == 0 or w > 0x7FFFFFFF or h > 0x7FFFFFFF:
                raise PngError('IHDR dimensions {}x{}'.format(w, h))
            if ctyp != 3:
                raise PngError('unsupported colour type {} (only palette images are expected)'.format(ctyp))
            if depth not in (1, 2, 4, 8):
                raise PngError('bit depth {} is not allowed for colour type 3'.format(depth))
            if comp != 0 or filt != 0:
                raise PngError('IHDR compression method {} / filter method {}'.format(comp, filt))
            if inter != 0:
                raise PngError('unsupported interlace method {}'.format(inter))
            img.width, img.height, img.bit_depth, img.colour_type = w, h, depth, ctyp
            state = 'header'
            continue
        if ctype == b'IHDR':
            raise PngError('second IHDR')
        if state == 'end':
            raise PngError('chunk {} after IEND'.format(name))

        if ctype == b'PLTE':
            if 'PLTE' in seen:
                raise PngError('second PLTE')
            if state != 'header':
                raise PngError('PLTE after IDAT')
            if len(body) % 3 or not 3 <= len(body) <= 768:
                raise PngError('PLTE length {}'.format(len(body)))
            n = len(body) // 3
            if n > (1 << img.bit_depth):
                raise PngError('PLTE has {} entries, more than 2^{}'.format(n, img.bit_depth))
            img.palette = [tuple(body[3 * i:3 * i + 3]) for i in range(n)]
            img.alpha = [255] * n
        elif ctype == b'tRNS':
            if 'tRNS' in seen:
                raise PngError('second tRNS')
            if state != 'header':
                raise PngError('tRNS after IDAT')
            if 'PLTE' not in seen:
                raise PngError('tRNS before PLTE')
            if not 1 <= len(body) <= len(img.palette):
                raise PngError('tRNS has {} entries for a palette of {}'.format(len(body), len(img.palette)))
            for i, a in enumerate(body):
                img.alpha[i] = a
            img.has_trns = True
        elif ctype == b'acTL':
            if 'acTL' in seen:
                raise PngError('second acTL')
            if state != 'header':
                raise PngError('acTL after IDAT')
            if len(body) != 8:
                raise PngError('acTL length {}'.format(len(body)))
            img.num_frames, img.num_plays = struct.unpack('>II', body)
            if img.num_frames == 0:
                raise PngError('acTL num_frames = 0')
            img.animated = True
        elif ctype == b'fcTL':
            if 'acTL' not in seen:
                raise PngError('fcTL without a preceding acTL')
            if len(body) != 26:
                raise PngError('fcTL length {}'.format(len(body)))
            f = FrameData()
            (f.seq, f.width, f.height, f.x, f.y, f.delay_num, f.delay_den, f.dispose_op,
             f.blend_op) = struct.unpack('>IIIIIHHBB', body)
            if f.seq != next_seq:
                raise PngError('fcTL sequence number {} (expected {})'.format(f.seq, next_seq))
            next_seq += 1
            if f.width == 0 or f.height == 0:
                raise PngError('fcTL frame size {}x{}'.format(f.width, f.height))
            if f.x + f.width > img.width or f.y + f.height > img.height:
                raise PngError('fcTL region x={} y={} {}x{} is outside the {}x{} image'.format(
                    f.x, f.y, f.width, f.height, img.width, img.height))
            if f.dispose_op > 2:
                raise PngError('fcTL dispose_op {}'.format(f.dispose_op))
            if f.blend_op > 1:
                raise PngError('fcTL blend_op {}'.format(f.blend_op))
            if state == 'header':
                if fctl_before_idat is not None:
                    raise PngError('two fcTL chunks before IDAT')
                if (f.x, f.y, f.width, f.height) != (0, 0, img.width, img.height):
                    raise PngError('fcTL of the default image has region x={} y={} {}x{}, image is {}x{}'.format(
                        f.x, f.y, f.width, f.height, img.width, img.height))
                fctl_before_idat = f
            else:
                if state == 'idat':
                    state = 'after_idat'
                if cur is not None:
                    if not cur[1]:
                        raise PngError('fcTL (seq {}) has no frame data'.format(cur[0].seq))
                    pending.append(cur)
                f.source = 'fdAT'
                cur = (f, [])
        elif ctype == b'fdAT':
            if 'acTL' not in seen:
                raise PngError('fdAT without a preceding acTL')
            if state == 'header':
                raise PngError('fdAT before IDAT')
            if state == 'idat':
                state = 'after_idat'
            if len(body) < 4:
                raise PngError('fdAT length {}'.format(len(body)))
            seq, = struct.unpack('>I', body[:4])
            if seq != next_seq:
                raise PngError('fdAT sequence number {} (expected {})'.format(seq, next_seq))
            next_seq += 1
            if cur is None:
                raise PngError('fdAT (seq {}) is not preceded by an fcTL'.format(seq))
            cur[1].append(body[4:])
        elif ctype == b'IDAT':
            if 'PLTE' not in seen:
                raise PngError('IDAT before PLTE')
            if state == 'header':
                state = 'idat'
            elif state != 'idat':
                raise PngError('IDAT chunks are not consecutive')
            idat.append(body)
        elif ctype == b'IEND':
            if body:
                raise PngError('IEND length {}'.format(len(body)))
            if not idat:
                raise PngError('no IDAT chunk')
            state = 'end'
        else:
            if state == 'idat':
                state = 'after_idat'
            if not ctype[0] & 32:
                raise PngError('unknown critical chunk {}'.format(name))
        if state == 'idat' and ctype != b'IDAT':
            state = 'after_idat'
        seen.add(name)

    if state != 'end':
        raise PngError('no IEND chunk')
    if cur is not None:
        if not cur[1]:
            raise PngError('fcTL (seq {}) has no frame data'.format(cur[0].seq))
        pending.append(cur)

    npal = len(img.palette)
    img.default_rows = _decode_pixels(b''.join(idat), img.width, img.height, img.bit_depth, npal, 'IDAT')
    if img.animated:
        if fctl_before_idat is not None:
            fctl_before_idat.rows = img.default_rows
            img.frames.append(fctl_before_idat)
        else:
            img.default_in_animation = False
        for f, payloads in pending:
            f.rows = _decode_pixels(b''.join(payloads), f.width, f.height, img.bit_depth, npal,
                                    'fdAT of frame seq {}'.format(f.seq))
            img.frames.append(f)
        if len(img.frames) != img.num_frames:
            raise PngError('acTL declares {} frames but {} fcTL chunks are present'.format(img.num_frames, len(img.frames)))
    else:
        f = FrameData()
        f.width, f.height, f.rows = img.width, img.height, img.default_rows
        img.frames.append(f)
    return img


# --------------------------------------------------------------------------- self test
def _chunk(ctype, body):
    return struct.pack('>I', len(body)) + ctype + body + struct.pack('>I', zlib.crc32(ctype + body) & 0xFFFFFFFF)


def _filter_row(ft, line, prev, bpp=1):
    out = bytearray()
    for i, x in enumerate(line):
        a = line[i - bpp] if i >= bpp else 0
        b = prev[i]
        c = prev[i - bpp] if i >= bpp else 0
        p = (0, a, b, (a + b) >> 1, _paeth(a, b, c))[ft] if ft < 5 else 0
        out.append((x - p) & 255)
    return bytes(out)


def _encode(width, height, depth, palette, rows, filters, trns=None, extra=()):
    per = 8 // depth
    raw = bytearray()
    prev = bytes((width * depth + 7) // 8)
    for j, row in enumerate(rows):
        padded = list(row) + [0] * (-len(row) % per)
        line = bytearray()
        for i in range(0, len(padded), per):
            v = 0
            for s in padded[i:i + per]:
                v = (v << depth) | s
            line.append(v)
        ft = filters[j % len(filters)]
        raw.append(ft)
        raw += _filter_row(ft, bytes(line), prev)
        prev = bytes(line)
    out = SIGNATURE + _chunk(b'IHDR', struct.pack('>IIBBBBB', width, height, depth, 3, 0, 0, 0))
    out += _chunk(b'PLTE', bytes(v for rgb in palette for v in rgb))
    if trns:
        out += _chunk(b'tRNS', bytes(trns))
    for c in extra:
        out += c
    z = zlib.compress(bytes(raw))
    half = len(z) // 2
    out += _chunk(b'IDAT', z[:half]) + _chunk(b'IDAT', z[half:]) + _chunk(b'IEND', b'')
    return out


def selftest():
    """Consistency check of the decoder against a tiny independent encoder; returns a list
    of problems (empty = fine).  Covers all five filter types, all four bit depths, split
    IDAT, tRNS and the rejection of a set of malformed files."""
    problems = []
    for depth in (1, 2, 4, 8):
        n = 1 << min(depth, 4)
        palette = [((i * 37) & 255, (i * 91 + 5) & 255, (255 - i * 13) & 255) for i in range(n)]
        for width in (1, 3, 8, 9, 17):
            height = 7
            rows = [[(x * 3 + y * 5 + (x * y)) % n for x in range(width)] for y in range(height)]
            for filters in ((0,), (1,), (2,), (3,), (4,), (0, 1, 2, 3, 4), (4, 3, 2, 1)):
                data = _encode(width, height, depth, palette, rows, filters, trns=[7])
                try:
                    img = decode(data)
                except PngError as e:
                    problems.append('valid file rejected (depth {} width {} filters {}): {}'.format(depth, width, filters, e))
                    continue
                if [list(r) for r in img.default_rows] != rows:
                    problems.append('wrong pixels (depth {} width {} filters {})'.format(depth, width, filters))
                if img.palette != palette or img.alpha[0] != 7 or img.alpha[1:] != [255] * (n - 1):
                    problems.append('wrong palette/alpha (depth {})'.format(depth))
    good = _encode(9, 3, 2, [(0, 0, 0), (1, 1, 1), (2, 2, 2)], [[0, 1, 2] * 3] * 3, (0,))

    def bad(name, data):
        try:
            decode(data)
        except PngError:
            return
        problems.append('malformed file accepted: ' + name)
    bad('signature', b'\x88' + good[1:])
    bad('crc', good[:40] + bytes([good[40] ^ 1]) + good[41:])
    bad('truncated', good[:-5])
    bad('trailing', good + b'\0')
    bad('index beyond palette', _encode(9, 3, 2, [(0, 0, 0), (1, 1, 1)], [[0, 1, 2] * 3] * 3, (0,)))
    bad('short stream', _encode(9, 4, 2, [(0, 0, 0)] * 3, [[0, 1, 2] * 3] * 3, (0,)))
    bad('long stream', _encode(9, 2, 2, [(0, 0, 0)] * 3, [[0, 1, 2] * 3] * 3, (0,)))
    bad('filter 5', _encode(9, 3, 2, [(0, 0, 0)] * 3, [[0, 1, 2] * 3] * 3, (5,)))
    bad('fcTL without acTL', _encode(9, 3, 2, [(0, 0, 0)] * 3, [[0, 1, 2] * 3] * 3, (0,), extra=[
        _chunk(b'fcTL', struct.pack('>IIIIIHHBB', 0, 9, 3, 0, 0, 1, 100, 0, 0))]))
    actl = _chunk(b'acTL', struct.pack('>II', 1, 0))
    ok_anim = _encode(9, 3, 2, [(0, 0, 0)] * 3, [[0, 1, 2] * 3] * 3, (0,), extra=[
        actl, _chunk(b'fcTL', struct.pack('>IIIIIHHBB', 0, 9, 3, 0, 0, 1, 100, 0, 0))])
    try:
        a = decode(ok_anim)
        if not a.animated or len(a.frames) != 1 or a.frames[0].rect() != (0, 0, 9, 3):
            problems.append('one-frame APNG misread')
    except PngError as e:
        problems.append('valid one-frame APNG rejected: {}'.format(e))
    bad('fcTL seq 1 first', _encode(9, 3, 2, [(0, 0, 0)] * 3, [[0, 1, 2] * 3] * 3, (0,), extra=[
        actl, _chunk(b'fcTL', struct.pack('>IIIIIHHBB', 1, 9, 3, 0, 0, 1, 100, 0, 0))]))
    bad('frame count', _encode(9, 3, 2, [(0, 0, 0)] * 3, [[0, 1, 2] * 3] * 3, (0,), extra=[
        _chunk(b'acTL', struct.pack('>II', 2, 0)), _chunk(b'fcTL', struct.pack('>IIIIIHHBB', 0, 9, 3, 0, 0, 1, 100, 0, 0))]))
    bad('first frame region', _encode(9, 3, 2, [(0, 0, 0)] * 3, [[0, 1, 2] * 3] * 3, (0,), extra=[
        actl, _chunk(b'fcTL', struct.pack('>IIIIIHHBB', 0, 8, 3, 1, 0, 1, 100, 0, 0))]))
    # a second frame appended after the IDATs
    f2 = _chunk(b'fcTL', struct.pack('>IIIIIHHBB', 1, 3, 2, 6, 1, 1, 100, 0, 0))
    hdr_end = good.index(b'IDAT') - 4
    anim_hdr = good[:hdr_end] + _chunk(b'acTL', struct.pack('>II', 2, 0)) + \
        _chunk(b'fcTL', struct.pack('>IIIIIHHBB', 0, 9, 3, 0, 0, 1, 100, 0, 0)) + good[hdr_end:-12]
    z2 = zlib.compress(b'\0\x1b\0\x6c')        # 2 rows x (filter + 1 byte): 0,1,2 / 1,2,3 - index 3 is beyond the palette
    bad('frame index beyond palette', anim_hdr + f2 + _chunk(b'fdAT', struct.pack('>I', 2) + z2) + _chunk(b'IEND', b''))
    z3 = zlib.compress(b'\0\x18\0\x24')        # indices 0,1,2 / 0,2,1
    try:
        a = decode(anim_hdr + f2 + _chunk(b'fdAT', struct.pack('>I', 2) + z3) + _chunk(b'IEND', b''))
        if len(a.frames) != 2 or [list(r) for r in a.frames[1].rows] != [[0, 1, 2], [0, 2, 1]]:
            problems.append('two-frame APNG misread')
        if len(a.canvases()) != 2:
            problems.append('canvases')
    except PngError as e:
        problems.append('valid two-frame APNG rejected: {}'.format(e))
    bad('fdAT seq', anim_hdr + f2 + _chunk(b'fdAT', struct.pack('>I', 3) + z3) + _chunk(b'IEND', b''))
    bad('fdAT without fcTL', anim_hdr + _chunk(b'fdAT', struct.pack('>I', 1) + z3) + _chunk(b'IEND', b''))
    bad('fcTL without data', anim_hdr + f2 + _chunk(b'IEND', b''))
    bad('frame outside', anim_hdr + _chunk(b'fcTL', struct.pack('>IIIIIHHBB', 1, 3, 2, 7, 1, 1, 100, 0, 0)) +
        _chunk(b'fdAT', struct.pack('>I', 2) + z3) + _chunk(b'IEND', b''))
    return problems
