"""Reference model for C18: annotation documents, the documented brace rules, renderers
(skool file / control file + binary) and independent readers of the three outputs
(ASM text, skool text, entry-page HTML).

Everything here is written from the documentation (skool-files.rst: entry header format,
entry line format, "Braces in comments"; control-files.rst; skool-macros.rst #LIST/#TABLE)
and never imports skoolkit.  Annotations are *token lists*; a token is either a word (str
without white space) or a block:

    ('L', (item, item, ...))            item  = tuple of words        -> #LIST { .. } LIST#
    ('L', (item, item, ...), bullet)    the same with the bullet parameter -> #LIST(,bullet) { .. } LIST#
                                        (bullet None = parameter not given: the list uses the
                                        writer's `bullet` property, default '*')
    ('T', wrap, (row, row, ...))        row   = tuple of cells, cell = tuple of words; the
                                        first word of a cell may be an attribute word
                                        '=r2' / '=c2' / '=h' / '=h,c2' (rowspan, colspan, header);
                                        wrap  = 0: none, 1: last column declared wrappable
                                        (':w'), or a tuple of wrappable column indexes
                                                                       -> #TABLE { a | b } TABLE#
    ('L', items, bullet, flag)          a block may carry the wrap flag 'nowrap' / 'wrapalign' (None: no flag)
    ('T', wrap, rows, flag[, udg])      -> #LIST<nowrap> .., #TABLE(,,:w)<wrapalign> ..; udg true: #UDGTABLE .. UDGTABLE#
                                        (the flag "determines how sna2skool.py will write list items / table rows when
                                        reading from a control file": nowrap = each on a single line, wrapalign = wrapped
                                        with an indent, default = wrapped with no indent; UDGTABLE: control files only)
"""
from html.parser import HTMLParser

# ----------------------------------------------------------------------------- words
W9 = 'nineChars'
W30 = 'thirtyCharacterUnbreakableWord'
assert len(W9) == 9 and len(W30) == 30

LI = '\x01LI'       # structure markers in expected/observed token streams
TD = '\x01TD'
BULLET = '*'


def filler(k):
    return 'f' * k


STYLES = {
    'dense': ('a', 'bb', 'w;x', 'a', 'bb'),
    'mixed': (W9, 'a', W30, 'bb', 'w;x', W9, 'a'),
    'brace': ('{', 'a', '}', 'bb', 'x}', W9, '{', '{', 'a', 'x}'),
}


def sentence(length, style, salt=0):
    """Deterministic sentence of exactly `length` characters (words joined by single
    spaces) over the style's word cycle; the last word may be a filler 'fff..' so that
    every length is reachable."""
    if length <= 0:
        return []
    cyc = STYLES[style]
    i = salt % len(cyc)
    words = []
    used = 0
    while True:
        w = cyc[i % len(cyc)]
        i += 1
        need = len(w) + (1 if words else 0)
        rest = length - used - need
        if rest < 0 or rest == 1:
            break
        words.append(w)
        used += need
        if rest == 0:
            return words
    rest = length - used - (1 if words else 0)
    if rest > 30:           # no word is longer than the 30-character word
        words.append(filler(rest - 29))
        rest = 28
    words.append(filler(rest))
    return words


def text_len(words):
    return sum(len(w) for w in words) + max(len(words) - 1, 0)


def is_block(tok):
    return not isinstance(tok, str)


def render_token(tok):
    """Source (skool/ctl) form of one token."""
    if isinstance(tok, str):
        return [tok]
    flag = '<{}>'.format(block_flag(tok)) if block_flag(tok) else ''
    if tok[0] == 'L':
        out = [('#LIST' if list_bullet_param(tok) is None else '#LIST(,{})'.format(tok[2])) + flag]
    else:
        wrap = tok[1]
        ncols = table_cells(tok)[1]
        wcols = wrap_columns(wrap, ncols)
        name = '#UDGTABLE' if table_is_udg(tok) else '#TABLE'
        out = [name + ('(' + ','.join([''] + [':w' if j in wcols else '' for j in range(ncols)]) + ')' if wcols else '') + flag]
    for row in block_rows(tok):
        out += row
    return out + ['LIST#' if tok[0] == 'L' else 'UDGTABLE#' if table_is_udg(tok) else 'TABLE#']


def block_flag(tok):
    """The wrap flag of a block token (None, 'nowrap' or 'wrapalign')."""
    return tok[3] if len(tok) > 3 else None


def table_is_udg(tok):
    return tok[0] == 'T' and len(tok) > 4 and bool(tok[4])


def block_rows(tok):
    """Source words of every list item / table row of a block token, braces included."""
    out = []
    if tok[0] == 'L':
        for item in tok[1]:
            out.append(['{'] + list(item) + ['}'])
    else:
        for row in tok[2]:
            words = ['{']
            for j, cell in enumerate(row):
                if j:
                    words.append('|')
                words += list(cell)
            out.append(words + ['}'])
    return out


def source_words(tokens):
    out = []
    for t in tokens:
        out += render_token(t)
    return out


def list_bullet_param(tok):
    """The bullet parameter of a list token (None: not given)."""
    return tok[2] if len(tok) > 2 else None


def nowrap_rows(tokens):
    """The texts of the items / rows of the <nowrap> blocks of an annotation (each is written by sna2skool on a
    single line, whatever its length)."""
    out = set()
    for t in tokens:
        if not isinstance(t, str) and block_flag(t) == 'nowrap':
            out.update(' '.join(r) for r in block_rows(t))
    return out


def list_bullet(tok, prop=BULLET):
    """The bullet skool2asm writes before every item of this list ("The bullet character can be
    changed for all lists by ... the bullet property, or ... for a specific list by setting the
    bullet parameter"); prop is the value of the property (default '*'; may be empty)."""
    b = list_bullet_param(tok)
    return prop if b is None else b


def bullets_in(tokens, prop=BULLET):
    """The set of non-empty bullets the lists of an annotation are written with."""
    return set(list_bullet(t, prop) for t in tokens if not isinstance(t, str) and t[0] == 'L') - {''}


def flat_tokens(tokens, mode, bullet=BULLET):
    """Expected token stream of an annotation in the output.
    mode 'asm': list items are introduced by the bullet (the list's own bullet parameter, else
    `bullet` = the writer's bullet property; nothing if that is empty); tables are compared
    separately.  mode 'html': LI / TD markers (the bullet is an ASM-mode matter).  mode 'plain':
    words only (blocks not allowed)."""
    out = []
    for t in tokens:
        if isinstance(t, str):
            out.append(t)
        elif t[0] == 'L':
            for item in t[1]:
                if mode == 'asm':
                    if list_bullet(t, bullet):
                        out.append(list_bullet(t, bullet))
                else:
                    out.append(LI)
                out += list(item)
        else:
            if mode == 'asm':
                out.append(('T', table_columns(t)))
            else:
                for row in t[2]:
                    for cell in row:
                        out.append(TD)
                        out += list(cell_spec(cell)[3])
    return out


def wrap_columns(wrap, ncols):
    if not wrap:
        return ()
    if wrap == 1:
        return (ncols - 1,)
    return tuple(wrap)


def cell_spec(cell):
    """(rowspan, colspan, header, words) of a cell (#TABLE cell attributes: '=' followed by
    comma-separated c<N> / r<N> / h indicators, then the cell text)."""
    rs = cs = 1
    header = False
    words = tuple(cell)
    if words and words[0].startswith('='):
        for ind in words[0][1:].split(','):
            if ind.startswith('r'):
                rs = int(ind[1:])
            elif ind.startswith('c'):
                cs = int(ind[1:])
            elif ind == 'h':
                header = True
        words = words[1:]
    return rs, cs, header, words


def table_cells(tok):
    """Grid placement of the cells of a table token: ([(row, col, rowspan, colspan, header,
    words), ...] in source order, number of columns).  A cell is placed in the first column
    of its row that is not taken by a cell spanning down from an earlier row."""
    taken = set()
    cells = []
    ncols = 0
    for r, row in enumerate(tok[2]):
        c = 0
        for cell in row:
            while (r, c) in taken:
                c += 1
            rs, cs, header, words = cell_spec(cell)
            for dr in range(rs):
                for dc in range(cs):
                    taken.add((r + dr, c + dc))
            cells.append((r, c, rs, cs, header, words))
            c += cs
            ncols = max(ncols, c)
    return cells, ncols


def table_columns(tok):
    """Per column, the words of the cells that *start* in that column, in row order."""
    cells, ncols = table_cells(tok)
    cols = [[] for _ in range(ncols)]
    for r, c, rs, cs, header, words in cells:
        cols[c] += list(words)
    return tuple(tuple(c) for c in cols)


# ----------------------------------------------------------------------------- brace rules
def needs_braces(words, n):
    """An instruction-level comment needs the brace wrapper when it covers more than one
    instruction, or when its rendered text starts with an opening brace."""
    return n > 1 or (bool(words) and words[0].startswith('{'))


def _prefix_balances(words):
    out = []
    c = 0
    for w in words:
        c += w.count('{') - w.count('}')
        out.append(c)
    return out


def brace_wrapper(words, n, general=False):
    """(opening, closing) of the brace wrapper ("Braces in comments").

    general=False: exactly the form sna2skool writes - one opening brace, plus one more per
    unmatched closing brace in the whole text (only the total nesting count is looked at);
    a space protects a text that itself starts with '{' or ends with '}'; as many closing
    braces as are needed to bring the count back to zero.
    general=True: the smallest wrapper the documented rules need for *any* text - enough
    opening braces that the count stays positive after every prefix of the text."""
    if not needs_braces(words, n):
        return '', ''
    pb = _prefix_balances(words) or [0]
    bal = pb[-1]
    if general:
        k = 1 - min(0, min(pb))
    else:
        k = 1 - bal if bal < 0 else 1
    opening = '{' * k
    closing = '}' * max(k + bal, 1)
    if words and words[0].startswith('{'):
        opening += ' '
    if words and words[-1].endswith('}'):
        closing = ' ' + closing
    return opening, closing


def brace_form_allowed(words, n):
    """The documented rule: "the comment terminates on the line where the total number of
    closing braces becomes equal to or greater than the total number of opening braces".
    With sna2skool's wrapper the count is >= 1 after the whole text; a comment that spans
    several instructions is only safe for every possible line split if the count also stays
    >= 1 after every proper prefix of the text - otherwise the group can close early and the
    rest becomes the next instruction's comment.  (Such texts need the general wrapper.)"""
    if n < 2 or not needs_braces(words, n):
        return True
    opening, _ = brace_wrapper(words, n)
    k = opening.count('{')
    return all(k + b > 0 for b in _prefix_balances(words)[:-1])


def strip_group_braces(text):
    """Documented rendering of a comment that starts with '{': adjacent opening braces at
    the start and adjacent closing braces at the end are removed."""
    return text.lstrip('{').rstrip('}')


# ----------------------------------------------------------------------------- instructions
OP3 = ('NOP', 'CCF', 'SCF', 'CPL', 'DAA', 'RLA', 'RRA', 'EXX')
OP3_BYTES = {'NOP': 0x00, 'CCF': 0x3F, 'SCF': 0x37, 'CPL': 0x2F, 'DAA': 0x27, 'RLA': 0x17, 'RRA': 0x1F, 'EXX': 0xD9}
LETTERS = 'abcdefghijklmnopqrstuvwxyzABCDEFGHIJKLMNOPQRSTUVWXYZ'


def make_op(oplen, k):
    """(operation text, bytes, control directive letter) of length `oplen`; k varies it."""
    if oplen == 3:
        op = OP3[k % len(OP3)]
        return op, bytes([OP3_BYTES[op]]), 'C'
    if oplen == 12:
        nn = 12340 + k % 10
        return 'LD A,({})'.format(nn), bytes([0x3A, nn & 255, nn >> 8]), 'C'
    n = oplen - 7       # DEFM "..."
    s = ''.join(LETTERS[(k + i) % len(LETTERS)] for i in range(n))
    return 'DEFM "{}"'.format(s), s.encode(), 'T'


OPLENS = (3, 12, 23, 24, 40)


# ----------------------------------------------------------------------------- documents
class Group:
    __slots__ = ('oplens', 'comment', 'mid', 'layout', 'ops', 'addrs', 'lay')

    def __init__(self, oplens, comment, mid=(), layout='wrap', lay=None):
        self.oplens = tuple(oplens)
        self.comment = list(comment)        # tokens
        self.mid = [list(p) for p in mid if p]      # paragraphs above the first instruction
        self.layout = layout
        self.lay = lay                      # source line layout of the comment (see lay_lines)


class Entry:
    __slots__ = ('tag', 'title', 'desc', 'regs', 'groups', 'end', 'addr', 'lay')

    def __init__(self, tag, title, desc=(), regs=(), groups=(), end=(), lay=None):
        # lay: source line layout (see lay_lines) of the annotations, keyed ('title', 0), ('desc', k), ('reg', k), ('start', k),
        # ('mid', group index, k), ('end', k); annotations without a key are wrapped at the renderer's width
        self.lay = dict(lay or {})
        self.tag = tag                                  # JSON-able description
        self.title = list(title)
        self.desc = [list(p) for p in desc if p]
        self.regs = [(s, p, n, list(d)) for s, p, n, d in regs]     # (style, prefix, name, tokens)
        self.groups = list(groups)
        self.end = [list(p) for p in end if p]


def layout_doc(entries, base=32768):
    """Assign addresses and operations."""
    addr = base
    k = 0
    for e in entries:
        e.addr = addr
        for g in e.groups:
            g.ops = []
            g.addrs = []
            for ol in g.oplens:
                op, data, ctl = make_op(ol, k)
                k += 1
                g.ops.append((op, data, ctl))
                g.addrs.append(addr)
                addr += len(data)
    return addr


def greedy_wrap(words, width):
    lines = []
    cur = ''
    for w in words:
        if not cur:
            cur = w
        elif len(cur) + 1 + len(w) <= width:
            cur += ' ' + w
        else:
            lines.append(cur)
            cur = w
    if cur:
        lines.append(cur)
    return lines


def lay_lines(words, spec, in_width):
    """The source lines of a word sequence.  spec None: greedy wrap at in_width; an int: greedy wrap at that width; a
    sequence of word indexes: a new line starts before each of these words (an explicit layout)."""
    if spec is None or isinstance(spec, int):
        return greedy_wrap(words, in_width if spec is None else spec)
    br = set(spec)
    lines = []
    cur = []
    for i, w in enumerate(words):
        if i in br and cur:
            lines.append(' '.join(cur))
            cur = []
        cur.append(w)
    if cur:
        lines.append(' '.join(cur))
    return lines


def reg_field(style, prefix, name):
    full = (prefix + ':' if prefix else '') + name
    if style == 'delim':
        return '(' + full + ')'
    return full


def group_comment_lines(g, in_width):
    """Per-instruction comment lines of the skool source for one group:
    list (one per instruction) of lists of lines."""
    n = len(g.oplens)
    words = source_words(g.comment)
    # brace counting sees the whole source text, block markup included
    opening, closing = brace_wrapper(words, n, general=not brace_form_allowed(words, n))
    spec = g.lay
    if not needs_braces(words, n):
        lines = lay_lines(words, spec, in_width)
        return [lines]
    body = list(words)
    if body:
        if opening.endswith(' '):
            body = [opening.strip()] + body
            if spec is not None and not isinstance(spec, int):
                spec = [i + 1 for i in spec]        # the opening braces are a word of their own on the first line
        else:
            body[0] = opening + body[0]
    else:
        body = [opening]
    if spec is not None:
        lines = lay_lines(body, spec, in_width)
    elif g.layout == 'first':
        lines = [' '.join(body)]
    elif g.layout == 'each':
        lines = list(body)
    else:
        lines = greedy_wrap(body, in_width)
    per = [[] for _ in range(n)]
    for i, line in enumerate(lines):
        per[min(i, n - 1)].append(line)
    last = per[n - 1]
    if closing.startswith(' '):
        if last and g.layout != 'each':
            last[-1] += closing
        else:
            last.append(closing.strip())
    elif last:
        last[-1] += closing
    else:
        last.append(closing)
    return per


def render_skool(entries, in_width=60, start=True):
    """The skool source file for skool2asm / skool2html."""
    out = []
    if start:
        out.append('@start')
    for ei, e in enumerate(entries):
        if ei:
            out.append('')

        def paras(ps, *kind):
            for i, p in enumerate(ps):
                if i:
                    out.append('; .')
                for line in lay_lines(source_words(p), e.lay.get(kind + (i,)), in_width):
                    out.append('; ' + line)
        for line in lay_lines(source_words(e.title), e.lay.get(('title', 0)), in_width):
            out.append('; ' + line)
        start_c = e.groups[0].mid
        if e.desc or e.regs or start_c:
            out.append(';')
            if e.desc:
                paras(e.desc, 'desc')
            else:
                out.append('; .')
        if e.regs or start_c:
            out.append(';')
            if e.regs:
                for ri, (style, prefix, name, d) in enumerate(e.regs):
                    field = reg_field(style, prefix, name)
                    lines = lay_lines(source_words(d), e.lay.get(('reg', ri)), in_width)
                    out.append(('; ' + field + ' ' + (lines[0] if lines else '')).rstrip())
                    for line in lines[1:]:
                        out.append('; . ' + line)
            else:
                out.append('; .')
        if start_c:
            out.append(';')
            paras(start_c, 'start')
        first = True
        for gi, g in enumerate(e.groups):
            if gi and g.mid:
                paras(g.mid, 'mid', gi)
            per = group_comment_lines(g, in_width)
            for i, (op, data, ctl) in enumerate(g.ops):
                lines = per[i] if i < len(per) else []
                c = 'c' if first else ' '
                first = False
                head = '{}{:05d} {}'.format(c, g.addrs[i], op)
                if lines:
                    out.append(head + ' ; ' + lines[0])
                    for line in lines[1:]:
                        out.append('       ; ' + line)
                else:
                    out.append(head)
        if e.end:
            paras(e.end, 'end')
    return '\n'.join(out) + '\n'


def render_ctl(entries):
    """Control file + binary image (from the first entry's address) for sna2skool."""
    out = []
    data = bytearray()
    for e in entries:
        out.append(('c {} '.format(e.addr) + ' '.join(source_words(e.title))).rstrip())
        for p in e.desc:
            out.append('D {} '.format(e.addr) + ' '.join(source_words(p)))
        for style, prefix, name, d in e.regs:
            out.append(('R {} {} '.format(e.addr, reg_field(style, prefix, name)) + ' '.join(source_words(d))).rstrip())
        for g in e.groups:
            a0 = g.addrs[0]
            for p in g.mid:
                out.append('N {} '.format(a0) + ' '.join(source_words(p)))
            total = sum(len(d) for _, d, _ in g.ops)
            text = ' '.join(source_words(g.comment))
            # consecutive instructions of the same type form one sub-block
            subs = []
            for (op, d, ctl), a in zip(g.ops, g.addrs):
                if subs and subs[-1][0] == ctl and ctl == 'C':
                    subs[-1][2] += len(d)
                else:
                    subs.append([ctl, a, len(d)])
            if len(subs) == 1:
                out.append(('{} {},{} '.format(subs[0][0], a0, total) + text).rstrip())
            else:
                out.append(('M {},{} '.format(a0, total) + text).rstrip())
                for ctl, a, ln in subs:
                    out.append('{} {},{}'.format(ctl, a, ln))
            for _, d, _ in g.ops:
                data += d
        for p in e.end:
            out.append('E {} '.format(e.addr) + ' '.join(source_words(p)))
    end = entries[-1].groups[-1].addrs[-1] + len(entries[-1].groups[-1].ops[-1][1])
    out.append('i {}'.format(end))
    return '\n'.join(out) + '\n', bytes(data)


# ----------------------------------------------------------------------------- readers
class AsmLine:
    __slots__ = ('raw', 'kind', 'op', 'text', 'bad_term')
    # kind: 'c' comment line (column 0 ';'), 'i' instruction, 'k' continuation, 'o' other


def read_asm(out, crlf, indent, tab):
    """Split skool2asm output into entries (blank-line separated lists of AsmLine).
    Returns (entries, problems).  A line that is not terminated by the configured line
    terminator is flagged (bad_term) and then split at the bare LF so that the rest of the
    oracle can still read it."""
    problems = []
    term = '\r\n' if crlf else '\n'
    if out and not out.endswith(term):
        problems.append('output does not end with the configured line terminator')
    pieces = []
    chunks = out.split(term)
    if chunks and chunks[-1] == '':
        chunks.pop()
    for chunk in chunks:
        sub = chunk.split('\n')
        for k, raw in enumerate(sub):
            bad = k < len(sub) - 1 or '\r' in raw
            pieces.append((raw.replace('\r', ''), bad))
    entries = [[]]
    ind = '\t' if tab else ' ' * indent
    for raw, bad in pieces:
        if raw == '':
            if entries[-1]:
                entries.append([])
            continue
        ln = AsmLine()
        ln.raw = raw
        ln.bad_term = bad
        ln.op = ln.text = None
        if raw.startswith(';'):
            ln.kind = 'c'
            ln.text = raw[1:]
        elif raw.startswith(ind):
            body = raw[len(ind):]
            op, sep, text = body.partition(';')
            if body.lstrip().startswith(';'):
                ln.kind = 'k'
                ln.op = ''
                ln.text = text
            else:
                ln.kind = 'i'
                ln.op = op.rstrip()
                ln.text = text if sep else None
        else:
            ln.kind = 'o'
            problems.append('unrecognised line {!r}'.format(raw))
        entries[-1].append(ln)
    if entries and not entries[-1]:
        entries.pop()
    return entries, problems


def split_comment_blocks(lines):
    """Column-0 comment lines -> list of blocks (lists of line texts), separated by bare ';'."""
    blocks = [[]]
    for ln in lines:
        if ln.text.strip() == '':
            blocks.append([])
        else:
            blocks[-1].append(ln.text)
    return blocks


def read_table_lines(texts):
    """ASM table lines -> tuple of per-column word tuples.  The column boundaries are the
    character positions at which any line of the table has a border character ('+' in a
    border line, '|' in a row line); the text between two border characters of a line
    belongs to the column that starts at the left one (a cell spanning several columns
    simply has no border character at the inner boundaries)."""
    bounds = set()
    for t in texts:
        if t.strip().startswith('+'):
            bounds.update(i for i, ch in enumerate(t) if ch == '+')
        bounds.update(i for i, ch in enumerate(t) if ch == '|')
    bounds = sorted(bounds)
    index = {b: k for k, b in enumerate(bounds)}
    cols = [[] for _ in bounds[:-1]] or [[]]
    for t in texts:
        marks = [i for i, ch in enumerate(t) if ch in '|+' and i in index]
        marks.append(len(t))
        for m, nxt in zip(marks, marks[1:]):
            seg = t[m + 1:nxt]
            if seg.strip('-= ') == '':
                continue
            k = index[m]
            while len(cols) <= k:
                cols.append([])
            cols[k] += seg.split()
    return tuple(tuple(c) for c in cols)


def asm_tokens(texts):
    """Token stream of a list of comment line texts: words, with runs of table lines
    collapsed into ('T', columns)."""
    out = []
    run = []
    for t in texts:
        s = t.strip()
        if s.startswith('+-') or s.startswith('+=') or s.startswith('| ') or s == '|':
            run.append(t)
            continue
        if run:
            out.append(('T', read_table_lines(run)))
            run = []
        out += s.split()
    if run:
        out.append(('T', read_table_lines(run)))
    return out


def is_table_line(text):
    s = text.strip()
    return s.startswith('+-') or s.startswith('| ')


# ---- skool text (sna2skool output), by the documented format
class SkoolEntry:
    __slots__ = ('title', 'desc', 'regs', 'start', 'items', 'end', 'lines')


def read_skool(text):
    """Returns (entries, problems).  Entry.items: list of ('mid', paragraphs) and
    ('group', [(addr, op)], words); paragraphs are word lists; regs: list of word lists
    (name field first)."""
    problems = []
    blocks = [[]]
    for line in text.split('\n'):
        if line.strip() == '':
            if blocks[-1]:
                blocks.append([])
        else:
            blocks[-1].append(line)
    if not blocks[-1]:
        blocks.pop()
    entries = []
    for block in blocks:
        e = SkoolEntry()
        e.lines = block
        header = []
        body = []
        seen_instr = False
        for line in block:
            if line.startswith('@'):
                continue
            if line.startswith(';') and not seen_instr:
                header.append(line[1:].strip())
            else:
                seen_instr = True
                body.append(line)
        # header sections
        sections = [[]]
        for h in header:
            if h == '':
                if sections[-1]:
                    sections.append([])
            else:
                sections[-1].append(h)
        while len(sections) < 4:
            sections.append([])
        if len(sections) > 4:
            problems.append('entry header has more than four sections: {!r}'.format(header))

        def paragraphs(lines):
            ps = [[]]
            for l in lines:
                if l == '.':
                    ps.append([])
                else:
                    ps[-1] += l.split()
            return [p for p in ps if p]
        e.title = ' '.join(sections[0]).split()
        e.desc = paragraphs(sections[1])
        e.regs = []
        for l in sections[2]:
            if l == '.':
                continue
            if l.startswith('.') and e.regs:
                e.regs[-1] += l[1:].split()
            else:
                e.regs.append(l.split())
        e.start = paragraphs(sections[3])
        # body: instruction lines, continuation lines, mid-block / end comments
        rows = []       # ('i', addr, op, [comment lines]) | ('c', [lines])
        for line in body:
            if line.startswith(';'):
                if rows and rows[-1][0] == 'c':
                    rows[-1][1].append(line[1:].strip())
                else:
                    rows.append(('c', [line[1:].strip()]))
            elif line[0] in 'bcgistuw* ' and line[1:6].strip().isdigit():
                rest = line[6:]
                op, sep, com = rest.partition(';')
                rows.append(('i', int(line[1:6]), op.strip(), [com.strip()] if sep else []))
            elif line.lstrip().startswith(';') and rows and rows[-1][0] == 'i':
                rows[-1][3].append(line.lstrip()[1:].strip())
            else:
                problems.append('unrecognised skool line {!r}'.format(line))
        e.items = []
        e.end = []
        i = 0
        while i < len(rows):
            r = rows[i]
            if r[0] == 'c':
                ps = paragraphs(r[1])
                if i == len(rows) - 1:
                    e.end = ps
                else:
                    e.items.append(('mid', ps))
                i += 1
                continue
            comment = ' '.join(c for c in r[3] if c)
            members = [(r[1], r[2])]
            if comment.startswith('{'):
                count = comment.count('{') - comment.count('}')
                parts = [comment]
                while count > 0 and i + 1 < len(rows) and rows[i + 1][0] == 'i':
                    i += 1
                    nxt = rows[i]
                    c2 = ' '.join(c for c in nxt[3] if c)
                    parts.append(c2)
                    members.append((nxt[1], nxt[2]))
                    count += c2.count('{') - c2.count('}')
                words = strip_group_braces(' '.join(p for p in parts if p)).split()
            else:
                words = comment.split()
            e.items.append(('group', members, words))
            i += 1
        entries.append(e)
    return entries, problems


# ---- entry-page HTML
class PageReader(HTMLParser):
    """Collects, in document order:
    ('title', tokens) ('desc', tokens) ('reg', 'input'|'output', name tokens, desc tokens)
    ('comments', [tokens, ...]) ('instr', address tokens, op text, comment tokens|None, rowspan)"""

    def __init__(self):
        super().__init__(convert_charrefs=True)
        self.events = []
        self.cap = None         # [kind, tag, depth, textparts]
        self.regtable = None
        self.in_comments = False
        self.row = None
        self.pending_reg = None
        self.rowspan = None

    def _begin(self, kind, tag):
        self.cap = [kind, tag, 1, []]

    def handle_starttag(self, tag, attrs):
        a = dict(attrs)
        cls = a.get('class') or ''
        if self.cap:
            if tag == self.cap[1]:
                self.cap[2] += 1
            if tag in ('td', 'th'):
                self.cap[3].append(' ' + TD + ' ')
            elif tag == 'li':
                self.cap[3].append(' ' + LI + ' ')
            return
        if tag == 'div' and cls == 'description':
            self._begin('title', 'div')
        elif tag == 'div' and cls == 'details':
            self.in_comments = 'desc'
        elif tag == 'div' and cls == 'comments':
            self.in_comments = 'comments'
            self.events.append(('comments', []))
        elif tag == 'div' and cls == 'paragraph' and self.in_comments:
            self._begin('para', 'div')
        elif tag == 'table' and cls in ('input', 'output'):
            self.regtable = cls
        elif tag == 'td' and cls == 'register' and self.regtable:
            self._begin('regname', 'td')
        elif tag == 'td' and cls == 'register-desc' and self.regtable:
            self._begin('regdesc', 'td')
        elif tag == 'td' and cls.startswith('address-'):
            self.row = {'address': None, 'op': None, 'comment': None, 'rowspan': 0}
            self._begin('address', 'td')
        elif tag == 'td' and cls == 'instruction' and self.row is not None:
            self._begin('op', 'td')
        elif tag == 'td' and cls.startswith('comment-') and self.row is not None:
            try:
                self.row['rowspan'] = int(a.get('rowspan') or 0)
            except ValueError:
                self.row['rowspan'] = -1
            self._begin('comment', 'td')

    def handle_endtag(self, tag):
        if self.cap:
            if tag == self.cap[1]:
                self.cap[2] -= 1
                if self.cap[2] == 0:
                    kind, _, _, parts = self.cap
                    self.cap = None
                    self._finish(kind, ''.join(parts))
            return
        if tag == 'div' and self.in_comments:
            self.in_comments = False
        elif tag == 'table' and self.regtable:
            self.regtable = None
        elif tag == 'tr' and self.row is not None:
            r = self.row
            self.row = None
            self.events.append(('instr', r['address'], r['op'], r['comment'], r['rowspan']))

    def handle_data(self, data):
        if self.cap:
            self.cap[3].append(data)

    def _finish(self, kind, text):
        toks = text.split()
        if kind == 'title':
            self.events.append(('title', toks))
        elif kind == 'para':
            if self.in_comments == 'desc':
                self.events.append(('desc', toks))
            else:
                self.events[-1][1].append(toks)
        elif kind == 'regname':
            self.pending_reg = toks
        elif kind == 'regdesc':
            self.events.append(('reg', self.regtable, self.pending_reg, toks))
            self.pending_reg = None
        elif kind == 'address':
            self.row['address'] = toks
        elif kind == 'op':
            self.row['op'] = ' '.join(toks)
        elif kind == 'comment':
            self.row['comment'] = toks


def read_page(html):
    p = PageReader()
    p.feed(html)
    p.close()
    return p.events
