"""Expected pixels of SkoolKit images (reference model for C15).

Written from the documentation only:

* ZX Spectrum display rules: a cell is 8x8 pixels; each graphic byte is one pixel row,
  bit 7 leftmost; a set bit shows INK, a reset bit PAPER; attribute byte = FLASH (bit 7),
  BRIGHT (bit 6), PAPER (bits 5-3), INK (bits 2-0); a flashing cell alternates between
  its normal state and the state with INK and PAPER exchanged.  Display file layout for
  screenshots: address of the byte at pixel row y, column c is
  16384 + 2048*(y div 64) + 32*((y mod 64) div 8) + 256*(y mod 8) + c; attributes at
  22528 + 32*(y div 8) + c.
* skool-macros.rst "Palette": index 0 transparent, 1 black, 2-8 blue..white, 9-15 bright
  blue..bright white (there is no bright black); ref-files.rst "[Colours]": default RGB
  values.
* skool-macros.rst "Masks": the OR-AND and AND-OR truth tables (copied below literally).
* skool-macros.rst "Cropping", the image macros' scale/flip/rotate/tindex/alpha
  parameters, ref-files.rst "[ImageWriter]" (PNGAlpha, PNGEnableAnimation).

Everything is computed per pixel from coordinates (no byte tables, no per-bit-depth
paths), i.e. structurally unlike skoolkit/pngwriter.py.

Convention taken from the macros (DESIGN C15 note): a tile that supplies no mask bytes,
drawn with mask type 1 or 2, behaves as if its mask bytes equalled its graphic bytes.
"""
from operator import itemgetter

# [Colours] defaults, in "Palette" index order
DEFAULT_RGB = (
    (0, 254, 0),        # 0 TRANSPARENT
    (0, 0, 0),          # 1 BLACK
    (0, 0, 197),        # 2 BLUE
    (197, 0, 0),        # 3 RED
    (197, 0, 197),      # 4 MAGENTA
    (0, 198, 0),        # 5 GREEN
    (0, 198, 197),      # 6 CYAN
    (197, 198, 0),      # 7 YELLOW
    (205, 198, 205),    # 8 WHITE
    (0, 0, 255),        # 9 BRIGHT_BLUE
    (255, 0, 0),        # 10 BRIGHT_RED
    (255, 0, 255),      # 11 BRIGHT_MAGENTA
    (0, 255, 0),        # 12 BRIGHT_GREEN
    (0, 255, 255),      # 13 BRIGHT_CYAN
    (255, 255, 0),      # 14 BRIGHT_YELLOW
    (255, 255, 255),    # 15 BRIGHT_WHITE
)

PAPER, INK, TRANS = 'paper', 'ink', 'transparent'

#   U  M   result                      (skool-macros.rst, "Masks")
OR_AND = {(0, 0): PAPER, (0, 1): TRANS, (1, 0): PAPER, (1, 1): INK}
AND_OR = {(0, 0): PAPER, (0, 1): TRANS, (1, 0): INK, (1, 1): INK}


class Tile:
    """One character cell: attribute byte, 8 graphic bytes, optional 8 mask bytes."""
    __slots__ = ('attr', 'data', 'mask')

    def __init__(self, attr, data, mask=None):
        self.attr = attr
        self.data = tuple(data)
        self.mask = None if mask is None else tuple(mask)

    def __repr__(self):
        return 'Tile({:#04x}, {}, {})'.format(self.attr, list(self.data), None if self.mask is None else list(self.mask))


def colour_index(colour, bright):
    """Palette index of Spectrum colour 0-7 at the given brightness."""
    if colour == 0:
        return 1                    # black, bright or not
    return colour + (8 if bright else 1)


def attr_colours(attr):
    """(ink palette index, paper palette index, flashing?)"""
    bright = attr & 0x40
    return colour_index(attr & 7, bright), colour_index((attr >> 3) & 7, bright), bool(attr & 0x80)


def pixel_kind(u, m, mask_type):
    if mask_type == 0:
        return INK if u else PAPER
    if m is None:
        m = u                       # no mask supplied
    return (OR_AND if mask_type == 1 else AND_OR)[(u, m)]


# --------------------------------------------------------------------------- pixel grid
def pixel_grid(tiles):
    """2-D list [y][x] of (U bit, M bit or None, attribute) for a rectangular tile array."""
    width = len(tiles[0])
    for row in tiles:
        if len(row) != width:
            raise ValueError('ragged tile array')
    grid = []
    for trow in tiles:
        for r in range(8):
            line = []
            for t in trow:
                for bit in range(8):
                    u = (t.data[r] >> (7 - bit)) & 1
                    m = None if t.mask is None else (t.mask[r] >> (7 - bit)) & 1
                    line.append((u, m, t.attr))
            grid.append(line)
    return grid


def flip_grid(grid, flip):
    """flip & 1: mirror left-right; flip & 2: mirror top-bottom."""
    if flip & 1:
        grid = [line[::-1] for line in grid]
    if flip & 2:
        grid = grid[::-1]
    return grid


def rotate_grid(grid, rotate):
    """Rotate 90 degrees clockwise `rotate` (mod 4) times: the pixel at (x, y) of an
    image H pixels high moves to (H - 1 - y, x)."""
    for _ in range(rotate & 3):
        h, w = len(grid), len(grid[0])
        new = [[None] * h for _ in range(w)]
        for y in range(h):
            for x in range(w):
                new[x][h - 1 - y] = grid[y][x]
        grid = new
    return grid


def invert_flashing(tiles):
    """sna2img -i: 'Invert video and reset the FLASH bit for cells that are flashing.'"""
    out = []
    for row in tiles:
        out.append([Tile(t.attr & 0x7F, [b ^ 0xFF for b in t.data], t.mask) if t.attr & 0x80 else t for t in row])
    return out


def screen_tiles(mem, x=0, y=0, w=32, h=24, df=16384, af=22528):
    """Tiles of the part of the screen at tile (x, y), at most w x h, clipped to 32x24."""
    tiles = []
    for ty in range(y, min(y + h, 24)):
        row = []
        for tx in range(x, min(x + w, 32)):
            data = []
            for r in range(8):
                py = 8 * ty + r
                data.append(mem[df + 2048 * (py // 64) + 32 * ((py % 64) // 8) + 256 * (py % 8) + tx])
            row.append(Tile(mem[af + 32 * ty + tx], data))
        tiles.append(row)
    return tiles


# --------------------------------------------------------------------------- rendering
def visible_rect(full_w, full_h, crop):
    """(x0, y0, x1, y1) in scaled pixel coordinates: the crop rectangle x,y,width,height
    (width/height None or 0 = as much as there is) clipped to the constructed image; None
    if nothing is left."""
    x, y, w, h = crop
    x1 = full_w if not w else min(x + w, full_w)
    y1 = full_h if not h else min(y + h, full_h)
    if x < 0 or y < 0 or x >= x1 or y >= y1:
        return None
    return (x, y, x1, y1)


def _getter(cols):
    if len(cols) == 1:
        c = cols[0]
        return lambda row: (row[c],)
    return itemgetter(*cols)


class Rendered:
    __slots__ = ('width', 'height', 'rows', 'has_trans', 'flash_rect', 'flash_rows', 'changed')


class Source:
    """A tile array after flip/rotate; renders any scale / crop / mask type."""

    def __init__(self, tiles, flip=0, rotate=0, then=()):
        """flip, then rotate (the order in which the macros and sna2img apply them);
        `then` = further (flip, rotate) pairs applied afterwards in the same way."""
        grid = rotate_grid(flip_grid(pixel_grid(tiles), flip), rotate)
        for f, r in then:
            grid = rotate_grid(flip_grid(grid, f), r)
        self.grid = grid
        self.h = len(self.grid)
        self.w = len(self.grid[0])
        self._codes = {}

    def codes(self, mask_type, phase):
        """Rows (bytes) of palette indices of the unscaled image; phase 1 = flashing
        cells shown with INK and PAPER exchanged.  0 = transparent."""
        key = (mask_type, phase)
        res = self._codes.get(key)
        if res is None:
            res = []
            for line in self.grid:
                out = bytearray()
                for u, m, attr in line:
                    ink, paper, flash = attr_colours(attr)
                    if phase and flash:
                        ink, paper = paper, ink
                    kind = pixel_kind(u, m, mask_type)
                    out.append(ink if kind == INK else paper if kind == PAPER else 0)
                res.append(bytes(out))
            self._codes[key] = res
        return res

    def cells(self):
        """(cell column, cell row, attribute) of every 8x8 cell."""
        for by in range(self.h // 8):
            for bx in range(self.w // 8):
                yield bx, by, self.grid[8 * by][8 * bx][2]

    def render(self, scale, crop, mask_type, flash=True):
        rect = visible_rect(self.w * scale, self.h * scale, crop)
        if rect is None:
            return None
        x0, y0, x1, y1 = rect
        r = Rendered()
        r.width, r.height = x1 - x0, y1 - y0
        src = self.codes(mask_type, 0)
        # output pixel (ox, oy) shows source pixel ((x0 + ox) div scale, (y0 + oy) div scale)
        get = _getter([(x0 + ox) // scale for ox in range(r.width)])
        sys_ = [(y0 + oy) // scale for oy in range(r.height)]
        done = {sy: bytes(get(src[sy])) for sy in set(sys_)}
        r.rows = [done[sy] for sy in sys_]
        r.has_trans = any(0 in row for row in done.values())
        r.flash_rect = r.flash_rows = None
        r.changed = False
        if flash:
            self._flash(r, scale, rect, mask_type, src)
        return r

    def _flash(self, r, scale, rect, mask_type, src):
        x0, y0, x1, y1 = rect
        cell = 8 * scale
        box = None
        for bx, by, attr in self.cells():
            ink, paper, flashing = attr_colours(attr)
            if not flashing or ink == paper:
                continue
            # visible part of the cell, output coordinates
            ax0, ay0 = max(bx * cell, x0), max(by * cell, y0)
            ax1, ay1 = min((bx + 1) * cell, x1), min((by + 1) * cell, y1)
            if ax0 >= ax1 or ay0 >= ay1:
                continue
            # does it show anything that is not transparent?
            sx0, sx1 = ax0 // scale, (ax1 - 1) // scale + 1
            shows = False
            for sy in range(ay0 // scale, (ay1 - 1) // scale + 1):
                seg = src[sy][sx0:sx1]
                if seg.count(0) != len(seg):
                    shows = True
                    break
            if not shows:
                continue
            if box is None:
                box = [ax0, ay0, ax1, ay1]
            else:
                box = [min(box[0], ax0), min(box[1], ay0), max(box[2], ax1), max(box[3], ay1)]
        if box is None:
            return
        r.changed = True
        fx, fy, fw, fh = box[0] - x0, box[1] - y0, box[2] - box[0], box[3] - box[1]
        r.flash_rect = (fx, fy, fw, fh)
        src2 = self.codes(mask_type, 1)
        get = _getter([(box[0] + ox) // scale for ox in range(fw)])
        sys_ = [(box[1] + oy) // scale for oy in range(fh)]
        done = {sy: bytes(get(src2[sy])) for sy in set(sys_)}
        r.flash_rows = [done[sy] for sy in sys_]

    def render_phase1(self, scale, crop, mask_type):
        """The whole visible image with flashing cells exchanged (used when the file's
        second frame does not have the expected rectangle)."""
        x0, y0, x1, y1 = visible_rect(self.w * scale, self.h * scale, crop)
        src2 = self.codes(mask_type, 1)
        get = _getter([(x0 + ox) // scale for ox in range(x1 - x0)])
        return [bytes(get(src2[(y0 + oy) // scale])) for oy in range(y1 - y0)]


def rgba_table(mask_transparency, tindex, alpha, default_alpha=255, colours=DEFAULT_RGB):
    """RGBA of palette indices 0-15.

    alpha: the macro's alpha parameter; negative = use PNGAlpha (`default_alpha`).
    Index 0 (what a mask makes transparent) has the TRANSPARENT colour and that alpha.
    'The palette entry specified by tindex, if not 0, will be used as the transparent
    colour only if the image does not already contain any transparent bits produced by a
    mask.'"""
    a = default_alpha if alpha < 0 else alpha
    table = [tuple(c) + (255,) for c in colours]
    table[0] = tuple(colours[0]) + (a,)
    if not mask_transparency and 0 < tindex < 16:
        table[tindex] = tuple(colours[tindex]) + (a,)
    return table
