"""macroast - an AST for the SMPL skool-macro subset, with a renderer and a reference evaluator.

Written from sphinx/source/skool-macros.rst only.  Two entry points:

    render(ast, style, ...) -> macro *text*, in any legal bracket / delimiter / keyword style
    Evaluator(state, mode).text(ast) -> the documented expansion of that AST

The oracle never parses macro text: the expected expansion is computed from the AST the
text was rendered from, by structural recursion (no regular expressions over macro
text, no string rescanning, no Python eval).  This is deliberately a different shape from
skoolmacro.expand_macros, which is a leftmost-first textual rewriting loop.

AST (all nodes are tuples so that they survive JSON via tuplify()):

  integer expressions
    ('num', value, fmt)        fmt 'd' (decimal) or 'h' ($FF)
    ('fld', name)              replacement field {name} holding an integer variable
    ('fldk', name, key)        {name[key]}  (dictionary variable, or mode/vars dictionaries)
    ('bin', op, left, right)   one of the 19 documented operators
    ('lv', name)               loop variable of an enclosing #FOR/#FOREACH (textual)
    ('arg', name, form)        argument placeholder in a #DEF body: form 0 $a, 1 ${a}, 2 {a}
    ('strb',)                  the $b placeholder of #STR's end expression
    ('imac', macro)            a macro whose expansion is an integer literal

  strings = tuples of parts
    ('lit', text) | ('lv', name) | ('arg', name, form[, spec]) | macro node

  macro nodes (see the _r_* / _e_* function pairs below for the parameter lists)
    EVAL N IF MAP FOR FOREACH FOREACHP WHILE FORMAT CHR STR SPACE PC PEEK
    LET LETD LETK POKES PUSHS POPS DEF CALL HASH

Styles.  Every macro has up to one integer-parameter slot and up to two string-group
slots; render() numbers the slots in rendering order and looks each one up in `style`
(dict slot -> choice, default 0).  slots() lists the slots of an AST.  A choice that is
not legal for a slot (per the documentation's rules on balanced brackets, separators and
bare integers) raises Illegal, so enumerating "every legal style" is: try every choice,
skip Illegal.

Where the documentation leaves a result open, the evaluator raises Undefined and the
caller excludes the case from the space (and counts it); see c17.py meta['assumptions'].
"""
import html as _html

# ------------------------------------------------------------------------------ errors


class Illegal(Exception):
    """This style choice would not be a legal way of writing this AST."""


class Undefined(Exception):
    """The documentation does not fix the result of this AST in this state."""


class Truth:
    """Result of && / ||: only its truth value is documented."""
    __slots__ = ('truth',)

    def __init__(self, truth):
        self.truth = bool(truth)

    def __bool__(self):
        return self.truth


def tuplify(x):
    if isinstance(x, (list, tuple)):
        return tuple(tuplify(i) for i in x)
    return x


def lit(text):
    return (('lit', text),) if text else ()


def S(*parts):
    """Build a string (tuple of parts) from str / node arguments."""
    out = []
    for p in parts:
        if isinstance(p, str):
            if p:
                out.append(('lit', p))
        elif p and isinstance(p[0], tuple):
            out.extend(p)
        elif p:
            out.append(p)
    return tuple(out)


def num(v, fmt='d'):
    return ('num', v, fmt)


MACROS = ('EVAL', 'N', 'IF', 'MAP', 'FOR', 'FOREACH', 'FOREACHP', 'WHILE', 'FORMAT', 'CHR', 'STR', 'SPACE', 'PC',
          'PEEK', 'LET', 'LETD', 'LETK', 'POKES', 'PUSHS', 'POPS', 'DEF', 'CALL', 'HASH')
NAMES = {'FOREACHP': 'FOREACH', 'LETD': 'LET', 'LETK': 'LET'}

OPS = ('+', '-', '*', '/', '%', '**', '&', '|', '^', '>>', '<<', '&&', '||', '==', '!=', '>', '<', '>=', '<=')

# Precedence on which conventional arithmetic, C and Python agree (higher binds tighter).
# Comparison operators get level None: relative to the bitwise operators and to each other
# (chains) the three conventions differ and the documentation is silent, so those
# combinations are always written with parentheses.
_LEVEL = {'**': 9, '*': 8, '/': 8, '%': 8, '+': 7, '-': 7, '<<': 6, '>>': 6, '&': 5, '^': 4, '|': 3, '&&': 2, '||': 1}
_CMP = ('==', '!=', '>', '<', '>=', '<=')
_BITWISE = ('&', '^', '|')
MAX_BITS = 1024


def needs_parens(parent, child, side):
    """Must `child` (a binary operator) be parenthesised as the `side` operand of `parent`?"""
    if child in _CMP:
        if parent in ('&&', '||'):
            return False
        return True
    if parent in _CMP:
        if child in _BITWISE or child in ('&&', '||'):
            return True
        return False
    lp, lc = _LEVEL[parent], _LEVEL[child]
    if lc > lp:
        return False
    if lc == lp and side == 0 and parent != '**':
        return False
    return True


# ------------------------------------------------------------------------------ rendering
# Followers.  A parameter list written without parentheses ("bare": #EVAL5, #N15,4) or a
# macro without parameters (#PC) ends wherever the next character stops looking like part
# of it, so whether such a form is legal depends on what follows the macro *at expansion
# time*.  Expansion is leftmost-first and a macro's result is spliced back into the text,
# so the follower of a macro that ends a string parameter is the follower of the macro
# that returns that parameter.  The renderer threads this "follow" set (tuple of
# characters, '' = end of text, None = unknown) through the recursion and rejects
# (Illegal) a bare form that could be extended by a follower.
BARE_UNSAFE = frozenset('0123456789abcdefABCDEF$')     # would extend a bare integer
NAME_UNSAFE = frozenset('ABCDEFGHIJKLMNOPQRSTUVWXYZ')  # would extend a macro name
SAFE = ('~',)
_DRY = [False]


def _ill(msg):
    """Reject this style choice (not in a dry pass, which only lists the slots)."""
    if not _DRY[0]:
        raise Illegal(msg)

# multi-string styles: (open, separator, close); single-string styles: (open, close)
MULTI = (('(', ',', ')'), ('[', ',', ']'), ('{', ',', '}'), ('//', '/', '//'), ('|;', ';', ';|'), ('! ', ' ', ' !'))
SINGLE = (('(', ')'), ('[', ']'), ('{', '}'), ('/', '/'), ('|', '|'), ('!', '!'))
N_ISTYLES = 6     # 0 (a,b)  1 a,b  2 (a,b) minimal inner parentheses  3 ( a + b,c ) spaced  4 spaced+minimal  5 defaults spelt out
N_SSTYLES = 6


def _balanced(text, o, c):
    depth = 0
    for ch in text:
        if ch == o:
            depth += 1
        elif ch == c:
            depth -= 1
            if depth < 0:
                return False
    return depth == 0


def _top_level_comma(text):
    depth = 0
    for ch in text:
        if ch == '(':
            depth += 1
        elif ch == ')':
            depth -= 1
        elif ch == ',' and depth == 0:
            return True
    return False


def _first(parts):
    """First character of the rendering of a string ('' if empty)."""
    if not parts:
        return ''
    p = parts[0]
    if p[0] == 'lit':
        return p[1][0] if p[1] else _first(parts[1:])
    if p[0] == 'lv':
        return '0'          # a number or arbitrary text: treat as the worst case
    if p[0] == 'arg':
        return '$' if p[2] < 2 else '{'
    return '#'


def _unsafe(follow, chars):
    """Could any possible follower be one of `chars`?"""
    if follow is None:
        return True
    for f in follow:
        if f is None or (f and f in chars):
            return True
    return False


def _count_lv(x, var):
    n = 0
    if isinstance(x, tuple):
        if len(x) == 2 and x[0] == 'lv' and x[1] == var:
            return 1
        for i in x:
            n += _count_lv(i, var)
    return n


def _has(x, kinds):
    if isinstance(x, tuple) and x:
        if isinstance(x[0], str) and x[0] in kinds:
            return True
        return any(_has(i, kinds) for i in x)
    return False


def _has_arg(x, names):
    if isinstance(x, tuple) and x:
        if x[0] == 'arg' and len(x) > 1 and x[1] in names:
            return True
        return any(_has_arg(i, names) for i in x)
    return False


def _lv_followers(body, var, bf):
    """Followers of the occurrences of a loop variable at the top level of a loop body."""
    if bf is None:
        return None
    out = set()
    seen = 0
    for i, p in enumerate(body):
        if p[0] == 'lv' and p[1] == var:
            seen += 1
            if i + 1 < len(body):
                out.add(_first(body[i + 1:]))
            else:
                out.update(bf)
    if seen != _count_lv(body, var):
        return None           # occurrences nested inside other macros: follower not tracked
    return tuple(sorted(out))


class _R:
    """One rendering pass."""

    def __init__(self, style, defs):
        self.style = style or {}
        self.defs = dict(defs or {})  # name -> DEF node (a CALL is rendered against its definition)
        self.nslot = 0
        self.slots = []               # (kind, nchoices)
        self.last_texts = []
        self.notes = set()            # features of the rendered text (for known-finding matchers)
        self.level = 0                # nesting level of string groups
        self.sargs = ()               # string parameters of the #DEF body being rendered

    def pick(self, kind, n):
        i = self.nslot
        self.nslot += 1
        self.slots.append((kind, n))
        c = self.style.get(i)
        if c is None:
            pat = self.style.get('L' + kind)          # choice by nesting level of the string group
            if pat:
                c = pat[min(self.level, len(pat) - 1)]
            else:
                c = self.style.get('*' + kind, 0)
            if c >= n:
                c = 0
        if not 0 <= c < n:
            _ill('no such choice')
            c = 0
        return c

    # ---------------------------------------------------------------- expressions
    def expr(self, e, minimal, spaced, nxt):
        """nxt: the character that follows this (sub)expression in the parameter string."""
        k = e[0]
        if k == 'num':
            return str(e[1]) if e[2] == 'd' else '${:X}'.format(e[1])
        if k == 'fld':
            return '{' + e[1] + '}'
        if k == 'fldk':
            return '{%s[%s]}' % (e[1], e[2])
        if k == 'lv':
            return e[1]
        if k == 'arg':
            return ('$' + e[1], '${' + e[1] + '}', '{' + e[1] + '}')[e[2]]
        if k == 'strb':
            return '$b'
        if k == 'imac':
            return self.macro(e[1], (nxt,))
        if k == 'bin':
            op = e[1]
            lp = e[2][0] == 'bin' and (not minimal or needs_parens(op, e[2][1], 0))
            rp = e[3][0] == 'bin' and (not minimal or needs_parens(op, e[3][1], 1))
            after_left = ' ' if spaced else op[0]
            lt = self.expr(e[2], minimal, spaced, ')' if lp else after_left)
            rt = self.expr(e[3], minimal, spaced, ')' if rp else nxt)
            if lp:
                lt = '(' + lt + ')'
            if rp:
                rt = '(' + rt + ')'
            if spaced:
                return '{} {} {}'.format(lt, op, rt)
            return lt + op + rt
        raise ValueError(e)

    def ints(self, params, defaults=None, maxn=None, follow=SAFE, extra_unsafe='', kw=None):
        """Integer parameter list.  params: exprs, None = left at its default.  defaults: the
        documented default values of the optional parameters (None where the default is not a
        number).  follow: what can follow the list at expansion time."""
        params = list(params)
        kw = list(kw) if kw else None
        while params and params[-1] is None:
            params.pop()
            if kw:
                kw.pop()
        maxn = maxn or len(params)
        choice = self.pick('i', N_ISTYLES)
        names = kw or [None] * len(params)
        if choice == 5:
            if defaults is None or kw:
                _ill('no defaults to spell out')
            nreq = maxn - len(defaults)
            full = params + [None] * (maxn - len(params))
            for i in range(maxn):
                if full[i] is None:
                    d = defaults[i - nreq] if i >= nreq else None
                    if d is None:
                        _ill('default is not a number')
                    full[i] = num(d) if d >= 0 else ('bin', '-', num(0), num(-d))
            if full == params:
                _ill('same as style 0')
            params = full
            names = [None] * len(params)
        if not params:
            if choice == 0:
                return ''
            _ill('no parameters to style')
        if choice == 1:
            # bare: literal integers only (and textual placeholders that become integers)
            out = []
            for p, name in zip(params, names):
                if p is None:
                    out.append('')
                    continue
                if p[0] not in ('num', 'lv', 'arg') or (p[0] == 'arg' and p[2] == 2):
                    _ill('bare form needs literal integers')
                out.append((name + '=' if name else '') + self.expr(p, False, False, ''))
            bad = set(BARE_UNSAFE) | set(extra_unsafe)
            if len(params) < maxn:
                bad.add(',')
            if _unsafe(follow, bad):
                _ill('bare integer followed by a character that would extend it')
            return ','.join(out)
        minimal = choice in (2, 4)
        spaced = choice in (3, 4)
        out = []
        for i, (p, name) in enumerate(zip(params, names)):
            if p is None:
                out.append('')
                continue
            nxt = ',' if i + 1 < len(params) else (' ' if spaced else '')
            t = self.expr(p, minimal, spaced, nxt)
            out.append((name + '=' if name else '') + t)
        inner = ','.join(out)
        if minimal and not any(_has(p, ('bin',)) and any(_has(c, ('bin',)) for c in p[2:]) for p in params if p):
            _ill('same as the fully parenthesised form')
        if spaced:
            if not _has(tuple(p for p in params if p), ('bin',)):
                _ill('nothing to space out')
            inner = ' ' + inner + ' '
        if not _balanced(inner, '(', ')'):
            _ill('unbalanced parentheses in an integer parameter')
        return '(' + inner + ')'

    # ---------------------------------------------------------------- strings
    def string(self, parts, follow=('',)):
        """Render a string.  follow: possible followers of the whole string at expansion time."""
        out = []
        n = len(parts)
        for i, p in enumerate(parts):
            k = p[0]
            if k == 'lit':
                out.append(p[1])
            elif k == 'lv':
                out.append(p[1])
            elif k == 'arg':
                if len(p) > 3 and p[3]:
                    if p[2] != 2:
                        _ill('format spec needs a replacement field')
                    out.append('{' + p[1] + ':' + p[3] + '}')
                else:
                    out.append(('$' + p[1], '${' + p[1] + '}', '{' + p[1] + '}')[p[2]])
                if p[2] == 0 and i + 1 < n:
                    f = _first(parts[i + 1:])
                    if f and (f.isalnum() or f == '_'):
                        _ill('$name followed by an identifier character')
            else:
                f = follow
                if i + 1 < n:
                    nf = _first(parts[i + 1:])
                    f = (nf,) if nf else follow
                out.append(self.macro(p, f))
        return ''.join(out)

    def strgroup(self, strs, follows, flat=False, single=False):
        """One string-parameter group.  follows: per-parameter follower sets.  flat: the group is
        part of text that is expanded before the macro is parsed (#(...)), so the follower of a
        parameter is simply the next delimiter character."""
        if single:
            choice = self.pick('s', N_SSTYLES)
            o, c = SINGLE[choice]
            self.level += 1
            try:
                t = self.string(strs[0], (c[0],) if flat else follows[0])
            finally:
                self.level -= 1
            if choice < 3:
                if not _balanced(t, o, c):
                    _ill('unbalanced brackets')
            elif o in _html.escape(t):
                _ill('delimiter occurs in text')
            self.last_texts = [t]
            return o + t + c
        choice = self.pick('m', N_SSTYLES)
        o, s, c = MULTI[choice]
        texts = []
        self.level += 1
        try:
            for j, st in enumerate(strs):
                if flat:
                    f = (s[0],) if j + 1 < len(strs) else (c[0],)
                else:
                    f = follows[j]
                texts.append(self.string(st, f))
        finally:
            self.level -= 1
        if choice >= 3 and self.sargs and any(_has_arg(st, self.sargs) for st in strs):
            _ill('a string argument is substituted into this group later: its text is not known here')
        if choice < 3:
            for t in texts:
                if _top_level_comma(t) or not _balanced(t, '(', ')'):
                    _ill('comma outside parentheses / unbalanced parentheses in a parameter')
            if not _balanced(s.join(texts), o, c):
                _ill('unbalanced brackets')
        else:
            d = o[0]
            if not texts:
                _ill('no parameters')
            for t in texts:
                # "must not be '&', '<' or '>'": in HTML mode the parameters are seen in their
                # HTML-escaped form, so the characters of &amp; &lt; &gt; count as occurring too
                te = _html.escape(t)
                if d in te or s in te:
                    _ill('delimiter or separator occurs in a parameter')
                if not t and d == s:
                    _ill('empty parameter is ambiguous when delimiter == separator')
        self.last_texts = texts
        return o + s.join(texts) + c

    def single_text(self, text):
        """Raw text as a single string parameter."""
        choice = self.pick('s', N_SSTYLES)
        o, c = SINGLE[choice]
        if choice < 3:
            if not _balanced(text, o, c):
                _ill('unbalanced brackets')
        elif o in _html.escape(text):
            _ill('delimiter occurs in text')
        return o + text + c

    # ---------------------------------------------------------------- macros
    def macro(self, m, follow=('',), flat=False):
        k = m[0]
        if k == 'HASH':
            return self._r_HASH(m, follow)
        return '#' + (m[1] if k == 'CALL' else NAMES.get(k, k)) + getattr(self, '_r_' + k)(m, follow, flat)

    def _name_end(self, follow, extra=''):
        if _unsafe(follow, set(NAME_UNSAFE) | set(extra)):
            _ill('macro name followed by a character that would extend it')
        return ''

    def _r_EVAL(self, m, follow, flat):
        return self.ints(m[1:4], (10, 1), 3, follow)

    def _r_PEEK(self, m, follow, flat):
        return self.ints(m[1:2], (), 1, follow)

    def _r_CHR(self, m, follow, flat):
        return self.ints(m[1:3], (0,), 2, follow)

    def _r_PC(self, m, follow, flat):
        return self._name_end(follow)

    def _r_POPS(self, m, follow, flat):
        return self._name_end(follow)

    def _r_PUSHS(self, m, follow, flat):
        return m[1] + self._name_end(follow, 'abcdefghijklmnopqrstuvwxyz0123456789$#')

    def _r_SPACE(self, m, follow, flat):
        if m[1] is None:
            self.pick('i', 1)
            if m[2]:
                return '()'
            return self._name_end(follow, '0123456789$(')
        return self.ints(m[1:2], (1,), 1, follow)

    def _r_N(self, m, follow, flat):
        value, hwidth, dwidth, affix, tohex, prefix, suffix = m[1:8]
        has_strs = prefix is not None
        t = self.ints([value, hwidth, dwidth, affix, tohex], (None, 1, 0, 0), 5, SAFE if has_strs else follow)
        if has_strs:
            strs = [prefix] + ([suffix] if suffix is not None else [])
            t += self.strgroup(strs, [('',)] * len(strs), flat)
        return t

    def _r_IF(self, m, follow, flat):
        t = self.ints(m[1:2], (), 1)
        strs = [m[2]] + ([m[3]] if m[3] is not None else [])
        return t + self.strgroup(strs, [follow] * len(strs), flat)

    def _r_MAP(self, m, follow, flat):
        t = self.ints(m[1:2], (), 1)
        strs = [m[2]]
        for kexp, v in m[3]:
            if _has(kexp, ('imac',)) and not flat:
                _ill('macros in #MAP keys need #()')
            strs.append(S(self.expr(kexp, False, False, ':') + ':', v))
        return t + self.strgroup(strs, [follow] * len(strs), flat)

    def _loop_follow(self, body, sep_first, follow):
        """Followers of one copy of a loop body: a separator, the next copy, or whatever follows
        the loop."""
        if follow is None:
            return None
        fs = set(follow)
        for s in sep_first:
            fs.add(s if s else _first(body))
        return tuple(sorted(fs))

    def _loop_strs(self, var, body, sep, fsep):
        strs = [lit(var), body]
        if sep is not None or fsep is not None:
            strs.append(sep if sep is not None else ())
        if fsep is not None:
            strs.append(fsep)
        return strs

    def _r_FOR(self, m, follow, flat):
        start, stop, step, flags, var, body, sep, fsep = m[1:9]
        t = self.ints([start, stop, step, flags], (1, 0), 4)
        fl = flags[1] if flags is not None and flags[0] == 'num' else (0 if flags is None else 3)
        stext = _R(None, self.defs).string(sep, ('',)) if sep else ''
        sfirst = [',' if fl & 1 else stext[0] if stext else ',' if fl & 2 else '']
        if fsep is not None:
            ft = _R(None, self.defs).string(fsep, ('',)) if fsep else ''
            sfirst.append(ft[0] if ft else '')
        bf = self._loop_follow(body, sfirst, follow)
        strs = self._loop_strs(var, body, sep, fsep)
        g = self.strgroup(strs, [('',), bf, ('',), ('',)][:len(strs)], flat)
        self._check_var(var, body, self.last_texts)
        self._note_special(self.last_texts[2:], 'loop_separator_has_html_special')
        if fl & 4 and sep and var in self.last_texts[2]:
            raise Undefined('which value replaces the variable in a separator is not documented')
        return t + g

    def _check_var(self, var, body, texts):
        """The loop variable is substituted textually: it must occur in the rendered body
        exactly where the AST has a loop-variable node."""
        if texts[0] != var or texts[1].count(var) != _count_lv(body, var):
            _ill('loop variable name occurs in the body text')

    def _r_FOREACH(self, m, follow, flat):
        values, var, body, sep, fsep = m[1:6]
        stext = _R(None, self.defs).string(sep, ('',)) if sep else ''
        sfirst = [stext[0] if stext else '']
        if fsep is not None:
            ft = _R(None, self.defs).string(fsep, ('',)) if fsep else ''
            sfirst.append(ft[0] if ft else '')
        bf = self._loop_follow(body, sfirst, follow)
        # values are substituted for the variable: their followers are those of the variable's
        # occurrences in the body
        vf = _lv_followers(body, var, bf)
        if values:
            g1 = self.strgroup(list(values), [vf] * len(values), flat)
            if len(values) == 1 and self.last_texts[0].startswith(('EREF', 'REF', 'ENTRY', 'POKE')):
                _ill('special variable name')
            self._note_special(self.last_texts, 'foreach_value_has_html_special')
        else:
            o, s, c = MULTI[self.pick('m', 3)]
            g1 = o[0] + c[-1]
        strs = self._loop_strs(var, body, sep, fsep)
        g2 = self.strgroup(strs, [('',), bf, ('',), ('',)][:len(strs)], flat)
        self._check_var(var, body, self.last_texts)
        self._note_special(self.last_texts[2:], 'loop_separator_has_html_special')
        return g1 + g2

    def _note_special(self, texts, note):
        if any(c in t for t in texts for c in '&<>'):
            self.notes.add(note)

    def _r_FOREACHP(self, m, follow, flat):
        name, var, body, sep, fsep = m[1:6]
        g1 = self.strgroup([lit('POKE' + name)], [('',)], flat)
        strs = self._loop_strs(var, body, sep, fsep)
        g2 = self.strgroup(strs, [('',), None, ('',), ('',)][:len(strs)], flat)
        self._check_var(var, body, self.last_texts)
        self._note_special(self.last_texts[2:], 'loop_separator_has_html_special')
        return g1 + g2

    def _paren_expr(self, e):
        choice = self.pick('i', 5)
        if choice == 1:
            _ill('parentheses are required here')
        minimal, spaced = choice in (2, 4), choice in (3, 4)
        t = self.expr(e, minimal, spaced, '')
        if minimal and not (e[0] == 'bin' and any(_has(c, ('bin',)) for c in e[2:])):
            _ill('same as the fully parenthesised form')
        if spaced and not _has(e, ('bin',)):
            _ill('nothing to space out')
        return t

    def _r_WHILE(self, m, follow, flat):
        t = '(' + self._paren_expr(m[1]) + ')'
        if not _balanced(t[1:-1], '(', ')'):
            _ill('unbalanced')
        # each iteration's body is expanded on its own
        return t + self.strgroup([m[2]], [('',)], flat, single=True)

    def _r_FORMAT(self, m, follow, flat):
        case, parts = m[1], m[2]
        it = self.ints([case], (0,), 1)
        out = []
        n = len(parts)
        for i, p in enumerate(parts):
            if p[0] == 'lit':
                out.append(p[1].replace('{', '{{').replace('}', '}}'))
            elif p[0] == 'ff':
                t = p[1]
                if p[2] is not None:
                    t += '[%s]' % p[2]
                if p[3]:
                    t += ':' + p[3]
                out.append('{' + t + '}')
            elif p[0] in ('lv', 'arg'):
                out.append(self.string((p,)))
            else:
                if i + 1 < n:
                    f = ('{',) if parts[i + 1][0] == 'ff' else (_first(parts[i + 1:]),)
                else:
                    f = follow
                self.level += 1
                try:
                    mt = self.macro(p, f)
                finally:
                    self.level -= 1
                if '{' in mt or '}' in mt:
                    _ill('braces of a nested macro would be read as a replacement field')
                out.append(mt)
        text = ''.join(out)
        choice = self.pick('s', N_SSTYLES)
        o, c = SINGLE[choice]
        if choice == 0 and it == '':
            # "if text could be read as an integer parameter, case should be explicitly specified"
            if not parts or parts[0][0] != 'lit' or parts[0][1][0] not in 'ghijklmnopqrstuvwxyzGHIJKLMNOPQRSTUVWXYZ_':
                _ill('text could be read as an integer parameter')
        if choice < 3:
            if not _balanced(text, o, c):
                _ill('unbalanced brackets')
        elif o in text:
            _ill('delimiter occurs in text')
        return it + o + text + c

    def _r_STR(self, m, follow, flat):
        addr, flags, length, endexpr = m[1:5]
        t = self.ints([addr, flags, length], (0, -1), 3, SAFE if endexpr is not None else follow)
        if endexpr is not None:
            e = self.expr(endexpr, False, False, '')
            if not _balanced(e, '(', ')'):
                _ill('unbalanced')
            t += '(' + e + ')'
        return t

    def _r_LET(self, m, follow, flat):
        name, value = m[1], m[2]
        if name.endswith('$'):
            self.level += 1
            try:
                vt = self.string(value, ('',))       # the value is expanded on its own
            finally:
                self.level -= 1
        else:
            vt = self._paren_expr(value)
        return self.single_text(name + '=' + vt)

    def _dval(self, name, v):
        if name.endswith('$'):
            t = self.string(v, ('',))
            if '#' in t:
                _ill('no macros in dictionary values')
            return t
        if _has(v, ('imac',)):
            _ill('no macros in dictionary values')
        return self.expr(v, False, False, '')

    def _r_LETD(self, m, follow, flat):
        name, default, pairs = m[1:4]
        strs = [lit(self._dval(name, default))]
        for k, v in pairs:
            if _has(k, ('imac',)):
                _ill('no macros in dictionary keys')
            kt = self.expr(k, False, False, ':')
            strs.append(lit(kt) if v is None else lit(kt + ':' + self._dval(name, v)))
        g = self.strgroup(strs, [('',)] * len(strs))
        if '{' in g:
            _ill('braces in a #LET value are replacement fields')
        return self.single_text(name + '[]=' + g)

    def _r_LETK(self, m, follow, flat):
        name, key, value = m[1:4]
        kt = self.expr(key, False, False, '')
        if ']' in kt:
            _ill('bracket in key')
        vt = self.string(value, ('',)) if name.endswith('$') else self._paren_expr(value)
        return self.single_text('{}[{}]={}'.format(name, kt, vt))

    def _r_POKES(self, m, follow, flat):
        out = []
        groups = m[1]
        for j, g in enumerate(groups):
            last = j + 1 == len(groups)
            out.append(self.ints(list(g), (1, 1), 4, follow if last else SAFE, extra_unsafe=';' if last else ''))
        return ';'.join(out)

    def _r_DEF(self, m, follow, flat):
        flags, name, iparams, sparams, body = m[1:6]
        fl = flags[1] if flags is not None else 0
        it = self.ints([flags], (0,), 1)
        sig = '#' + name
        if iparams or sparams is not None:
            sig += '(' + ','.join(n if d is None else '{}={}'.format(n, d) for n, d in iparams) + ')'
        if sparams is not None:
            items = []
            for n, d in sparams:
                if d is None:
                    items.append(n)
                else:
                    dt = self.string(d, None)
                    if _top_level_comma(dt) or not _balanced(dt, '(', ')') or dt != dt.strip() or '=' in dt:
                        _ill('default value')
                    items.append(n + '=' + dt)
            sig += '(' + ','.join(items) + ')'
        # the body is spliced in at every call site: its end has an unknown follower, unless
        # bit 1 of flags makes the defined macro expand on its own
        self.level += 1
        self.sargs = tuple(n for n, _ in (sparams or ()))
        try:
            bt = self.string(body, ('',) if fl & 2 else None)
        finally:
            self.level -= 1
            self.sargs = ()
        if bt != bt.strip() or bt.startswith('(') or not bt:
            _ill('body edge')
        if fl & 1 == 0 and '$$' in bt:
            _ill('$$')
        if fl & 1:
            # every brace must belong to an argument field
            names = [n for n, _ in iparams] + [n for n, _ in (sparams or ())]
            rest = bt
            for n in names:
                rest = _remove_fields(rest, n)
            if '{' in rest or '}' in rest:
                _ill('unescaped brace in a replacement-field body')
        self.defs[name] = m         # later calls in the same text are rendered against this definition
        return it + self.single_text(sig + ' ' + bt)

    def _r_CALL(self, m, follow, flat):
        name, iargs, sargs = m[1:4]
        d = self.defs.get(name)
        if d is None:
            raise Illegal('call of an undefined macro')
        iparams, sparams = d[3], d[4]
        all_opt = sparams is not None and all(dv is not None for _, dv in sparams)
        if sargs is not None and sparams is None:
            _ill('no string parameters')
        t = ''
        # when every string parameter is optional, an opening parenthesis after the integers
        # would be read as the string arguments
        extra = '(' if (all_opt and sargs is None) else ''
        if iparams:
            vals = [a[1] for a in iargs]
            kws = [a[0] for a in iargs]
            nd = tuple(dv for _, dv in iparams if dv is not None)
            t = self.ints(vals, None if any(kws) else nd, len(iparams), SAFE if sargs is not None else follow,
                          extra_unsafe=extra, kw=kws if any(kws) else None)
            if t == '' and sargs is None and _unsafe(follow, set(NAME_UNSAFE) | set('0123456789$(')):
                _ill('follower')
        elif sargs is None:
            t = self._name_end(follow, extra)
        if sargs is not None:
            sf = None       # the arguments are spliced into the body: follower unknown here
            if all_opt:
                self.pick('m', 1)     # parentheses (and commas) only
                texts = [self.string(a, sf) for a in sargs]
                if len(sparams) == 1:
                    if not _balanced(texts[0], '(', ')'):
                        _ill('unbalanced')
                else:
                    for x in texts:
                        if _top_level_comma(x) or not _balanced(x, '(', ')'):
                            _ill('comma')
                g = '(' + ','.join(texts) + ')'
            elif len(sparams) == 1:
                g = self.strgroup([sargs[0]], [sf], flat, single=True)
            else:
                g = self.strgroup(list(sargs), [sf] * len(sargs), flat)
            if iparams and t == '' and g.startswith('('):
                _ill('a parenthesis after the macro name starts the integer arguments')
            t += g
        return t

    def _r_HASH(self, m, follow):
        """#NAME#(parameter text): the parameter text is expanded first, as flat text."""
        inner = m[1]
        k = inner[0]
        self.level += 1
        try:
            body = getattr(self, '_r_' + k)(inner, follow, True)
        finally:
            self.level -= 1
        return '#' + (inner[1] if k == 'CALL' else NAMES.get(k, k)) + '#' + self.single_text(body)


def _remove_fields(text, name):
    out = []
    i = 0
    n = len(text)
    key = '{' + name
    while i < n:
        if text.startswith(key, i) and i + len(key) < n and text[i + len(key)] in '}:':
            j = text.index('}', i)
            i = j + 1
        else:
            out.append(text[i])
            i += 1
    return ''.join(out)


def render(ast, style=None, defs=None, follow=('',), want_slots=False):
    """Text of `ast` (a string = tuple of parts, or a single macro node).

    style: dict {slot index: choice} (missing slots -> 0; key '*i' / '*m' / '*s' sets the
    default choice for every integer / multi-string / single-string slot).
    defs: {name: DEF node} for the macros a CALL may refer to."""
    r = _R(style, defs)
    if ast and isinstance(ast[0], str):
        ast = (ast,)
    text = r.string(ast, follow)
    if want_slots == 'notes':
        return text, r.notes
    if want_slots:
        return text, r.slots
    return text


def slots(ast, defs=None):
    """[(kind, nchoices)] for the style slots of `ast`, in rendering order (a dry pass: the
    legality rules are not applied, so this works even where the default style is illegal)."""
    _DRY[0] = True
    try:
        return render(ast, None, defs, want_slots=True)[1]
    finally:
        _DRY[0] = False


# ------------------------------------------------------------------------------ state
class DictVar:
    def __init__(self, default, items):
        self.default = default
        self.items = dict(items)

    def get(self, k):
        return self.items.get(k, self.default)

    def canon(self):
        return ('dict', self.default, tuple(sorted(self.items.items())))

    def copy(self):
        return DictVar(self.default, self.items)


class Mode:
    def __init__(self, html=False, base=0, case=0, asm=None, fix=0, raw=False):
        self.html = bool(html)
        self.base = base          # 0, 10, 16
        self.case = case          # 0, 1 (lower), 2 (upper)
        self.asm = (0 if html else 1) if asm is None else asm
        self.fix = fix
        self.raw = raw            # html only: produce the documented HTML text (&#160;, &#65;)


class State:
    """Everything a macro can read or change: variables, memory (base image + poked cells),
    the snapshot stack, the POKE lists of named snapshots, #DEF'd macros, the #PC address."""

    def __init__(self, base_mem=None, pc=0):
        self.base_mem = base_mem or {}
        self.vars = {}
        self.mem = {}
        self.stack = []           # [(name of the snapshot that was current, saved overlay)]
        self.names = ['']         # name of the current snapshot = names[-1]
        self.pokes = {}
        self.pushed = {}          # name -> number of times pushed
        self.macros = {}
        self.pc = pc

    def copy(self):
        s = State(self.base_mem, self.pc)
        s.vars = {k: (v.copy() if isinstance(v, DictVar) else v) for k, v in self.vars.items()}
        s.mem = dict(self.mem)
        s.stack = [dict(m) for m in self.stack]
        s.names = list(self.names)
        s.pokes = {k: list(v) for k, v in self.pokes.items()}
        s.pushed = dict(self.pushed)
        s.macros = dict(self.macros)
        return s

    def peek(self, a):
        a &= 65535
        v = self.mem.get(a)
        if v is None:
            v = self.base_mem.get(a, 0)
        return v

    def canon(self, cells):
        """Canonical form: (variables, poked cells, snapshot stack contents, defined macros)."""
        vs = tuple(sorted((k, v.canon() if isinstance(v, DictVar) else v) for k, v in self.vars.items()))
        cur = tuple(self.peek(a) for a in cells)
        st = tuple((self.names[i], tuple(m.get(a, self.base_mem.get(a, 0)) for a in cells))
                   for i, m in enumerate(self.stack))
        return (vs, cur, st, self.names[-1], tuple(sorted(self.macros.items())))


# ------------------------------------------------------------------------------ evaluation
def _op(op, a, b):
    """One documented operator on (mathematical) integers."""
    ta, tb = isinstance(a, Truth), isinstance(b, Truth)
    if op == '&&':
        return Truth(bool(a) and bool(b))
    if op == '||':
        return Truth(bool(a) or bool(b))
    if ta or tb:
        raise Undefined('numeric value of && / || is not documented')
    if op == '+':
        r = a + b
    elif op == '-':
        r = a - b
    elif op == '*':
        r = a * b
    elif op in ('/', '%'):
        if b == 0:
            raise Undefined('division by zero')
        if a < 0 or b < 0:
            raise Undefined('rounding of division with a negative operand is not documented')
        q, rem = divmod(a, b)
        r = q if op == '/' else rem
    elif op == '**':
        if b < 0:
            raise Undefined('negative exponent')
        if abs(a) > 1 and b * abs(a).bit_length() > 4 * MAX_BITS:
            raise Undefined('magnitude')
        r = a ** b
    elif op in ('<<', '>>'):
        if a < 0 or b < 0:
            raise Undefined('shift with a negative operand is not documented')
        if op == '<<':
            if b > 4 * MAX_BITS:
                raise Undefined('magnitude')
            r = a * (2 ** b)
        else:
            r = a // (2 ** b) if b < 8 * MAX_BITS else 0
    elif op == '&':
        r = a & b
    elif op == '|':
        r = a | b
    elif op == '^':
        r = a ^ b
    elif op == '==':
        r = int(a == b)
    elif op == '!=':
        r = int(a != b)
    elif op == '>':
        r = int(a > b)
    elif op == '<':
        r = int(a < b)
    elif op == '>=':
        r = int(a >= b)
    elif op == '<=':
        r = int(a <= b)
    else:
        raise ValueError(op)
    if abs(r).bit_length() > MAX_BITS:
        raise Undefined('magnitude beyond {} bits'.format(MAX_BITS))
    return r


def _digits(n, base, upper):
    if n == 0:
        return '0'
    ds = '0123456789ABCDEF' if upper else '0123456789abcdef'
    out = []
    while n:
        n, d = divmod(n, base)
        out.append(ds[d])
    return ''.join(reversed(out))


def fmt_int(value, base, width, upper=True):
    """value in `base` with at least `width` digits (zero padded)."""
    if value < 0:
        if base != 10:
            raise Undefined('negative value in base 2/16')
        body = _digits(-value, 10, upper)
        if width > len(body):
            raise Undefined('zero padding of a negative value')
        return '-' + body
    return _digits(value, base, upper).rjust(width, '0')


class _Env:
    __slots__ = ('lv', 'args', 'strb', 'pre')

    def __init__(self, lv=None, args=None, strb=None, pre=False):
        self.lv = lv or {}
        self.args = args or {}
        self.strb = strb
        self.pre = pre

    def with_lv(self, name, value):
        d = dict(self.lv)
        d[name] = value
        return _Env(d, self.args, self.strb, self.pre)


ZX = {94: 8593, 96: 163, 127: 169}
WS = ' \t\n\r\x0b\x0c'      # in HTML mode #SPACE is &#160;, which is not whitespace
LOOP_LIMIT = 64


class Evaluator:
    def __init__(self, state, mode):
        self.st = state
        self.mode = mode

    # ------------------------------------------------------------ integers
    def field(self, name, key=None):
        m = self.mode
        builtin = {'asm': m.asm, 'base': m.base, 'case': m.case, 'fix': m.fix, 'html': int(m.html)}
        if key is None:
            if name in self.st.vars:
                v = self.st.vars[name]
                if isinstance(v, DictVar):
                    raise Undefined('dictionary used as a scalar')
                return v
            if name in builtin:
                return builtin[name]
            raise Undefined('variable {} is not defined'.format(name))
        if name == 'mode':
            return builtin[key]
        if name == 'vars':
            return 0
        v = self.st.vars.get(name)
        if not isinstance(v, DictVar):
            raise Undefined('dictionary {} is not defined'.format(name))
        return v.get(key)

    def int_(self, e, env, top=True):
        k = e[0]
        if k == 'num':
            return e[1]
        if k == 'fld':
            v = self.field(e[1])
            if not isinstance(v, int):
                raise Undefined('string variable in arithmetic')
            if v < 0 and not top:
                raise Undefined('negative value substituted textually into an expression')
            return v
        if k == 'fldk':
            v = self.field(e[1], e[2])
            if not isinstance(v, int):
                raise Undefined('string value in arithmetic')
            if v < 0 and not top:
                raise Undefined('negative value substituted textually into an expression')
            return v
        if k == 'bin':
            return _op(e[1], self.int_(e[2], env, False), self.int_(e[3], env, False))
        if k == 'lv':
            v = env.lv.get(e[1])
            if v is None:
                raise Undefined('loop variable not bound')
            if not isinstance(v, int):
                v = self._as_int(self.str_(v[0], v[1]), top)
            elif v < 0 and not top:
                raise Undefined('negative loop value substituted into an expression')
            return v
        if k == 'arg':
            v = env.args.get(e[1])
            if not isinstance(v, int):
                raise Undefined('argument is not an integer')
            if v < 0 and not top:
                raise Undefined('negative argument substituted into an expression')
            return v
        if k == 'strb':
            return env.strb
        if k == 'imac':
            return self._as_int(self.macro(e[1], env), top)
        raise ValueError(e)

    def _as_int(self, text, top):
        """A macro's output used as (part of) an integer parameter: it is spliced in as text,
        so inside a larger expression it must be a plain non-negative literal; as a whole
        parameter it may also be a sum/product of such literals."""
        def plain(t):
            return t.isdigit() and t.isascii() and (t == '0' or t[0] != '0')    # leading zeros: not documented
        if plain(text):
            return int(text)
        if top and text and all(c in '0123456789+*' for c in text):
            total = 0
            for term in text.split('+'):
                p = 1
                for fct in term.split('*'):
                    if not plain(fct):
                        raise Undefined('macro output is not an integer')
                    p *= int(fct)
                total += p
            return total
        raise Undefined('macro output {!r} is not a non-negative integer literal'.format(text))

    def opt(self, e, env, default):
        return default if e is None else self._exact(self.int_(e, env))

    def _exact(self, v):
        if isinstance(v, Truth):
            raise Undefined('numeric value of && / || is not documented')
        return v

    # ------------------------------------------------------------ strings
    def str_(self, parts, env):
        out = []
        for p in parts:
            k = p[0]
            if k == 'lit':
                out.append(p[1])
            elif k == 'lv':
                v = env.lv.get(p[1])
                if v is None:
                    raise Undefined('loop variable not bound')
                out.append(str(v) if isinstance(v, int) else self.str_(v[0], v[1]))
            elif k == 'arg':
                v = env.args.get(p[1])
                if v is None:
                    raise Undefined('argument not bound')
                if isinstance(v, int):
                    spec = p[3] if len(p) > 3 else ''
                    out.append(_pyformat(v, spec) if spec else str(v))
                else:
                    out.append(self.str_(v[0], v[1]))
            else:
                out.append(self.macro(p, env))
        return ''.join(out)

    def text(self, ast, env=None):
        if ast and isinstance(ast[0], str):
            ast = (ast,)
        return self.str_(ast, env or _Env())

    # ------------------------------------------------------------ macros
    def macro(self, m, env):
        return getattr(self, '_e_' + m[0])(m, env)

    def _e_EVAL(self, m, env):
        v = self._exact(self.int_(m[1], env))
        base = self.opt(m[2], env, 10)
        width = self.opt(m[3], env, 1)
        if base not in (2, 10, 16):
            raise Undefined('base')
        if width < 0:
            raise Undefined('negative width')
        return fmt_int(v, base, width, self.mode.case != 1)

    def _e_N(self, m, env):
        v = self._exact(self.int_(m[1], env))
        hwidth = self.opt(m[2], env, None)
        dwidth = self.opt(m[3], env, 1)
        affix = self.opt(m[4], env, 0)
        tohex = self.opt(m[5], env, 0)
        if v < 0:
            raise Undefined('negative #N value')
        if bool(affix) != (m[6] is not None):
            raise Undefined('affix must be 1 exactly when prefix/suffix are given')
        if affix not in (0, 1) or tohex not in (0, 1):
            raise Undefined('affix/hex are 0 or 1')
        prefix = self.str_(m[6], env) if m[6] is not None else ''
        suffix = self.str_(m[7], env) if m[7] is not None else ''
        if self.mode.base == 16 or (tohex and self.mode.base != 10):
            if hwidth is None:
                hwidth = 2 if v < 256 else 4
            return prefix + fmt_int(v, 16, hwidth, self.mode.case != 1) + suffix
        return fmt_int(v, 10, dwidth)

    def _e_IF(self, m, env):
        if self.int_(m[1], env):
            return self.str_(m[2], env)
        return self.str_(m[3], env) if m[3] is not None else ''

    def _e_MAP(self, m, env):
        key = self._exact(self.int_(m[1], env))
        table = {}
        for kexp, v in m[3]:
            kv = self._exact(self.int_(kexp, env))
            if kv in table:
                raise Undefined('duplicate key')
            table[kv] = v
        return self.str_(table.get(key, m[2]), env)

    def _loop(self, items, var, body, sep, fsep, env, bind):
        """Elements in order, `sep` between them, `fsep` between the last two."""
        n = len(items)
        if n > LOOP_LIMIT:
            raise Undefined('loop longer than the harness limit')
        out = []
        for i, it in enumerate(items):
            out.append(self.str_(body, env.with_lv(var, bind(it))))
            if i + 1 < n:
                out.append(fsep if (i + 2 == n and fsep is not None) else sep)
        return ''.join(out)

    def _e_FOR(self, m, env):
        start = self._exact(self.int_(m[1], env))
        stop = self._exact(self.int_(m[2], env))
        step = self.opt(m[3], env, 1)
        flags = self.opt(m[4], env, 0)
        var, body = m[5], m[6]
        if step == 0:
            raise Undefined('zero step')
        if not 0 <= flags <= 7:
            raise Undefined('flags')
        sep = self.str_(m[7], env) if m[7] is not None else ''
        if flags & 4 and m[7] is not None and var in _flat_text(m[7]):
            raise Undefined('which value replaces the variable in a separator is not documented')
        fsep = self.str_(m[8], env) if m[8] is not None else None
        if flags & 1:
            sep = ',' + sep
        if flags & 2:
            sep = sep + ','
        items = []
        n = start
        while (n <= stop) if step > 0 else (n >= stop):
            items.append(n)
            n += step
            if len(items) > LOOP_LIMIT:
                raise Undefined('loop longer than the harness limit')
        return self._loop(items, var, body, sep, fsep, env, lambda x: x)

    def _e_FOREACH(self, m, env):
        values, var, body = m[1], m[2], m[3]
        sep = self.str_(m[4], env) if m[4] is not None else ''
        fsep = self.str_(m[5], env) if m[5] is not None else None
        return self._loop(list(values), var, body, sep, fsep, env, lambda v: (v, env))

    def _e_FOREACHP(self, m, env):
        name, var, body = m[1], m[2], m[3]
        if self.st.pushed.get(name, 0) != 1:
            raise Undefined('POKEname is documented for a named snapshot created (once) by #PUSHS')
        sep = self.str_(m[4], env) if m[4] is not None else ''
        fsep = self.str_(m[5], env) if m[5] is not None else None
        items = []
        for addr, byte, length, step in self.st.pokes.get(name, []):
            if length == 1:
                items.append('POKE {},{}'.format(addr, byte))
            elif step == 1:
                items.append('FOR n={} TO {}: POKE n,{}: NEXT n'.format(addr, addr + length - 1, byte))
            else:
                items.append('FOR n={} TO {} STEP {}: POKE n,{}: NEXT n'.format(addr, addr + (length - 1) * step, step, byte))
        return self._loop(items, var, body, sep, fsep, env, lambda t: (lit(t), env))

    def _e_WHILE(self, m, env):
        out = []
        n = 0
        while self.int_(m[1], env):
            out.append(self.str_(m[2], env).strip(WS))
            n += 1
            if n > LOOP_LIMIT:
                raise Undefined('loop longer than the harness limit')
        return ''.join(out)

    def _e_FORMAT(self, m, env):
        case = self.opt(m[1], env, 0)
        if case not in (0, 1, 2):
            raise Undefined('case')
        out = []
        for p in m[2]:
            if p[0] == 'lit':
                out.append(p[1])
            elif p[0] == 'ff':
                v = self.field(p[1], p[2])
                out.append(_pyformat(v, p[3]))
            elif p[0] in ('lv', 'arg'):
                out.append(self.str_((p,), env))
            else:
                # a macro inside the text is expanded after the formatting operation; the case
                # conversion applies to the formatted text, i.e. to the macro's *source*
                if case:
                    raise Undefined('case conversion of nested macro source text')
                out.append(self.macro(p, env))
        t = ''.join(out)
        return t.lower() if case == 1 else t.upper() if case == 2 else t

    def _e_CHR(self, m, env):
        n = self._exact(self.int_(m[1], env))
        flags = self.opt(m[2], env, 0)
        if not 0 <= flags <= 3 or not 32 <= n < 0x110000 or 127 < n < 160 or 0xD800 <= n < 0xE000:
            raise Undefined('flags / code')
        if flags & 2:
            n = ZX.get(n, n)
        if self.mode.html and self.mode.raw and not flags & 1:
            return '&#{};'.format(n)
        return chr(n)

    def _e_SPACE(self, m, env):
        n = self.opt(m[1], env, 1)
        if n < 0:
            raise Undefined('negative count')
        if self.mode.html:
            return ('&#160;' if self.mode.raw else '\xa0') * n
        return ' ' * n

    def _e_PC(self, m, env):
        return str(self.st.pc)

    def _e_PEEK(self, m, env):
        a = self._exact(self.int_(m[1], env))
        if not 0 <= a <= 65535:
            raise Undefined('address out of range')
        return str(self.st.peek(a))

    def _e_STR(self, m, env):
        addr = self._exact(self.int_(m[1], env))
        flags = self.opt(m[2], env, 0)
        length = self.opt(m[3], env, -1)
        if not 0 <= addr <= 65535 or not 0 <= flags <= 15:
            raise Undefined('range')
        data = []
        if length >= 0:
            if flags & 8 or m[4] is not None:
                raise Undefined('end with explicit length')
            data = [self.st.peek(addr + i) for i in range(length)]
        else:
            if bool(flags & 8) != (m[4] is not None):
                raise Undefined('end is given exactly when bit 3 of flags is set')
            a = addr
            while True:
                if a > 65535:
                    raise Undefined('unterminated string')
                b = self.st.peek(a)
                if m[4] is not None:
                    e = _Env(env.lv, env.args, b, env.pre)
                    hit = bool(self.int_(m[4], e))
                    if hit:
                        break
                    if b == 0 or b & 128:
                        raise Undefined('zero / bit-7 byte before the end marker: the documentation is ambiguous')
                elif b == 0:
                    break
                elif b & 128:
                    data.append(b & 127)
                    break
                data.append(b)
                a += 1
        for b in data:
            if not 32 <= b < 127 or b in (94, 96, 35, 38, 60, 62):
                raise Undefined('character outside the plain printable set')
        s = ''.join(chr(b) for b in data)
        if flags & 1:
            s = s.rstrip(' ')
        if flags & 2:
            s = s.lstrip(' ')
        if flags & 4:
            out = []
            i = 0
            while i < len(s):
                if s[i] == ' ':
                    j = i
                    while j < len(s) and s[j] == ' ':
                        j += 1
                    if j - i >= 2:
                        out.append(self._e_SPACE(('SPACE', num(j - i), 1), env))
                    else:
                        out.append(' ')
                    i = j
                else:
                    out.append(s[i])
                    i += 1
            s = ''.join(out)
        return s

    # state-changing macros ---------------------------------------------------
    def _e_LET(self, m, env):
        name, value = m[1], m[2]
        if name.endswith('$'):
            v = self.str_(value, env)
        else:
            v = self._exact(self.int_(value, env))
        self.st.vars[name] = v
        return ''

    def _e_LETD(self, m, env):
        name, default, pairs = m[1:4]
        isstr = name.endswith('$')
        ev = (lambda x: self.str_(x, env)) if isstr else (lambda x: self._exact(self.int_(x, env)))
        items = {}
        for k, v in pairs:
            kv = self._exact(self.int_(k, env))
            if kv in items:
                raise Undefined('duplicate key')
            if v is None:
                items[kv] = str(kv) if isstr else kv
            else:
                items[kv] = ev(v)
        self.st.vars[name] = DictVar(ev(default), items)
        return ''

    def _e_LETK(self, m, env):
        name, key, value = m[1:4]
        d = self.st.vars.get(name)
        if not isinstance(d, DictVar):
            raise Undefined('dictionary not defined')
        k = self._exact(self.int_(key, env))
        d.items[k] = self.str_(value, env) if name.endswith('$') else self._exact(self.int_(value, env))
        return ''

    def _e_POKES(self, m, env):
        for g in m[1]:
            addr = self._exact(self.int_(g[0], env))
            byte = self._exact(self.int_(g[1], env))
            length = self.opt(g[2] if len(g) > 2 else None, env, 1)
            step = self.opt(g[3] if len(g) > 3 else None, env, 1)
            if not 0 <= byte <= 255 or length < 1 or step < 1 or not 0 <= addr or addr + (length - 1) * step > 65535:
                raise Undefined('range')
            for i in range(length):
                self.st.mem[addr + i * step] = byte
            self.st.pokes.setdefault(self.st.names[-1], []).append((addr, byte, length, step))
        return ''

    def _e_PUSHS(self, m, env):
        self.st.stack.append(dict(self.st.mem))
        self.st.names.append(m[1])
        self.st.pokes[m[1]] = []
        self.st.pushed[m[1]] = self.st.pushed.get(m[1], 0) + 1
        return ''

    def _e_POPS(self, m, env):
        if not self.st.stack:
            raise Undefined('#POPS with nothing saved')
        self.st.mem = self.st.stack.pop()
        self.st.names.pop()
        return ''

    def _e_DEF(self, m, env):
        self.st.macros[m[2]] = m
        return ''

    def _e_CALL(self, m, env):
        name, iargs, sargs = m[1:4]
        d = self.st.macros.get(name)
        if d is None:
            raise Undefined('macro not defined')
        flags = d[1][1] if d[1] is not None else 0
        iparams, sparams, body = d[3], d[4], d[5]
        args = {}
        pos = 0
        seen_kw = False
        for kw, e in iargs:
            if kw is None:
                if seen_kw:
                    raise Undefined('positional after keyword')
                if pos >= len(iparams):
                    raise Undefined('too many arguments')
                if e is not None:
                    args[iparams[pos][0]] = self._exact(self.int_(e, env))
                pos += 1
            else:
                seen_kw = True
                if kw not in [n for n, _ in iparams] or kw in args:
                    raise Undefined('keyword')
                args[kw] = self._exact(self.int_(e, env))
        seen_default = False
        for n, dv in iparams:
            if dv is not None:
                seen_default = True
            if n not in args:
                if dv is None:
                    if seen_default:
                        dv = 0
                    else:
                        raise Undefined('missing required argument')
                args[n] = dv
        if sparams is not None:
            nreq = len([1 for _, dv in sparams if dv is None])
            given = list(sargs) if sargs is not None else []
            if len(given) < nreq or len(given) > len(sparams):
                raise Undefined('number of string arguments')
            aenv = _Env(env.lv, dict(args), env.strb, env.pre)
            for i, (n, dv) in enumerate(sparams):
                if i < len(given):
                    args[n] = (given[i], env)
                else:
                    args[n] = (dv, aenv)
        elif sargs is not None:
            raise Undefined('no string parameters')
        benv = _Env(env.lv, args, env.strb, env.pre)
        out = self.str_(body, benv)
        if flags & 2:
            out = out.strip(WS)
        return out

    def _e_HASH(self, m, env):
        """#(...) after the macro name: the macros inside the parameter text are expanded first
        (all of them, in text order), then the outer macro is expanded with the results as
        literal text."""
        inner = m[1]
        pre = self._pre(inner, env)
        return self.macro(pre, env)

    def _pre(self, node, env):
        """Replace every macro nested in the parameters of `node` by a literal of its value."""
        def walk(x, int_ctx):
            if not isinstance(x, tuple) or not x:
                return x
            if isinstance(x[0], str):
                if x[0] == 'imac':
                    if self.mode.html and mode_dependent(x):
                        raise Undefined('pre-expanded #CHR/#SPACE text is an HTML entity')
                    t = self.macro(x[1], env)
                    if not (t.isdigit() and t.isascii() and (t == '0' or t[0] != '0')):
                        raise Undefined('pre-expanded value is not a plain integer')
                    return ('num', int(t), 'd')
                if x[0] in MACROS:
                    if self.mode.html and mode_dependent(x):
                        raise Undefined('pre-expanded #CHR/#SPACE text is an HTML entity')
                    t = self.macro(x, env)
                    if not (t.isascii() and t.isalnum()) and t != '':
                        raise Undefined('pre-expanded value would change the parameter structure')
                    return ('lit', t)
                if x[0] in ('lit', 'num', 'fld', 'fldk', 'lv', 'arg', 'strb', 'ff'):
                    return x
                if x[0] == 'bin':
                    return ('bin', x[1], walk(x[2], True), walk(x[3], True))
            return tuple(walk(i, int_ctx) for i in x)
        head = node[0]
        return (head,) + tuple(walk(a, False) if isinstance(a, tuple) else a for a in node[1:])


def _flat_text(parts):
    return ''.join(p[1] for p in parts if p[0] in ('lit', 'lv'))


def _pyformat(v, spec):
    """The subset of Python's format-spec mini-language used by the generator: [0][width][d|X|x|b]
    for integers, nothing for strings."""
    if not spec:
        return str(v)
    if not isinstance(v, int):
        raise Undefined('format spec on a string')
    typ = 'd'
    if spec[-1] in 'dXxb':
        typ, spec = spec[-1], spec[:-1]
    zero = spec.startswith('0')
    width = int(spec) if spec else 0
    base = {'d': 10, 'X': 16, 'x': 16, 'b': 2}[typ]
    if v < 0:
        raise Undefined('negative value with a format spec')
    t = _digits(v, base, typ != 'x')
    return t.rjust(width, '0' if zero else ' ')


def mode_dependent(x):
    """Does the AST read a mode field or use #CHR / #SPACE (documented to differ per mode)?"""
    if isinstance(x, tuple) and x:
        if x[0] in ('CHR', 'SPACE'):
            return True
        if x[0] == 'STR' and x[2] is not None:
            return True
        if x[0] in ('fld', 'ff') and len(x) > 1 and x[1] in ('asm', 'base', 'case', 'fix', 'html', 'mode'):
            return True
        if x[0] == 'fldk' and x[1] == 'mode':
            return True
        return any(mode_dependent(i) for i in x)
    return False


def depth(x):
    """Macro nesting depth."""
    if isinstance(x, tuple) and x:
        d = max([depth(i) for i in x if isinstance(i, tuple)] or [0])
        if isinstance(x[0], str) and x[0] in MACROS and x[0] != 'HASH':
            return d + 1
        return d
    return 0
