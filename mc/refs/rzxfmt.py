"""RZX container writer/reader written from the RZX format specification (v0.12/0.13).

File:   'RZX!' major minor flags(4)
Block:  id(1) length(4, including this 5-byte header) data
0x10 creator: id string (20), major (2), minor (2)
0x30 snapshot: flags(4; bit0 external, bit1 compressed) ext(4) uncompressed length(4) data
0x80 input recording: frames(4) reserved(1) T-states at start(4) flags(4; bit0 protected,
     bit1 compressed) then per frame: fetch counter(2) IN counter(2; 65535 = repeat the
     previous frame's readings) readings(IN counter bytes)
"""
import struct
import zlib


def dword(n):
    return struct.pack('<I', n)


def word(n):
    return struct.pack('<H', n)


def creator_block():
    return bytes([0x10]) + dword(29) + b'skverif'.ljust(20, b'\0') + word(1) + word(0)


def snapshot_block(data, ext, compress):
    payload = zlib.compress(data, 9) if compress else data
    flags = 2 if compress else 0
    body = dword(flags) + ext.encode().ljust(4, b'\0') + dword(len(data)) + payload
    return bytes([0x30]) + dword(5 + len(body)) + body


def input_block(frames, tstates, compress, use_repeat):
    """frames: list of (fetch_counter, bytes of port readings)."""
    out = bytearray()
    prev = None
    for fc, readings in frames:
        readings = bytes(readings)
        if use_repeat and prev is not None and readings == prev and readings:
            out += word(fc) + word(65535)
        else:
            out += word(fc) + word(len(readings)) + readings
        prev = readings
    payload = zlib.compress(bytes(out), 9) if compress else bytes(out)
    flags = 2 if compress else 0
    body = dword(len(frames)) + b'\0' + dword(tstates) + dword(flags) + payload
    return bytes([0x80]) + dword(5 + len(body)) + body


def build(snapshot_data, ext, frames, compress=True, use_repeat=False, tstates=0, split=None):
    """split: index at which the frames are divided between two consecutive input recording blocks."""
    head = b'RZX!' + bytes([0, 13]) + dword(0) + creator_block() + snapshot_block(snapshot_data, ext, compress)
    if split and 0 < split < len(frames):
        return head + input_block(frames[:split], tstates, compress, use_repeat) + input_block(frames[split:], 0, compress, use_repeat)
    return head + input_block(frames, tstates, compress, use_repeat)


def parse(data):
    """Returns list of blocks: ('snapshot', ext, bytes) / ('input', tstates, [(fc, readings)])."""
    if data[:4] != b'RZX!':
        raise ValueError('not an RZX file')
    i = 10
    out = []
    while i < len(data):
        bid = data[i]
        blen = struct.unpack('<I', data[i + 1:i + 5])[0]
        body = data[i + 5:i + blen]
        if bid == 0x30:
            flags = struct.unpack('<I', body[:4])[0]
            ext = body[4:8].rstrip(b'\0').decode()
            payload = body[12:]
            if flags & 2:
                payload = zlib.decompress(payload)
            out.append(('snapshot', ext, payload))
        elif bid == 0x80:
            n = struct.unpack('<I', body[:4])[0]
            tstates = struct.unpack('<I', body[5:9])[0]
            flags = struct.unpack('<I', body[9:13])[0]
            payload = body[13:]
            if flags & 2:
                payload = zlib.decompress(payload)
            frames = []
            j = 0
            prev = b''
            for _ in range(n):
                fc, ic = struct.unpack('<HH', payload[j:j + 4])
                j += 4
                if ic == 65535:
                    readings = prev
                else:
                    readings = payload[j:j + ic]
                    j += ic
                frames.append((fc, bytes(readings)))
                prev = readings
            out.append(('input', tstates, frames))
        i += blen
    return out
