"""Independent decoders for Z80 (v1/v2/v3) and ZX-State (SZX) snapshot files.

Written from the published format descriptions, not from skoolkit's reader:

* Z80: "Z80 file format" (worldofspectrum.org/faq/reference/z80format.htm): 30-byte
  header, optional additional header (length 23 = v2, 54/55 = v3), RLE blocks
  (`ED ED xx yy` = yy repeated xx times), v1 end marker `00 ED ED 00`, page numbers,
  hardware modes, the quarter-frame T-state counter pair.
* SZX: "ZX-State" (spectaculator.com/docs/zx-state): `ZXST` header, a sequence of
  (id, dword size, data) blocks; ZXSTZ80REGS, ZXSTSPECREGS, ZXSTAYBLOCK, ZXSTKEYBOARD,
  ZXSTRAMPAGE (zlib-deflated when flag bit 0 is set).

Everything is returned as a plain `State` object so that a driver can compare it field by
field with what it asked a writer to store.  The decoders are deliberately strict: things
the format description rules out (a zero repeat count, data after the v1 end marker, a
page of the wrong size, a repeat block shorter than the coding rules allow) are collected
in `State.notes` instead of being silently accepted.

A minimal *writer* for uncompressed files of every version is included so that a driver
can manufacture v1 / v2 input files (skoolkit itself only creates v3 files from scratch).
"""
import zlib
from collections import Counter

ED = 0xED
PAGE = 0x4000

REG16 = ('bc', 'de', 'hl', 'bc2', 'de2', 'hl2', 'ix', 'iy', 'sp', 'pc')
REG8 = ('a', 'f', 'a2', 'f2', 'i', 'r')
FIELDS = REG8 + REG16 + ('memptr', 'iff1', 'iff2', 'im', 'border', 'issue2', 'tstates',
                         'out7ffd', 'outfffd', 'ay', 'outfe', 'machine')

FRAME_T = {'48K': 69888, '128K': 70908, '+2': 70908}    # T-states per frame (224*312, 228*311)


class FormatError(Exception):
    pass


class State:
    """Decoded snapshot.  `banks` maps RAM bank number -> bytes(16384) for 128K machines;
    for 48K machines banks 5, 2 and 0 hold 0x4000, 0x8000 and 0xC000 (the 128K layout)."""

    def __init__(self):
        self.format = None
        self.machine = None
        for n in REG8 + REG16:
            setattr(self, n, 0)
        self.memptr = None      # not representable in Z80 files
        self.iff1 = self.iff2 = 0
        self.im = 0
        self.border = 0
        self.issue2 = 0
        self.tstates = None     # not representable in Z80 v1/v2 files
        self.out7ffd = 0
        self.outfffd = 0
        self.ay = (0,) * 16
        self.outfe = None       # not representable in Z80 files
        self.banks = {}
        self.is128 = False
        self.notes = []
        self.tokens = Counter()

    def ram48(self):
        """The 48K visible at 0x4000-0xFFFF."""
        top = self.banks[self.out7ffd & 7] if self.is128 else self.banks[0]
        return bytes(self.banks[5]) + bytes(self.banks[2]) + bytes(top)

    def all_banks(self):
        return b''.join(bytes(self.banks[b]) for b in range(8))

    def fields(self):
        return {n: getattr(self, n) for n in FIELDS}


def _w(data, i):
    return data[i] | (data[i + 1] << 8)


# ------------------------------------------------------------------------------- Z80 RLE
def rle_tokens(stream, start=0, end=None):
    """Walk a compressed Z80 block.  Yields ('lit', byte), ('run', count, byte) and, for
    the four bytes 00 ED ED 00 met at a token boundary, ('end', index)."""
    i = start
    n = len(stream) if end is None else end
    while i < n:
        b = stream[i]
        if b == 0 and i + 3 < n and stream[i + 1] == ED and stream[i + 2] == ED and stream[i + 3] == 0:
            yield ('end', i)
            return
        if b == ED and i + 1 < n and stream[i + 1] == ED:
            if i + 3 >= n:
                raise FormatError('truncated ED ED block at offset {}'.format(i))
            yield ('run', stream[i + 2], stream[i + 3])
            i += 4
        else:
            yield ('lit', b)
            i += 1


def rle_decode(stream, v1=False, notes=None, tokens=None):
    """Decode one compressed block.  v1=True: the block is terminated by 00 ED ED 00, which
    must be the last four bytes.  Returns bytes.

    Coding rules stated by the format description and checked here (violations are
    appended to `notes`): only sequences of at least five equal bytes are coded as a
    block, except sequences of ED, where even two are coded; a repeat count is never 0."""
    out = bytearray()
    ended = False
    for tok in rle_tokens(stream):
        if tok[0] == 'end':
            if not v1:
                # inside a v2/v3 page 00 ED ED 00 is not a marker: it would be a repeat
                # count of zero, which the format does not allow
                raise FormatError('ED ED with repeat count 0 at offset {}'.format(tok[1] + 1))
            if tok[1] + 4 != len(stream):
                raise FormatError('{} bytes after the end marker'.format(len(stream) - tok[1] - 4))
            ended = True
            break
        if tok[0] == 'run':
            _, count, byte = tok
            if count == 0:
                raise FormatError('ED ED with repeat count 0')
            if notes is not None:
                if byte != ED and count < 5:
                    notes.append('repeat block of {} x {:02X} (shorter than 5)'.format(count, byte))
                if byte == ED and count < 2:
                    notes.append('repeat block of a single ED')
            if tokens is not None:
                tokens['run_ed' if byte == ED else 'run'] += 1
                if count == 255:
                    tokens['run255'] += 1
                if byte == ED and count == 2:
                    tokens['run_ed2'] += 1
                if byte != ED and count == 5:
                    tokens['run5'] += 1
            out.extend(bytes((byte,)) * count)
        else:
            if tokens is not None and tok[1] == ED:
                tokens['lone_ed'] += 1
            out.append(tok[1])
    if v1 and not ended:
        raise FormatError('end marker 00 ED ED 00 not found')
    if tokens is not None and ended:
        tokens['v1_end_marker'] += 1
    return bytes(out)


# ------------------------------------------------------------------------------- Z80 files
# hardware mode byte (offset 34) -> (48K-class?, 128K-class?, name, name with "modify hardware")
_HW_COMMON = {7: ('128', '+3', '+2A'), 8: ('128', '+3', '+2A'), 9: ('128', 'Pentagon', 'Pentagon'),
              10: ('128', 'Scorpion', 'Scorpion'), 11: ('48', 'Didaktik', 'Didaktik'),
              12: ('128', '+2', '+2'), 13: ('128', '+2A', '+2A'), 14: ('48', 'TC2048', 'TC2048'),
              15: ('48', 'TC2068', 'TC2068'), 128: ('48', 'TS2068', 'TS2068')}
_HW_V2 = {0: ('48', '48K', '16K'), 1: ('48', '48K', '16K'), 2: ('48', 'SamRam', 'SamRam'),
          3: ('128', '128K', '+2'), 4: ('128', '128K', '+2')}
_HW_V3 = {0: ('48', '48K', '16K'), 1: ('48', '48K', '16K'), 2: ('48', 'SamRam', 'SamRam'),
          3: ('48', '48K', '16K'), 4: ('128', '128K', '+2'), 5: ('128', '128K', '+2'),
          6: ('128', '128K', '+2')}


def read_z80(data):
    data = bytes(data)
    if len(data) < 30:
        raise FormatError('file shorter than the 30-byte header')
    s = State()
    s.a, s.f = data[0], data[1]
    s.bc, s.hl = _w(data, 2), _w(data, 4)
    pc = _w(data, 6)
    s.sp = _w(data, 8)
    s.i = data[10]
    b12 = 1 if data[12] == 255 else data[12]
    s.r = (data[11] & 0x7F) | ((b12 & 1) << 7)
    s.border = (b12 >> 1) & 7
    s.de, s.bc2, s.de2, s.hl2 = _w(data, 13), _w(data, 15), _w(data, 17), _w(data, 19)
    s.a2, s.f2 = data[21], data[22]
    s.iy, s.ix = _w(data, 23), _w(data, 25)
    s.iff1, s.iff2 = data[27], data[28]
    s.im = data[29] & 3
    s.issue2 = (data[29] >> 2) & 1
    if pc:
        # ------------------------------------------------------------ version 1
        s.format = 'z80v1'
        s.pc = pc
        s.machine = '48K'
        body = data[30:]
        if b12 & 0x20:
            ram = rle_decode(body, v1=True, notes=s.notes, tokens=s.tokens)
        else:
            ram = body
            s.tokens['v1_uncompressed'] += 1
        if len(ram) != 3 * PAGE:
            raise FormatError('v1 RAM is {} bytes'.format(len(ram)))
        s.banks = {5: ram[:PAGE], 2: ram[PAGE:2 * PAGE], 0: ram[2 * PAGE:]}
        return s
    # ---------------------------------------------------------------- version 2 / 3
    extra = _w(data, 30)
    if extra == 23:
        s.format = 'z80v2'
        table = _HW_V2
    elif extra in (54, 55):
        s.format = 'z80v3'
        table = _HW_V3
    else:
        raise FormatError('additional header length {}'.format(extra))
    s.pc = _w(data, 32)
    hw = data[34]
    modify = data[37] >> 7
    klass, name, name_mod = table.get(hw) or _HW_COMMON.get(hw) or ('?', 'hw%d' % hw, 'hw%d' % hw)
    s.machine = name_mod if modify else name
    s.is128 = klass == '128'
    s.out7ffd = data[35]
    s.outfffd = data[38]
    s.ay = tuple(data[39:55])
    if s.format == 'z80v3':
        # "The hi T state counter counts up modulo 4.  Just after the ULA generates its
        # interrupt it is 3, and is increased by one every 5 emulated milliseconds.  In
        # these 1/200 s intervals the low T state counter counts down from 17471 to 0
        # (17726 in 128K modes)."
        quarter_len = 17727 if s.is128 else 17472
        lo, hi = _w(data, 55), data[57]
        if lo >= quarter_len:
            s.notes.append('low T-state counter {} out of range'.format(lo))
        if hi > 3:
            s.notes.append('high T-state counter {} out of range'.format(hi))
        quarter = (hi + 1) & 3          # 3 -> first quarter of the frame, 0 -> second, ...
        s.tstates = quarter * quarter_len + (quarter_len - 1 - lo)
    i = 32 + extra
    pages = {}
    while i < len(data):
        if i + 3 > len(data):
            raise FormatError('truncated page header at offset {}'.format(i))
        length, page = _w(data, i), data[i + 2]
        i += 3
        if length == 0xFFFF:
            block = data[i:i + PAGE]
            i += PAGE
            s.tokens['page_uncompressed'] += 1
        else:
            if i + length > len(data):
                raise FormatError('page {} runs past the end of the file'.format(page))
            block = rle_decode(data[i:i + length], notes=s.notes, tokens=s.tokens)
            i += length
            s.tokens['page_compressed'] += 1
        if len(block) != PAGE:
            raise FormatError('page {} is {} bytes'.format(page, len(block)))
        if page in pages:
            raise FormatError('page {} present twice'.format(page))
        pages[page] = block
    if s.is128:
        for p in range(3, 11):
            if p in pages:
                s.banks[p - 3] = pages.pop(p)
        missing = [b for b in range(8) if b not in s.banks]
        if missing:
            raise FormatError('128K file without RAM banks {}'.format(missing))
    else:
        # 48K: page 8 = 4000-7FFF, page 4 = 8000-BFFF, page 5 = C000-FFFF
        for p, b in ((8, 5), (4, 2), (5, 0)):
            if p not in pages:
                raise FormatError('48K file without page {}'.format(p))
            s.banks[b] = pages.pop(p)
    extra_pages = [p for p in pages if p not in (0, 1, 2, 11)]
    if extra_pages:
        s.notes.append('unexpected pages {}'.format(sorted(extra_pages)))
    return s


# ------------------------------------------------------------------------------- SZX files
_SZX_MACHINES = {0: '16K', 1: '48K', 2: '128K', 3: '+2', 4: '+2A', 5: '+3', 6: '+3e', 7: 'Pentagon',
                 8: 'TC2048', 9: 'TC2068', 10: 'Scorpion', 11: 'SE', 12: 'TS2068', 13: 'Pentagon512',
                 14: 'Pentagon1024', 15: '48K-NTSC', 16: '128Ke'}
_SZX_48 = (0, 1, 8, 15)


def szx_blocks(data):
    data = bytes(data)
    if data[:4] != b'ZXST' or len(data) < 8:
        raise FormatError('no ZXST signature')
    i = 8
    while i < len(data):
        if i + 8 > len(data):
            raise FormatError('truncated block header at offset {}'.format(i))
        size = int.from_bytes(data[i + 4:i + 8], 'little')
        if i + 8 + size > len(data):
            raise FormatError('block {!r} runs past the end of the file'.format(data[i:i + 4]))
        yield data[i:i + 4], data[i + 8:i + 8 + size]
        i += 8 + size


def read_szx(data):
    data = bytes(data)
    s = State()
    s.format = 'szx'
    if data[:4] != b'ZXST' or len(data) < 8:
        raise FormatError('no ZXST signature')
    mid = data[6]
    s.machine = _SZX_MACHINES.get(mid, 'id%d' % mid)
    s.is128 = mid not in _SZX_48
    s.memptr = 0
    s.outfe = 0
    s.tstates = 0
    seen = Counter()
    for bid, blk in szx_blocks(data):
        seen[bid] += 1
        if bid == b'Z80R':
            if len(blk) != 37:
                raise FormatError('Z80R block of {} bytes'.format(len(blk)))
            # AF, BC, DE, HL, AF', BC', DE', HL', IX, IY, SP, PC as little-endian words
            words = [_w(blk, k) for k in range(0, 24, 2)]
            af, s.bc, s.de, s.hl, af2, s.bc2, s.de2, s.hl2, s.ix, s.iy, s.sp, s.pc = words
            s.a, s.f = af >> 8, af & 255
            s.a2, s.f2 = af2 >> 8, af2 & 255
            s.i, s.r, s.iff1, s.iff2, s.im = blk[24], blk[25], blk[26], blk[27], blk[28]
            s.tstates = int.from_bytes(blk[29:33], 'little')
            s.memptr = _w(blk, 35)
        elif bid == b'SPCR':
            if len(blk) != 8:
                raise FormatError('SPCR block of {} bytes'.format(len(blk)))
            s.border, s.out7ffd, s.outfe = blk[0], blk[1], blk[3]
            if s.border > 7:
                s.notes.append('border {}'.format(s.border))
        elif bid == b'AY\x00\x00':
            if len(blk) != 18:
                raise FormatError('AY block of {} bytes'.format(len(blk)))
            s.outfffd = blk[1]
            s.ay = tuple(blk[2:18])
        elif bid == b'KEYB':
            if len(blk) != 5:
                raise FormatError('KEYB block of {} bytes'.format(len(blk)))
            s.issue2 = int.from_bytes(blk[0:4], 'little') & 1
        elif bid == b'RAMP':
            flags, page = _w(blk, 0), blk[2]
            raw = blk[3:]
            if flags & 1:
                raw = zlib.decompress(raw)
                s.tokens['ramp_compressed'] += 1
            else:
                s.tokens['ramp_uncompressed'] += 1
            if len(raw) != PAGE:
                raise FormatError('RAM page {} is {} bytes'.format(page, len(raw)))
            if page in s.banks:
                raise FormatError('RAM page {} present twice'.format(page))
            s.banks[page] = raw
    for bid in (b'Z80R', b'SPCR'):
        if seen[bid] != 1:
            raise FormatError('{} {!r} blocks'.format(seen[bid], bid))
    want = range(8) if s.is128 else (5, 2, 0)
    missing = [b for b in want if b not in s.banks]
    if missing:
        raise FormatError('RAM pages {} missing'.format(missing))
    extra = [b for b in s.banks if b not in want]
    if extra:
        s.notes.append('unexpected RAM pages {}'.format(sorted(extra)))
    return s


def read(data, ext):
    ext = ext.lower().lstrip('.')
    if ext == 'z80':
        return read_z80(data)
    if ext == 'szx':
        return read_szx(data)
    raise FormatError('unknown snapshot type ' + ext)


# ------------------------------------------------------------------------------- writers
def _le(v, n=2):
    return int(v).to_bytes(n, 'little')


def build_z80(version, st, banks, hw=None):
    """An *uncompressed* Z80 file of the given version (1, 2 or 3) from a dict of fields
    (names as in FIELDS; missing ones are 0) and banks {5,2,0} (48K) or {0..7} (128K)."""
    g = lambda k, d=0: st.get(k, d) or 0
    is128 = len(banks) == 8
    if version == 1 and (is128 or not g('pc')):
        raise ValueError('v1 is 48K only and cannot hold PC=0')
    h = bytearray(30)
    h[0], h[1] = g('a'), g('f')
    h[2:4], h[4:6] = _le(g('bc')), _le(g('hl'))
    h[6:8] = _le(g('pc') if version == 1 else 0)
    h[8:10] = _le(g('sp'))
    h[10], h[11] = g('i'), g('r') & 0x7F
    h[12] = (g('r') >> 7) | (g('border') << 1)          # bit 5 clear: not compressed
    h[13:15], h[15:17], h[17:19], h[19:21] = _le(g('de')), _le(g('bc2')), _le(g('de2')), _le(g('hl2'))
    h[21], h[22] = g('a2'), g('f2')
    h[23:25], h[25:27] = _le(g('iy')), _le(g('ix'))
    h[27], h[28] = g('iff1'), g('iff2')
    h[29] = g('im') | (g('issue2') << 2)
    if version == 1:
        return bytes(h) + bytes(banks[5]) + bytes(banks[2]) + bytes(banks[0])
    extra = bytearray(23 if version == 2 else 54)
    extra[0:2] = _le(g('pc'))
    machine = st.get('machine') or ('128K' if is128 else '48K')
    if hw is None:
        hw = (3 if version == 2 else 4) if is128 else 0
    extra[2] = hw
    extra[3] = g('out7ffd')
    extra[5] = 0x80 if machine == '+2' else 0
    extra[6] = g('outfffd')
    extra[7:23] = bytes(st.get('ay') or (0,) * 16)
    if version == 3:
        qlen = 17727 if is128 else 17472
        t = g('tstates')
        quarter, pos = divmod(t, qlen)
        extra[23:25] = _le(qlen - 1 - pos)
        extra[25] = (quarter + 3) & 3
    out = bytes(h) + _le(len(extra)) + bytes(extra)
    if is128:
        order = [(b + 3, banks[b]) for b in range(8)]
    else:
        order = [(4, banks[2]), (5, banks[0]), (8, banks[5])]
    for page, blk in order:
        out += b'\xff\xff' + bytes((page,)) + bytes(blk)
    return out


def build_szx(st, banks, compress=False):
    """An SZX file (RAM pages stored uncompressed unless compress=True)."""
    g = lambda k, d=0: st.get(k, d) or 0
    is128 = len(banks) == 8
    machine = st.get('machine') or ('128K' if is128 else '48K')
    mid = {'48K': 1, '128K': 2, '+2': 3}[machine]
    out = b'ZXST' + bytes((1, 4, mid, 0))

    def blk(bid, body):
        return bid + _le(len(body), 4) + bytes(body)
    z = bytearray(37)
    z[0], z[1] = g('f'), g('a')
    for k, n in enumerate(('bc', 'de', 'hl')):
        z[2 + 2 * k:4 + 2 * k] = _le(g(n))
    z[8], z[9] = g('f2'), g('a2')
    for k, n in enumerate(('bc2', 'de2', 'hl2', 'ix', 'iy', 'sp', 'pc')):
        z[10 + 2 * k:12 + 2 * k] = _le(g(n))
    z[24], z[25], z[26], z[27], z[28] = g('i'), g('r'), g('iff1'), g('iff2'), g('im')
    z[29:33] = _le(g('tstates'), 4)
    z[35:37] = _le(g('memptr'))
    out += blk(b'Z80R', z)
    out += blk(b'SPCR', bytes((g('border'), g('out7ffd'), 0, g('outfe'), 0, 0, 0, 0)))
    if is128:
        out += blk(b'AY\x00\x00', bytes((0, g('outfffd'))) + bytes(st.get('ay') or (0,) * 16))
    else:
        out += blk(b'KEYB', _le(g('issue2'), 4) + b'\x00')
    for b in (range(8) if is128 else (0, 2, 5)):
        raw = bytes(banks[b])
        if compress:
            out += blk(b'RAMP', _le(1) + bytes((b,)) + zlib.compress(raw))
        else:
            out += blk(b'RAMP', _le(0) + bytes((b,)) + raw)
    return out
