"""Helpers for driving SkoolKit's four simulator implementations from the harness."""
import array

from .refs import z80ref

RIDX = {'A': 0, 'F': 1, 'B': 2, 'C': 3, 'D': 4, 'E': 5, 'H': 6, 'L': 7, 'IXh': 8, 'IXl': 9, 'IYh': 10, 'IYl': 11,
        'SP': 12, 'I': 14, 'R': 15, 'xA': 16, 'xF': 17, 'xB': 18, 'xC': 19, 'xD': 20, 'xE': 21, 'xH': 22, 'xL': 23,
        'PC': 24, 'T': 25, 'IFF': 26, 'IM': 27, 'HALT': 28}
MEMPTR = 29
NAMES = z80ref.State.NAMES

KINDS = ('py', 'c', 'pycmio', 'ccmio')


def sim_class(kind):
    import skoolkit
    from skoolkit.simulator import Simulator
    from skoolkit.cmiosimulator import CMIOSimulator
    return {'py': Simulator, 'pycmio': CMIOSimulator, 'c': skoolkit.CSimulator, 'ccmio': skoolkit.CCMIOSimulator}[kind]


class Tracer:
    """Recording tracer: answers port reads from a fixed function, logs accesses."""
    def __init__(self, answer=0xBF):
        self.answer = answer
        self.log = []

    def read_port(self, registers, port):
        v = self.answer(port) if callable(self.answer) else self.answer
        self.log.append(('in', port, v))
        return v

    def write_port(self, registers, port, value, offset=0):
        self.log.append(('out', port, value))


def new_sim(kind, memory, tracer=None, config=None):
    """memory: list of 65536 ints (48K) or pagingtracer.Memory (128K)."""
    cls = sim_class(kind)
    cfg = dict(config or {})
    if kind in ('c', 'ccmio') and not isinstance(memory, list):
        memory.convert()
    sim = cls(memory, None, None, cfg)
    if tracer is not None:
        sim.set_tracer(tracer)
    return sim


def load_state(sim, st):
    r = sim.registers
    for n in NAMES:
        r[RIDX[n]] = getattr(st, n)


def read_state(sim):
    r = sim.registers
    return z80ref.State(**{n: int(r[RIDX[n]]) for n in NAMES})


def regs_tuple(sim):
    return tuple(int(v) for v in sim.registers)
