"""C18 - annotations and instructions survive conversion intact; line width is respected.

Seams (all driven through the tools' real main(args) in-process):
  asm   skool2asm.main  on generated skool files       (stdout + stderr)
  ctl   sna2skool.main  on generated control files + a small binary image
  html  skool2html.main on generated skool files; the asm/<addr>.html entry pages are
        read with html.parser (text content of title/paragraph/register/address/
        instruction/comment cells)

Space (bounded, enumerated completely; see run() for the exact bound of each tier).  A
*document* is a list of entries; every entry carries annotations in every comment position
(title, description paragraphs, register descriptions with plain / prefixed / delimited
register names, start comment, mid-block comment, instruction comments on groups of 1-4
instructions with operations of length {3,12,23,24,40}, end comment).  Families:
  W  one fixed text set x EVERY line width 40..200                     (asm, ctl)
  L  every sentence length 0..2*(width-2)+1 (in every comment position at once) x 3 word
     styles x group shapes x line width {40,79,120} x configuration deviations d <= 1
     (quick) / d <= 2 (thorough)                                        (asm, ctl)
  B  every word sequence of length <= k over {a, {, }, x}} as an instruction comment
     x group size 1..4 x source line split                              (asm, ctl, html)
  K  #LIST / #TABLE blocks (1-2 items / 1-2 rows x 2 cells, wrappable last column or not)
     in every position that formats them, with text before/after       (asm, html)
  R  #TABLE with a header row (=h), a cell with =r2 / =r3 in a wrappable column whose text
     wraps to fewer lines than the rowspan, exactly the rowspan, +1, +2 and +4 lines (at each
     of the three widths), ordinary cells in the other rows and a =c2 cell, in the
     description / start / mid-block / end comment, with text before/after (asm, html)
  P  register sections: every sequence of 1..3 (thorough: 1..4) register prefixes over {none, I, Output, o, Entry, r}
     plus every letter A-Z a-z as the first letter of a prefix (alone / followed by more letters, then a register
     without a prefix), each with plain and with delimited register names                  (asm, ctl, html)
  U  #LIST bullets: the writer's bullet property {not set, '', '+', '--', '-->'} x the list's bullet parameter
     {not given, '+', '--', '-->'} x every item length 1..2*(width-2)+1 x line width {40,79,120} x 2 of the 7
     block positions, rotating with the length (thorough: all 7, and 2 word styles)       (asm; html for the parameter)
  F  wrap flags of blocks in control-file comments: {#LIST, #TABLE (long cell in the last / in the first column),
     #UDGTABLE} x flag {none, <nowrap>, <wrapalign>} x every row / item text length 1..4*(width-2)+1 (more than four
     full-width lines) x line width {40,79,120} x 1 of the 4 positions D / N (start, mid-block) / E, rotating with the
     length (thorough: all 4, and 2 word styles)   (ctl; asm and html at lengths {1,30,110}: the flag must be ignored)
  X  words that begin or end with a character the skool syntax uses as a marker (. .. ...x .5 x. ;x x; *x x* {x x{ }x x} #x x# @x) x source line layout:
     'layouts': the word in the middle / at the start / at the end of a short text x EVERY way of splitting the text into
     source lines (so the word is first on a continuation line, last on a line, alone on a line, ...) x every comment
     position (title, description, register description with '; .' continuation lines, start / mid-block / end comment,
     comment of one instruction with continuation lines, comment of a two-instruction group);
     'widths': a sentence of all the marker words (every rotation) in all positions at once, the source wrapped at
     every width 6..40;  'texts': word x text x position for control files (one-line source)      (asm, html; ctl)
  N  line widths 31 and 24 (narrower than the longest word, so that one unbreakable word
     cannot fit in any comment position)                                (asm)
  H  a smaller length sweep for the entry pages                         (html)

Oracle (mc/refs/c18_model.py; written from the documentation, imports no skoolkit code):
the white-space-split word sequence of every annotation appears exactly once, in order,
in the place that belongs to the same entry / instruction group (table cells per cell
in HTML, per column in ASM); every instruction is listed exactly once, in order, with its
operation (and address where the output shows addresses); no output line is longer than
the configured width unless what follows its fixed prefix is one unbreakable word, a table
row, or an instruction field/minimum comment field that cannot fit - and then skool2asm
must have printed a warning about exactly that line (or table).
"""
import os
import re
import shutil
import itertools

from .. import core, tools
from ..refs import c18_model as M

PROPERTY = 'C18'
NEEDS_C = False

# ----------------------------------------------------------------------------- configurations
ASM_DEFAULT = dict(instruction_width=23, indent=2, tab=0, crlf=0, comment_width_min=10, wrap_column_width_min=10)
ASM_ALTS = dict(instruction_width=[10, 30], indent=[0, 8], tab=[1], crlf=[1], comment_width_min=[5, 20, 40],
                wrap_column_width_min=[5, 20])
CTL_DEFAULT = dict(instruction_width=13, comment_width_min=10, semicolons='c')
CTL_ALTS = dict(instruction_width=[5, 25], comment_width_min=[5, 20, 40], semicolons=['', 'bcgistuw'])
WIDTHS3 = (79, 40, 120)
NARROW = (31, 24)


def asm_args(cfg, path):
    a = ['-q', '-P', 'line-width={}'.format(cfg['line_width'])]
    for k, d in ASM_DEFAULT.items():
        if cfg.get(k, d) != d:
            a += ['-P', '{}={}'.format(k.replace('_', '-'), cfg[k])]
    if 'bullet' in cfg:
        a += ['-P', 'bullet={}'.format(cfg['bullet'])]
    return a + [path]


def ctl_args(cfg, ctl, binfile, org):
    a = ['-o', str(org), '-c', ctl, '-w', str(cfg['line_width'])]
    names = dict(instruction_width='InstructionWidth', comment_width_min='CommentWidthMin', semicolons='Semicolons')
    for k, d in CTL_DEFAULT.items():
        if cfg.get(k, d) != d:
            a += ['-I', '{}={}'.format(names[k], cfg[k])]
    return a + [binfile]


def configs(default, alts, d, widths):
    out = []
    for w in widths:
        for k, cfg in core.deviations(default, alts, d):
            c = dict(cfg)
            c['line_width'] = w
            if c not in out:
                out.append(c)
    return out


def cfg_tag(cfg, default):
    parts = ['w{}'.format(cfg['line_width'])]
    for k in default:
        if cfg.get(k, default[k]) != default[k]:
            parts.append('{}={}'.format(k, cfg[k]))
    if 'bullet' in cfg:
        parts.append('bullet={!r}'.format(cfg['bullet']))
    return ','.join(parts)


# ----------------------------------------------------------------------------- shapes
def all_shapes():
    """Instruction groups: every group of 1 or 2 operations over the five lengths; for 3 and
    4 instructions the all-short group, one longer operation in every position, and one
    mixed group."""
    s = [(a,) for a in M.OPLENS]
    s += [(a, b) for a in M.OPLENS for b in M.OPLENS]
    for n in (3, 4):
        s.append((3,) * n)
        for x in M.OPLENS[1:]:
            for pos in range(n):
                s.append(tuple(x if i == pos else 3 for i in range(n)))
    s.append((40, 24, 12))
    s.append((12, 23, 24, 40))
    return s


SHAPES = all_shapes()
LAYOUTS = ('wrap', 'first', 'each')
REGSETS = (
    (('plain', '', 'A'), ('plain', '', 'HL')),
    (('prefixed', 'Input', 'A'), ('plain', '', 'BC'), ('prefixed', 'O', 'DE')),
    (('delim', 'Output', 'B, D'), ('delim', '', 'IX+1'), ('prefixed', 'I', 'C')),
)


# ----------------------------------------------------------------------------- entry builders
def _group_comment(style, length, n, salt, stats, seam):
    words = M.sentence(length, style, salt)
    if not M.brace_form_allowed(words, n):
        # the nesting count of this text drops to zero before its end: the skool source needs more opening
        # braces than sna2skool's wrapper has (the generator writes them for skool2asm/skool2html); for
        # sna2skool such texts are enumerated in family B only (tagged brace_form=prefix-dip)
        if stats is not None:
            stats.counters['brace_text_needs_extra_opening_braces'] += 1
        if seam == 'ctl':
            words = M.sentence(length, 'dense', salt)
    return words


def entry_full(style, length, si, salt, seam, stats=None):
    """All comment positions filled with sentences of `length` characters."""
    sa = SHAPES[si % len(SHAPES)]
    sb = SHAPES[(si + 1) % len(SHAPES)]
    layout = LAYOUTS[(si + length) % 3]
    regs = [(s, p, n, M.sentence(max(length - 3 * i, 0), style, salt + 3 + i))
            for i, (s, p, n) in enumerate(REGSETS[(si + length) % 3])]
    ca = _group_comment(style, length, len(sa), salt + 1, stats, seam)
    cb = _group_comment(style, (length * 2 + 1) % (length + 7), len(sb), salt + 2, stats, seam)
    ga = M.Group(sa, ca, mid=[M.sentence(length, style, salt + 6), M.sentence(length // 2, style, salt + 7)], layout=layout)
    gb = M.Group(sb, cb, mid=[M.sentence(length, style, salt + 8)], layout=LAYOUTS[(si + length + 1) % 3])
    # a short single-instruction comment directly behind the first group (no mid-block comment in between): a group that
    # is not closed where it should be swallows it
    gn = M.Group((3,), M.sentence(min(length, 12), 'dense', salt + 13))
    tag = {'style': style, 'L': length, 'shape': list(sa), 'shape2': list(sb), 'layout': layout}
    return M.Entry(tag, M.sentence(max(length, 1), style, salt),
                   desc=[M.sentence(length, style, salt + 9), M.sentence((length + 1) // 2, style, salt + 10)],
                   regs=regs, groups=[ga, gn, gb],
                   end=[M.sentence(length, style, salt + 11), M.sentence(length // 3, style, salt + 12)])


BRACE_WORDS = ('a', '{', '}', 'x}')


def brace_texts(k):
    for n in range(1, k + 1):
        for t in itertools.product(BRACE_WORDS, repeat=n):
            yield list(t)


def entry_brace(words, n, layout, stats=None):
    oplens = ((3,), (12, 3), (3, 24, 3), (3, 3, 12, 3))[n - 1]
    g = M.Group(oplens, words, layout=layout)
    # the brace group is followed directly by a single-instruction comment (no mid-block comment in between: a group
    # that is closed with too few braces swallows it), then by one behind a mid-block comment
    g1 = M.Group((3,), ['cc'])
    g2 = M.Group((3,), ['bb'], mid=[['a']])
    form = 'sna2skool' if M.brace_form_allowed(words, n) else 'prefix-dip'
    return M.Entry({'brace_text': ' '.join(words), 'n': n, 'layout': layout, 'brace_form': form}, ['a'], groups=[g, g1, g2])


def block_tokens(kind, length, salt):
    it = M.sentence(max(length, 1), 'mixed', salt)
    it2 = M.sentence(max(length // 2, 1), 'dense', salt + 1)
    if kind == 'L1':
        return ('L', (tuple(it),))
    if kind == 'L2':
        return ('L', (tuple(it), tuple(it2)))
    if kind == 'T':
        return ('T', 0, ((('a',), tuple(it2)),))
    if kind == 'Tw':
        return ('T', 1, ((('a',), tuple(it)),))
    if kind == 'T2':
        return ('T', 0, ((('a',), tuple(it2)), (('bb', 'a'), ('w;x',))))
    return ('T', 1, ((('a', 'bb'), tuple(it)), (('bb',), tuple(it2))))       # T2w


BLOCK_KINDS = ('L1', 'L2', 'T', 'Tw', 'T2', 'T2w')
BLOCK_CTX = ((0, 0), (1, 0), (0, 1), (1, 1))        # text before / after the block
BLOCK_POS = ('desc', 'reg', 'start', 'mid', 'end', 'icomment1', 'icomment2')


def entry_with_block(blk, tag, ctx, pos, salt):
    toks = (M.sentence(12, 'dense', salt + 2) if ctx[0] else []) + [blk] + (M.sentence(7, 'dense', salt + 3) if ctx[1] else [])
    plain = ['a', 'bb']
    e = dict(desc=[plain], regs=[('plain', '', 'A', plain)], start=[plain], mid=[plain], end=[plain], c1=plain, c2=plain)
    if pos == 'desc':
        e['desc'] = [toks, plain]
    elif pos == 'reg':
        e['regs'] = [('prefixed', 'Input', 'A', toks), ('plain', '', 'B', plain)]
    elif pos == 'start':
        e['start'] = [plain, toks]
    elif pos == 'mid':
        e['mid'] = [toks]
    elif pos == 'end':
        e['end'] = [toks, plain]
    elif pos == 'icomment1':
        e['c1'] = toks
    else:
        e['c2'] = toks
    g1 = M.Group((12,), e['c1'], mid=e['start'])
    g2 = M.Group((3, 24), e['c2'], mid=e['mid'])
    return M.Entry(dict(tag, ctx=list(ctx), pos=pos), ['a', 'bb'], desc=e['desc'], regs=e['regs'], groups=[g1, g2], end=e['end'])


def entry_block(kind, length, ctx, pos, salt):
    return entry_with_block(block_tokens(kind, length, salt), {'block': kind, 'L': length}, ctx, pos, salt)


# ---- family R: tables with a rowspan cell in a wrappable column, a colspan cell and a header row
SPAN_FIXED = 17         # width of the table outside the wrappable column 0: 3 columns -> 3*3+1 border/padding characters,
                        # columns 1 and 2 are 2 and 3 characters wide, and the comment prefix '; ' takes 2
SPAN_POS = ('desc', 'start', 'mid', 'end')
SPAN_CTX = ((0, 0), (1, 1))


def span_lengths(rs):
    """Cell text lengths that make the =r<rs> cell wrap to rs, rs+1, rs+2 and rs+4 lines at each of the three
    line widths (middle of the last line, so that word boundaries do not matter), plus one that does not wrap."""
    out = [5]
    for w in WIDTHS3:
        a = w - SPAN_FIXED
        for t in (rs, rs + 1, rs + 2, rs + 4):
            out.append((t - 1) * a + a // 2)
    return sorted(set(out))


def span_table(rs, length, style, salt):
    text = M.sentence(length, style, salt)
    rows = [(('=h', 'a'), ('=h', 'bb'), ('=h', 'a')),
            (('=r{}'.format(rs),) + tuple(text), ('a',), ('bb',)),
            (('bb',), ('a',))]
    if rs == 3:
        rows.append((('a',), ('w;x',)))
    rows.append((('a', 'bb'), ('a',), ('bb',)))         # an ordinary row
    rows.append((('=c2', 'bb', 'a'), ('w;x',)))           # a cell spanning columns 0-1
    return ('T', (0,), tuple(rows))


def entry_span(rs, length, style, ctx, pos, salt):
    return entry_with_block(span_table(rs, length, style, salt), {'block': 'R{}'.format(rs), 'L': length, 'style': style}, ctx, pos, salt)


def span_cell_lines(e, line_width, min_col):
    """Generator-side estimate (own greedy wrap) of the number of lines the rowspan cell of a family-R entry needs."""
    for para in e.desc + [p for g in e.groups for p in g.mid] + e.end:
        for tok in para:
            if M.is_block(tok) and tok[0] == 'T':
                for r, c, rs, cs, h, words in M.table_cells(tok)[0]:
                    if rs > 1:
                        return rs, len(M.greedy_wrap(list(words), max(line_width - SPAN_FIXED, min_col)))
    return None


# ---- family U: #LIST items of every length under every bullet setting
BULLET_PROPS = (None, '', '+', '--', '-->')     # the writer's `bullet` property (None: not set, i.e. '*'); lengths 1, 0, 1, 2, 3
BULLET_PARAMS = (None, '+', '--', '-->')        # the list's own bullet parameter (None: not given); lengths -, 1, 2, 3


def entry_bullet(style, length, param, pos, salt):
    """A two-item list (items of `length` and length // 2 characters) with the bullet parameter `param` at `pos`."""
    it = M.sentence(length, style, salt)
    it2 = M.sentence(max(length // 2, 1), 'dense', salt + 1)
    blk = ('L', (tuple(it), tuple(it2)), param)
    return entry_with_block(blk, {'block': 'L2', 'L': length, 'style': style, 'bullet': param}, BLOCK_CTX[length % 4], pos, salt)


def bullet_positions(length, npos):
    """npos of the 7 block positions, rotating with the item length (npos = 7: all of them)."""
    n = len(BLOCK_POS)
    step = n // npos
    return [BLOCK_POS[(length + k * step) % n] for k in range(npos)] if npos < n else list(BLOCK_POS)


# ---- family F: wrap flags of #LIST / #TABLE / #UDGTABLE blocks x row / item length
BLOCK_FLAGS = (None, 'nowrap', 'wrapalign')
FLAG_KINDS = ('L', 'T', 'Tf', 'G')      # list; table, long cell in the last column; table, long cell first; UDGTABLE (ctl only)
FLAG_POS = ('desc', 'start', 'mid', 'end')      # the comments sna2skool wraps block by block (D, N, E directives)


def flag_block(kind, length, style, flag, salt):
    text = tuple(M.sentence(length, style, salt))
    if kind == 'L':
        return ('L', (text, ('a', 'bb')), None, flag)
    if kind == 'Tf':
        return ('T', 0, ((('a',), ('bb',)), (text, ('bb', 'a', 'w;x')), (('bb',), ('a',))), flag, False)
    rows = ((('a',), ('bb',), ('a',)), (('a',), ('bb',)) + (text,), (('bb',), ('a',), ('bb',)))
    return ('T', 1, rows, flag, kind == 'G')


def entry_flag(kind, length, style, flag, pos, salt):
    tag = {'block': kind, 'L': length, 'style': style, 'flag': flag}
    return entry_with_block(flag_block(kind, length, style, flag, salt), tag, BLOCK_CTX[length % 4], pos, salt)


def flag_positions(length, npos):
    n = len(FLAG_POS)
    return [FLAG_POS[(length + k) % n] for k in range(npos)] if npos < n else list(FLAG_POS)


def flagged_row_lines(e, line_width):
    """Generator-side estimate: (flag, number of lines the longest row / item of the entry's block needs at the full
    comment width, length of that row)."""
    for para in e.desc + [p for g in e.groups for p in g.mid] + e.end:
        for tok in para:
            if M.is_block(tok):
                rows = M.block_rows(tok)
                return M.block_flag(tok), max(len(M.greedy_wrap(r, line_width - 2)) for r in rows), max(M.text_len(r) for r in rows)
    return None


# ---- family X: words that begin or end with the characters the skool syntax uses as markers x source line layout
# '.' separates paragraphs / continues a register description, ';' starts a comment, '*' marks an entry point (and is the default
# bullet), '{' '}' delimit multi-instruction comments, '#' starts a macro (followed by capital letters only), '@' starts a directive
MARKER_WORDS = ('.', '..', '...x', '.5', 'x.', ';x', 'x;', '*x', 'x*', '{x', 'x{', '}x', 'x}', '#x', 'x#', '@x')
MARKER_POS = ('title', 'desc', 'reg', 'start', 'mid', 'end', 'icomment1', 'icomment2')
PARAGRAPH_POS = ('desc', 'start', 'mid', 'end')
SRC_WIDTHS = tuple(range(6, 41))        # source wrap widths of the sweep (part 'widths')


def marker_texts(m):
    """The marker word in the middle, at the start and at the end of a short text: (words, index of the marker)."""
    return ((['a', 'bb', m, 'w', 'a'], 2), ([m, 'a', 'bb'], 0), (['a', 'bb', m], 2))


def line_layouts(nwords):
    """Every way of splitting nwords words into source lines: every subset of the nwords-1 gaps between words."""
    for k in range(nwords):
        for c in itertools.combinations(range(1, nwords), k):
            yield list(c)


def entry_marked(tag, texts, lay_of):
    """An entry whose annotation at each position named in `texts` is that word list, laid out in the source as lay_of says
    (an explicit list of line starts or a wrap width); the other annotations are plain."""
    plain = ['a', 'bb']
    t = lambda pos: texts.get(pos, plain)
    lay = {}
    for pos, key in (('title', ('title', 0)), ('desc', ('desc', 0)), ('reg', ('reg', 0)), ('start', ('start', 1)), ('mid', ('mid', 1, 0)), ('end', ('end', 0))):
        if pos in texts:
            lay[key] = lay_of
    g1 = M.Group((12,), t('icomment1'), mid=[plain, t('start')], lay=lay_of if 'icomment1' in texts else None)
    g2 = M.Group((3, 24), t('icomment2'), mid=[t('mid')], lay=lay_of if 'icomment2' in texts else None)
    return M.Entry(tag, t('title'), desc=[t('desc'), plain], regs=[('plain', '', 'A', t('reg')), ('plain', '', 'BC', plain)],
                   groups=[g1, g2], end=[t('end'), plain], lay=lay)


def marker_layout_entries():
    """Part 'layouts': marker word x text (marker in the middle / first / last) x every line layout x comment position."""
    for m in MARKER_WORDS:
        for words, idx in marker_texts(m):
            for breaks in line_layouts(len(words)):
                lines = M.lay_lines(words, breaks, 0)
                for pos in MARKER_POS:
                    if pos in PARAGRAPH_POS and '.' in lines:
                        continue        # a comment line containing a dot on its own is the paragraph separator, not a word
                    tag = {'marker': m, 'text': ' '.join(words), 'breaks': breaks, 'pos': pos}
                    yield entry_marked(tag, {pos: words}, breaks)


def marker_sentence(r):
    """Every marker word once, each followed by a plain word (so that the word '.' is never alone on a line at a wrap
    width >= 3), starting with the r-th marker word."""
    plain = ('a', 'bb', 'w')
    words = []
    for i in range(len(MARKER_WORDS)):
        k = (i + r) % len(MARKER_WORDS)
        words += [MARKER_WORDS[k], plain[k % 3]]
    return words


def marker_width_entries(lo, hi):
    """Part 'widths': every rotation (by marker words) of the sentence of all marker words, in every comment position at once (each position
    with its own rotation), the source greedy-wrapped at every width in SRC_WIDTHS[lo:hi]."""
    n = len(MARKER_WORDS)
    for w in SRC_WIDTHS[lo:hi]:
        for r in range(n):
            texts = {pos: marker_sentence(r + 5 * k) for k, pos in enumerate(MARKER_POS)}
            for pos in PARAGRAPH_POS:
                assert '.' not in M.lay_lines(texts[pos], w, 0)
            yield entry_marked({'marker_rotation': r, 'src_width': w}, texts, w)


def marker_text_entries():
    """Part 'texts' (control files: the source is one line, so there is no layout): marker word x text x comment position."""
    for m in MARKER_WORDS:
        for words, idx in marker_texts(m):
            for pos in MARKER_POS:
                yield entry_marked({'marker': m, 'text': ' '.join(words), 'pos': pos}, {pos: words}, None)


def marker_line_places(e):
    """Generator-side: where the marker word of a part-'layouts' entry stands in its source line."""
    words = e.tag['text'].split()
    idx = words.index(e.tag['marker'])
    br = set(e.tag['breaks'])
    first = idx in br
    last = idx + 1 in br or idx == len(words) - 1
    out = []
    if first:
        out.append('first_on_continuation_line')
    if last and len(br) > 0:
        out.append('last_on_line')
    if (first or idx == 0) and last and len(br) > 0:
        out.append('alone_on_line')
    return out


# ---- family P: register sections with every kind of prefix
# "If a register's prefix begins with the letter 'O', it is regarded as an output value; if it begins with any other
# letter, it is regarded as an input value. If a register has no prefix, it will be placed in the same table as the
# previous register; if there is no previous register, ... input values."
PREFIX_ALPHABET = ('', 'I', 'Output', 'o', 'Entry', 'r')
PREFIX_LETTERS = 'ABCDEFGHIJKLMNOPQRSTUVWXYZabcdefghijklmnopqrstuvwxyz'
PREFIX_NAMES = {'plain': ('A', 'BC', 'HL', 'DE'), 'delim': ('B, D', 'IX+1', 'H, L', 'SP')}


def prefix_sections(k):
    """Every sequence of 1..k prefixes over PREFIX_ALPHABET; then every letter as the first letter of a prefix (alone
    and followed by more letters), each followed by a register without a prefix."""
    seen = set()
    for n in range(1, k + 1):
        for seq in itertools.product(PREFIX_ALPHABET, repeat=n):
            seen.add(seq)
            yield seq
    for ch in PREFIX_LETTERS:
        for seq in ((ch, ''), (ch + 'xy', '')):
            if seq not in seen:
                yield seq


def entry_prefixes(seq, form, salt):
    regs = []
    for i, prefix in enumerate(seq):
        style = 'delim' if form == 'delim' else ('prefixed' if prefix else 'plain')
        regs.append((style, prefix, PREFIX_NAMES[form][i], M.sentence(10 + 7 * i, 'dense', salt + i)))
    g = M.Group((3,), ['a'])
    return M.Entry({'prefixes': list(seq), 'form': form}, ['a', 'bb'], desc=[['bb', 'a']], regs=regs, groups=[g])


# ----------------------------------------------------------------------------- document keys
W_LENGTHS = (0, 1, 9, 20, 33, 45, 77, 100, 150, 236, 330)
CHUNK = 48
SOLO_CAP = 12         # per shard and (position, kind): single-entry re-runs to minimise a counter-example


def doc_entries(key, seed, seam, stats=None):
    """Deterministically rebuild the entries of a document from its key."""
    fam = key['fam']
    salt = seed * 5
    ents = []
    if fam == 'W':
        for style in ('dense', 'mixed', 'brace'):
            for li, length in enumerate(W_LENGTHS):
                for j in range(key['nshapes']):
                    si = (j * 7 + li * 3 + seed) % len(SHAPES)
                    ents.append(entry_full(style, length, si, salt + j, seam, stats))
    elif fam == 'N':
        for length in (30, 45, 77):
            for j in range(4):
                ents.append(entry_full('mixed', length, (j * 11 + seed) % len(SHAPES), salt + j, seam, stats))
    elif fam in ('L', 'H'):
        style = key['style']
        for length in range(key['lo'], key['hi']):
            for si in range(len(SHAPES)):
                if (si - length - seed) % key['mod'] == 0:
                    ents.append(entry_full(style, length, si, salt + si, seam, stats))
    elif fam == 'B':
        for words in brace_texts(key['k']):
            for n in (1, 2, 3, 4):
                for layout in LAYOUTS:
                    if layout != 'wrap' and (seam == 'ctl' or (n == 1 and not M.needs_braces(words, 1))):
                        continue        # the source line split is immaterial here
                    if not M.brace_form_allowed(words, n) and stats is not None:
                        stats.counters['brace_text_needs_extra_opening_braces'] += 1
                    ents.append(entry_brace(words, n, layout))
    elif fam == 'K':
        for kind in BLOCK_KINDS:
            for length in key['lengths']:
                for ctx in BLOCK_CTX:
                    for pos in BLOCK_POS:
                        ents.append(entry_block(kind, length, ctx, pos, salt))
    elif fam == 'R':
        for rs in (2, 3):
            for length in span_lengths(rs):
                for style in ('dense', 'mixed'):
                    for ctx in SPAN_CTX:
                        for pos in SPAN_POS:
                            ents.append(entry_span(rs, length, style, ctx, pos, salt))
    elif fam == 'U':
        for length in range(key['lo'], key['hi']):
            for param in BULLET_PARAMS:
                for pos in bullet_positions(length + seed, key['npos']):
                    ents.append(entry_bullet(key['style'], length, param, pos, salt))
    elif fam == 'F':
        kinds = FLAG_KINDS if seam == 'ctl' else FLAG_KINDS[:3]
        for length in (key['lengths'] if 'lengths' in key else range(key['lo'], key['hi'])):
            for kind in kinds:
                for flag in BLOCK_FLAGS:
                    for pos in flag_positions(length + seed, key['npos']):
                        ents.append(entry_flag(kind, length, key['style'], flag, pos, salt))
    elif fam == 'X':
        if key['part'] == 'layouts':
            ents = list(marker_layout_entries())
        elif key['part'] == 'widths':
            ents = list(marker_width_entries(key['lo'], key['hi']))
        else:
            ents = list(marker_text_entries())
    elif fam == 'P':
        for seq in prefix_sections(key['k']):
            for form in ('plain', 'delim'):
                ents.append(entry_prefixes(seq, form, salt))
    else:
        raise ValueError(fam)
    lo = key.get('chunk', 0) * CHUNK if 'chunk' in key else 0
    if 'chunk' in key:
        ents = ents[lo:lo + CHUNK]
    if key.get('only') is not None:
        ents = [ents[key['only']]]
    M.layout_doc(ents)
    return ents


def chunked(key, seed, seam):
    n = len(doc_entries(key, seed, seam))
    return [dict(key, chunk=c) for c in range((n + CHUNK - 1) // CHUNK)]


# ----------------------------------------------------------------------------- oracles
WARN_LINE = re.compile(r'WARNING: Line is (\d+) characters long:\n([^\n]*)')
WARN_TABLE = re.compile(r'WARNING: Table in entry at (\d+) is (\d+) characters wide')


class Prob:
    __slots__ = ('entry', 'pos', 'kind', 'detail')

    def __init__(self, entry, pos, kind, detail):
        self.entry, self.pos, self.kind, self.detail = entry, pos, kind, detail


def _cmp_tokens(probs, ei, pos, want, got):
    if want != got:
        kind = 'words'
        if sorted(map(str, want)) == sorted(map(str, got)):
            kind = 'word-order'
        probs.append(Prob(ei, pos, kind, 'expected {!r} got {!r}'.format(_short(want), _short(got))))


def _short(toks, n=14):
    toks = list(toks)
    if len(toks) > 2 * n:
        return toks[:n] + ['...({} more)...'.format(len(toks) - 2 * n)] + toks[-n:]
    return toks


def _reg_tokens(reg, mode):
    style, prefix, name, d = reg
    return ((prefix + ':' if prefix else '') + name).split(), M.flat_tokens(d, mode)


def check_asm(ents, cfg, res, counters=None):
    """-> list of Prob."""
    probs = []
    if counters is None:
        counters = {}
    if res.rc:
        return [Prob(None, 'tool', 'crash', 'skool2asm failed: {} {}'.format(res.exc, res.err[-300:]))]
    W = cfg['line_width']
    tab = cfg.get('tab', 0)
    indent = cfg.get('indent', 2)
    ind_chars = 1 if tab else indent
    iw = cfg.get('instruction_width', 23)
    cwmin = cfg.get('comment_width_min', 10)
    bprop = cfg.get('bullet', M.BULLET)        # the writer's bullet property

    def flat(tokens):
        return M.flat_tokens(tokens, 'asm', bprop)

    def entry_bullets(e):
        # the non-empty bullets the lists of this entry are written with (fixed prefixes of list item lines)
        anns = [e.title] + e.desc + [r[3] for r in e.regs] + e.end
        for g in e.groups:
            anns += g.mid + [g.comment]
        out = set()
        for a in anns:
            out |= M.bullets_in(a, bprop)
        return out

    out_entries, rp = M.read_asm(res.out, cfg.get('crlf', 0), indent, tab)
    for p in rp:
        probs.append(Prob(None, 'output', 'format', p))
    warned_lines = set((int(n), l.rstrip('\r')) for n, l in WARN_LINE.findall(res.err))
    warned_tables = set(int(a) for a, w in WARN_TABLE.findall(res.err))
    if len(out_entries) != len(ents):
        probs.append(Prob(None, 'output', 'entries', '{} entries in the output, {} in the skool file'.format(len(out_entries), len(ents))))
        return probs

    def term_check(ei, pos, ln):
        if ln.bad_term:
            probs.append(Prob(ei, pos, 'line-terminator', 'line not terminated by the configured line terminator ({}): {!r}'.format(
                'CR+LF' if cfg.get('crlf') else 'LF', ln.raw)))

    def width_check(ei, e, pos, ln, text=None, limit2=0):
        term_check(ei, pos, ln)
        n = len(ln.raw)
        if n <= W:
            return
        if text is None:
            text = ln.text or ''
        toks = text.split()
        ntext = len(toks)
        if toks[:1] and toks[0] in bullets[0]:
            ntext -= 1
        table = M.is_table_line(text)
        excusable = table or ntext <= 1 or n <= limit2
        if not excusable:
            probs.append(Prob(ei, pos, 'overlong', 'line of {} characters (width {}) without an unbreakable word: {!r}'.format(n, W, ln.raw)))
            return
        if table:
            ok = e.addr in warned_tables or (n, ln.raw) in warned_lines
        else:
            ok = (n, ln.raw) in warned_lines
        if not ok:
            probs.append(Prob(ei, pos, 'overlong-no-warning', 'line of {} characters (width {}) and no warning on stderr: {!r}'.format(n, W, ln.raw)))
        else:
            k = 'asm_overlong_table_warned' if table else ('asm_overlong_word_warned' if ntext <= 1 else 'asm_overlong_minwidth_warned')
            counters[k] = counters.get(k, 0) + 1

    def check_regs(ei, e, blk):
        # a register's first line starts with its name field; the field is fixed text, not part of the description
        fields = [((r[1] + ':' if r[1] else '') + r[2]) for r in e.regs]
        per = []
        for l in blk:
            s = l.text.strip()
            nxt = fields[len(per)] if len(per) < len(fields) else None
            if nxt is not None and (s == nxt or s.startswith(nxt + ' ')):
                idx = l.text.index(nxt)
                per.append([(l, ' ' * (idx + len(nxt)) + l.text[idx + len(nxt):])])
            elif per:
                per[-1].append((l, l.text))
            else:
                probs.append(Prob(ei, 'regs', 'words', 'register section does not start with the first register name {!r}: {!r}'.format(fields[0], l.raw)))
                return
        if len(per) != len(fields):
            probs.append(Prob(ei, 'regs', 'words', 'expected registers {} but found {} register lines: {!r}'.format(fields, len(per), [l.raw for l in blk][:8])))
            return
        for k, (r, grp) in enumerate(zip(e.regs, per)):
            _cmp_tokens(probs, ei, 'regs[{}]'.format(k), flat(r[3]), M.asm_tokens([t for l, t in grp]))
            for l, t in grp:
                width_check(ei, e, 'regs[{}]'.format(k), l, text=t)

    bullets = [set()]
    for ei, (e, lines) in enumerate(zip(ents, out_entries)):
        bullets[0] = entry_bullets(e)
        i = 0
        while i < len(lines) and lines[i].kind == 'c':
            i += 1
        header = lines[:i]
        # ---- header blocks
        want = [('title', flat(e.title))]
        want += [('desc[{}]'.format(k), flat(p)) for k, p in enumerate(e.desc)]
        if e.regs:
            want.append(('regs', None))         # compared register by register in check_regs
        want += [('start[{}]'.format(k), flat(p)) for k, p in enumerate(e.groups[0].mid)]
        hb = []     # blocks of AsmLines
        cur = []
        for ln in header:
            if ln.text.strip() == '':
                hb.append(cur)
                cur = []
            else:
                cur.append(ln)
        hb.append(cur)
        if len(hb) != len(want):
            probs.append(Prob(ei, 'header', 'paragraphs', 'expected comment blocks {} but the output has {} blocks: {!r}'.format(
                [w[0] for w in want], len(hb), [l.raw for l in header][:12])))
        else:
            for (pos, wt), blk in zip(want, hb):
                if pos == 'regs':
                    check_regs(ei, e, blk)
                    continue
                got = M.asm_tokens([l.text for l in blk])
                _cmp_tokens(probs, ei, pos, wt, got)
                for l in blk:
                    width_check(ei, e, pos, l)
        # ---- body
        for gi, g in enumerate(e.groups):
            pos = 'group[{}]'.format(gi)
            cl = []
            while i < len(lines) and lines[i].kind == 'c':
                cl.append(lines[i])
                i += 1
            if gi > 0:
                wantp = [flat(p) for p in g.mid]
                gotp = [M.asm_tokens(b) for b in M.split_comment_blocks(cl)] if cl else []
                if len(wantp) != len(gotp):
                    probs.append(Prob(ei, 'mid[{}]'.format(gi), 'paragraphs', 'expected {} mid-block paragraphs, got {}: {!r}'.format(
                        len(wantp), len(gotp), [l.raw for l in cl][:8])))
                else:
                    for k, (a, b) in enumerate(zip(wantp, gotp)):
                        _cmp_tokens(probs, ei, 'mid[{}][{}]'.format(gi, k), a, b)
                for l in cl:
                    if l.text.strip():
                        width_check(ei, e, 'mid[{}]'.format(gi), l)
            texts = []
            glines = []
            bad = False
            for k, (op, data, ctl) in enumerate(g.ops):
                if i >= len(lines) or lines[i].kind != 'i' or lines[i].op != op:
                    probs.append(Prob(ei, pos, 'instruction', 'instruction {} {!r} of the group not found where expected; output line: {!r}'.format(
                        k, op, lines[i].raw if i < len(lines) else None)))
                    bad = True
                    break
                glines.append(lines[i])
                if lines[i].text is not None:
                    texts.append(lines[i].text)
                i += 1
                while i < len(lines) and lines[i].kind == 'k':
                    glines.append(lines[i])
                    texts.append(lines[i].text)
                    i += 1
            if bad:
                break
            _cmp_tokens(probs, ei, pos + '.comment', flat(g.comment), M.asm_tokens(texts))
            gw = max([iw] + list(g.oplens))
            limit2 = ind_chars + gw + 3 + cwmin
            for l in glines:
                if l.text is None:
                    term_check(ei, pos, l)
                    n = len(l.raw)
                    if n > W and (n, l.raw) not in warned_lines:
                        probs.append(Prob(ei, pos, 'overlong-no-warning', 'instruction line of {} characters (width {}) and no warning: {!r}'.format(n, W, l.raw)))
                else:
                    width_check(ei, e, pos + '.comment', l, limit2=limit2)
        else:
            cl = lines[i:]
            if any(l.kind != 'c' for l in cl):
                probs.append(Prob(ei, 'end', 'instruction', 'unexpected instruction lines after the last group: {!r}'.format([l.raw for l in cl if l.kind != 'c'][:4])))
            else:
                wantp = [flat(p) for p in e.end]
                gotp = [M.asm_tokens(b) for b in M.split_comment_blocks(cl)] if cl else []
                if len(wantp) != len(gotp):
                    probs.append(Prob(ei, 'end', 'paragraphs', 'expected {} end-comment paragraphs, got {}: {!r}'.format(len(wantp), len(gotp), [l.raw for l in cl][:8])))
                else:
                    for k, (a, b) in enumerate(zip(wantp, gotp)):
                        _cmp_tokens(probs, ei, 'end[{}]'.format(k), a, b)
                for l in cl:
                    if l.text.strip():
                        width_check(ei, e, 'end', l)
    return probs


def check_ctl(ents, cfg, res, counters=None):
    probs = []
    if counters is None:
        counters = {}
    if res.rc:
        return [Prob(None, 'tool', 'crash', 'sna2skool failed: {} {}'.format(res.exc, res.err[-300:]))]
    W = cfg['line_width']
    iw = cfg.get('instruction_width', 13)
    cwmin = cfg.get('comment_width_min', 10)
    out_entries, rp = M.read_skool(res.out)
    for p in rp:
        probs.append(Prob(None, 'output', 'format', p))
    # the terminating 'i' block produces no entry (it is empty and untitled at the end of the image)
    if len(out_entries) != len(ents):
        probs.append(Prob(None, 'output', 'entries', '{} entries in the skool file, {} in the control file'.format(len(out_entries), len(ents))))
        return probs
    for ei, (e, o) in enumerate(zip(ents, out_entries)):
        _cmp_tokens(probs, ei, 'title', M.source_words(e.title), o.title)
        if [M.source_words(p) for p in e.desc] != o.desc:
            probs.append(Prob(ei, 'desc', 'words', 'expected paragraphs {!r} got {!r}'.format([_short(M.source_words(p)) for p in e.desc], [_short(p) for p in o.desc])))
        wr = []
        for r in e.regs:
            a, b = _reg_tokens(r, 'plain')
            # a delimited register name is written with its delimiters
            if r[0] == 'delim':
                a = M.reg_field(*r[:3]).split()
            wr.append(a + b)
        if wr != o.regs:
            probs.append(Prob(ei, 'regs', 'words', 'expected registers {!r} got {!r}'.format([_short(x) for x in wr], [_short(x) for x in o.regs])))
        if [M.source_words(p) for p in e.groups[0].mid] != o.start:
            probs.append(Prob(ei, 'start', 'words', 'expected start comment {!r} got {!r}'.format(
                [_short(M.source_words(p)) for p in e.groups[0].mid], [_short(p) for p in o.start])))
        want = []
        for gi, g in enumerate(e.groups):
            if gi and g.mid:
                want.append(('mid', [M.source_words(p) for p in g.mid]))
            members = [(a, op) for a, (op, d, c) in zip(g.addrs, g.ops)]
            words = M.source_words(g.comment)
            if not words and len(members) > 1:
                # no text on the C/M directive: no comment is declared, nothing groups the instructions
                for m in members:
                    want.append(('group', [m], []))
            else:
                want.append(('group', members, words))
        got = [tuple(x) for x in o.items]
        want = [tuple(x) for x in want]
        if want != got:
            # locate the first difference
            k = 0
            while k < min(len(want), len(got)) and want[k] == got[k]:
                k += 1
            w = want[k] if k < len(want) else None
            g_ = got[k] if k < len(got) else None
            kind = 'words'
            if w and g_ and w[0] == g_[0] == 'group' and w[1] != g_[1]:
                kind = 'attachment'
            probs.append(Prob(ei, 'body[{}]'.format(k), kind, 'expected {!r} got {!r}'.format(_item_short(w), _item_short(g_))))
        if [M.source_words(p) for p in e.end] != o.end:
            probs.append(Prob(ei, 'end', 'words', 'expected end comment {!r} got {!r}'.format([_short(M.source_words(p)) for p in e.end], [_short(p) for p in o.end])))
        # ---- line width
        opw = max([iw] + [ol for g in e.groups for ol in g.oplens])
        limit2 = 7 + opw + 3 + cwmin
        nowrap = set()
        for ann in [e.title] + e.desc + e.end + [p for g in e.groups for p in g.mid]:
            nowrap |= M.nowrap_rows(ann)
        for line in o.lines:
            n = len(line)
            if n <= W or line.startswith('@'):
                continue
            if line.startswith(';') and line[1:].strip() in nowrap:
                # "nowrap - write each list item / table row on a single line"
                counters['ctl_overlong_nowrap_row'] = counters.get('ctl_overlong_nowrap_row', 0) + 1
                continue
            if line.startswith(';'):
                toks = line[1:].split()
                # fixed prefix of a register line: the register field / the continuation dot
                ntext = len(toks)
                if toks and (toks[0] == '.' or any(toks[:len(x)] == x for x in [M.reg_field(*r[:3]).split() for r in e.regs])):
                    ntext -= 1
                    for x in [M.reg_field(*r[:3]).split() for r in e.regs]:
                        if toks[:len(x)] == x:
                            ntext = len(toks) - len(x)
                if ntext <= 1:
                    counters['ctl_overlong_word'] = counters.get('ctl_overlong_word', 0) + 1
                if ntext > 1:
                    probs.append(Prob(ei, 'comment', 'overlong', 'line of {} characters (width {}) without an unbreakable word: {!r}'.format(n, W, line)))
            else:
                op, sep, com = line[6:].partition(';')
                counters['ctl_overlong_instruction_line'] = counters.get('ctl_overlong_instruction_line', 0) + 1
                if len(com.split()) > 1 and n > limit2:
                    probs.append(Prob(ei, 'instruction', 'overlong', 'line of {} characters (width {}) without an unbreakable word: {!r}'.format(n, W, line)))
    return probs


def _item_short(x):
    if x is None:
        return None
    if x[0] == 'mid':
        return ('mid', [_short(p) for p in x[1]])
    return ('group', x[1], _short(x[2]))


def check_html(ents, pages, counters=None):
    """pages: dict address -> list of page events (M.read_page) or None."""
    probs = []
    if counters is None:
        counters = {}
    for ei, e in enumerate(ents):
        got = pages.get(e.addr)
        if got is None:
            probs.append(Prob(ei, 'page', 'missing', 'no entry page for {}'.format(e.addr)))
            continue
        for x in got:
            if x[0] == 'instr' and x[4] > 1:
                counters['html_rowspan_gt1'] = counters.get('html_rowspan_gt1', 0) + 1
            if x[0] == 'instr' and x[3] and M.TD in x[3]:
                counters['html_table_in_comment_cell'] = counters.get('html_table_in_comment_cell', 0) + 1
            if x[0] == 'desc' and M.LI in x[1]:
                counters['html_list_in_paragraph'] = counters.get('html_list_in_paragraph', 0) + 1
        want = [('title', ['{}:'.format(e.addr)] + M.flat_tokens(e.title, 'html'))]
        want += [('desc', M.flat_tokens(p, 'html')) for p in e.desc]
        mode = 'input'
        regs = {'input': [], 'output': []}
        for r in e.regs:
            if r[1]:
                mode = 'output' if r[1].upper().startswith('O') else 'input'
            regs[mode].append(('reg', mode, r[2].split(), M.flat_tokens(r[3], 'html')))
        want += regs['input'] + regs['output']
        for gi, g in enumerate(e.groups):
            if g.mid:
                want.append(('comments', [M.flat_tokens(p, 'html') for p in g.mid]))
            for k, ((op, d, c), a) in enumerate(zip(g.ops, g.addrs)):
                if k == 0:
                    want.append(('instr', [str(a)], op, M.flat_tokens(g.comment, 'html'), len(g.ops)))
                else:
                    want.append(('instr', [str(a)], op, None, 0))
        if e.end:
            want.append(('comments', [M.flat_tokens(p, 'html') for p in e.end]))
        want = [tuple(w) for w in want]
        got = [tuple(x) for x in got]
        if want != got:
            k = 0
            while k < min(len(want), len(got)) and want[k] == got[k]:
                k += 1
            w = want[k] if k < len(want) else None
            g_ = got[k] if k < len(got) else None
            kind = 'words'
            if w and g_ and w[0] == g_[0] == 'instr' and (w[1] != g_[1] or w[2] != g_[2]):
                kind = 'instruction'
            elif w and g_ and w[0] == g_[0] == 'instr' and w[4] != g_[4]:
                kind = 'attachment'
            probs.append(Prob(ei, 'page-item[{}]:{}'.format(k, w[0] if w else 'extra'), kind, 'expected {!r} got {!r}'.format(w, g_)))
    return probs


# ----------------------------------------------------------------------------- execution
def run_doc(seam, key, cfg, seed, stats=None):
    """Build the document, run the tool once, return (entries, problems)."""
    ents = doc_entries(key, seed, seam, stats)
    d = tools.workdir()
    if seam == 'asm':
        path = tools.write_file('c18.skool', M.render_skool(ents), d)
        res = tools.run_tool('skool2asm', asm_args(cfg, path))
        probs = check_asm(ents, cfg, res, stats.counters if stats is not None else None)
    elif seam == 'ctl':
        ctl, data = M.render_ctl(ents)
        cpath = tools.write_file('c18.ctl', ctl, d)
        bpath = tools.write_file('c18.bin', data, d)
        res = tools.run_tool('sna2skool', ctl_args(cfg, cpath, bpath, ents[0].addr))
        probs = check_ctl(ents, cfg, res, stats.counters if stats is not None else None)
    else:
        path = tools.write_file('c18h.skool', M.render_skool(ents, start=False), d)
        outdir = os.path.join(d, 'html')
        shutil.rmtree(outdir, ignore_errors=True)
        a = ['-q', '-d', outdir]
        if cfg.get('single_page'):
            a.append('-1')
        res = tools.run_tool('skool2html', a + [path])
        if res.rc:
            probs = [Prob(None, 'tool', 'crash', 'skool2html failed: {} {}'.format(res.exc, res.err[-300:]))]
        else:
            pages = {}
            if cfg.get('single_page'):
                # one page holds every entry: split its events at the entry titles ("<address>: <title>")
                p = os.path.join(outdir, 'c18h', 'asm.html')
                events = M.read_page(tools.read_file(p, binary=False)) if os.path.exists(p) else []
                cur = None
                for ev in events:
                    if ev[0] == 'title':
                        a = ev[1][0].rstrip(':') if ev[1] else ''
                        cur = pages.setdefault(int(a) if a.isdigit() else a, [])
                    if cur is not None:
                        cur.append(ev)
            else:
                for e in ents:
                    p = os.path.join(outdir, 'c18h', 'asm', '{}.html'.format(e.addr))
                    pages[e.addr] = M.read_page(tools.read_file(p, binary=False)) if os.path.exists(p) else None
            probs = check_html(ents, pages, stats.counters if stats is not None else None)
        shutil.rmtree(outdir, ignore_errors=True)
    return ents, probs


def source_text(seam, ents):
    if seam == 'ctl':
        ctl, data = M.render_ctl(ents)
        return 'control file:\n{}binary image at {} (hex): {}'.format(ctl, ents[0].addr, data.hex())
    return M.render_skool(ents, start=seam == 'asm')


def command_line(seam, cfg):
    if seam == 'asm':
        return 'skool2asm.py ' + ' '.join(asm_args(cfg, 'c18.skool'))
    if seam == 'ctl':
        return 'sna2skool.py ' + ' '.join(ctl_args(cfg, 'c18.ctl', 'c18.bin', '<address>'))
    return 'skool2html.py -q -d out {}c18h.skool'.format('-1 ' if cfg.get('single_page') else '')


def work_list(tier, seed):
    """Fixed-order list of (seam, doc key, cfg): simplest first."""
    quick = tier == 'quick'
    d = 1 if quick else 2
    work = []
    asm_cfgs = configs(ASM_DEFAULT, ASM_ALTS, d, WIDTHS3)
    ctl_cfgs = configs(CTL_DEFAULT, CTL_ALTS, d, WIDTHS3)
    bk = 4 if quick else 5
    # B: braces
    for key in chunked({'fam': 'B', 'k': bk}, seed, 'asm'):
        for w in WIDTHS3:
            work.append(('asm', key, dict(ASM_DEFAULT, line_width=w)))
        work.append(('html', key, {}))
    for key in chunked({'fam': 'B', 'k': bk}, seed, 'ctl'):
        for cfg in ctl_cfgs:
            if cfg['semicolons'] == 'c':
                work.append(('ctl', key, cfg))
    # K: blocks
    klens = (1, 8, 30, 45, 70, 110) if quick else (1, 8, 20, 30, 36, 45, 70, 78, 110, 150)
    kkey = {'fam': 'K', 'lengths': list(klens)}
    for key in chunked(kkey, seed, 'asm'):
        for cfg in asm_cfgs:
            if all(cfg[k] == ASM_DEFAULT[k] for k in ('tab', 'crlf', 'indent')):
                work.append(('asm', key, cfg))
        work.append(('html', key, {}))
    # R: rowspan / colspan / header tables
    for key in chunked({'fam': 'R'}, seed, 'asm'):
        for cfg in asm_cfgs:
            if all(cfg[k] == ASM_DEFAULT[k] for k in ('tab', 'crlf', 'indent', 'instruction_width', 'comment_width_min')):
                work.append(('asm', key, cfg))
        work.append(('html', key, {}))
    # P: register prefixes
    for key in chunked({'fam': 'P', 'k': 3 if quick else 4}, seed, 'asm'):
        for w in WIDTHS3:
            work.append(('asm', key, dict(ASM_DEFAULT, line_width=w)))
            work.append(('ctl', key, dict(CTL_DEFAULT, line_width=w)))
        work.append(('html', key, {}))
    # U: list bullets x item length sweep
    npos = 2 if quick else 7
    for w in WIDTHS3:
        top = 2 * (w - 2) + 2
        for style in (('dense',) if quick else ('dense', 'mixed')):
            for lo in range(1, top, 6):
                key = {'fam': 'U', 'style': style, 'lo': lo, 'hi': min(lo + 6, top), 'npos': npos}
                for prop in BULLET_PROPS:
                    cfg = dict(ASM_DEFAULT, line_width=w)
                    if prop is not None:
                        cfg['bullet'] = prop
                    work.append(('asm', key, cfg))
    for lo in range(1, 113 if quick else 241, 16):
        work.append(('html', {'fam': 'U', 'style': 'dense', 'lo': lo, 'hi': lo + 16, 'npos': 1 if quick else 7}, {}))
    # F: wrap flags of blocks x row / item length up to four full-width lines (ctl); the flags are no concern of skool2asm / skool2html
    for w in WIDTHS3:
        top = 4 * (w - 2) + 2
        for style in (('dense',) if quick else ('dense', 'mixed')):
            for lo in range(1, top, 4):
                key = {'fam': 'F', 'style': style, 'lo': lo, 'hi': min(lo + 4, top), 'npos': 1 if quick else 4}
                work.append(('ctl', key, dict(CTL_DEFAULT, line_width=w)))
    fkey = {'fam': 'F', 'style': 'dense', 'lengths': [1, 30, 110], 'npos': 4}
    for key in chunked(fkey, seed, 'asm'):
        for w in WIDTHS3:
            work.append(('asm', key, dict(ASM_DEFAULT, line_width=w)))
        work.append(('html', key, {}))
    # X: marker words x source line layout (asm at a wide and a narrow line width; html), and x output width for control files
    for key in chunked({'fam': 'X', 'part': 'layouts'}, seed, 'asm'):
        for w in (79, 40):
            work.append(('asm', key, dict(ASM_DEFAULT, line_width=w)))
        work.append(('html', key, {}))
    for lo in range(len(SRC_WIDTHS)):
        key = {'fam': 'X', 'part': 'widths', 'lo': lo, 'hi': lo + 1}
        for w in (79, 40):
            work.append(('asm', key, dict(ASM_DEFAULT, line_width=w)))
        work.append(('html', key, {}))
    for key in chunked({'fam': 'X', 'part': 'texts'}, seed, 'ctl'):
        for w in WIDTHS3:
            work.append(('ctl', key, dict(CTL_DEFAULT, line_width=w)))
    # L: length sweep
    mod = 6 if quick else 2
    for w in WIDTHS3:
        top = 2 * (w - 2) + 2
        for style in ('dense', 'mixed', 'brace'):
            for lo in range(0, top, 8):
                key = {'fam': 'L', 'style': style, 'lo': lo, 'hi': min(lo + 8, top), 'mod': mod}
                for cfg in asm_cfgs:
                    if cfg['line_width'] == w:
                        work.append(('asm', key, cfg))
                for cfg in ctl_cfgs:
                    if cfg['line_width'] == w:
                        work.append(('ctl', key, cfg))
    # W: complete line-width sweep over one fixed text set
    wkey = {'fam': 'W', 'nshapes': 4 if quick else 12}
    for key in chunked(wkey, seed, 'asm'):
        for w in range(40, 201):
            work.append(('asm', key, dict(ASM_DEFAULT, line_width=w)))
            work.append(('ctl', key, dict(CTL_DEFAULT, line_width=w)))
    # N: line widths narrower than the longest word in every comment position (asm)
    for w in NARROW:
        work.append(('asm', {'fam': 'N'}, dict(ASM_DEFAULT, line_width=w)))
    # H: entry pages, length sweep subset
    for style in ('dense', 'mixed', 'brace'):
        for lo in range(0, 160 if quick else 240, 16):
            work.append(('html', {'fam': 'H', 'style': style, 'lo': lo, 'hi': lo + 16, 'mod': 12 if quick else 3}, {}))
    if not quick:
        for key in chunked({'fam': 'B', 'k': 3}, seed, 'html'):
            work.append(('html', key, {'single_page': 1}))
    return work


def _pos_name(pos):
    pos = re.sub(r'\[\d+\]', '', pos)
    return {'desc': 'description', 'group.comment': 'instruction-comment', 'group': 'instruction'}.get(pos, pos)


def _tags(seam, cfg, e, p):
    t = {'seam': seam, 'kind': p.kind, 'position': _pos_name(p.pos), 'line_width': cfg.get('line_width')}
    if e is not None:
        for k in ('style', 'L', 'layout', 'n', 'block', 'pos', 'ctx', 'brace_text', 'brace_form', 'bullet', 'prefixes', 'form', 'flag', 'marker', 'text', 'breaks', 'marker_rotation', 'src_width'):
            if k in e.tag:
                t[k] = e.tag[k]
    for k, v in cfg.items():
        if k != 'line_width':
            t['cfg_' + k] = v
    return t


def _shard(shard, nshards, tier, seed):
    stats = core.Stats(PROPERTY)
    work = work_list(tier, seed)
    nsolo = {}
    for wi, (seam, key, cfg) in core.shard_iter(work, shard, nshards):
        ents, probs = run_doc(seam, key, cfg, seed, stats)
        stats.transitions += 1
        stats.traces += len(ents)
        stats.evaluations += len(ents)
        stats.counters['runs_' + seam] += 1
        stats.counters['fam_' + key['fam'] + '_' + seam] += len(ents)
        ctag = cfg_tag(cfg, ASM_DEFAULT if seam == 'asm' else CTL_DEFAULT) if seam != 'html' else ('single' if cfg.get('single_page') else 'pages')
        for e in ents:
            if key['fam'] == 'R' and seam == 'asm':
                rs, nl = span_cell_lines(e, cfg['line_width'], cfg.get('wrap_column_width_min', 10))
                d = nl - rs
                stats.counters['rowspan_cell_lines_' + ('below_rowspan' if d < 0 else 'rowspan_plus_%d' % d if d <= 2 else 'rowspan_plus_3_or_more')] += 1
            if key['fam'] == 'U' and seam == 'asm':
                b = e.tag['bullet'] if e.tag['bullet'] is not None else cfg.get('bullet', M.BULLET)
                stats.counters['list_bullet_of_%d_characters' % len(b)] += 1
                stats.counters['list_bullet_from_' + ('parameter' if e.tag['bullet'] is not None else 'property' if 'bullet' in cfg else 'default')] += 1
                if e.tag['L'] + len(b) + 1 > cfg['line_width'] - 2:
                    stats.counters['list_item_longer_than_line_bullet_of_%d_characters' % len(b)] += 1
            if key['fam'] == 'F' and seam == 'ctl':
                flag, nl, rl = flagged_row_lines(e, cfg['line_width'])
                stats.counters['ctl_block_%s_row_of_%s_full_width_lines' % (flag or 'default', nl if nl < 4 else '4_or_more')] += 1
                stats.counters['ctl_block_kind_' + e.tag['block']] += 1
                if flag == 'nowrap' and rl > cfg['line_width'] - 2:
                    stats.counters['ctl_nowrap_row_longer_than_line'] += 1
            if key['fam'] == 'X' and key['part'] == 'layouts':
                kind = 'register' if e.tag['pos'] == 'reg' else 'instruction_comment' if e.tag['pos'].startswith('icomment') else \
                    'title' if e.tag['pos'] == 'title' else 'paragraph'
                for place in marker_line_places(e):
                    stats.counters['src_marker_%s_%s' % (place, kind)] += 1
                    if e.tag['marker'].startswith('.'):
                        stats.counters['src_dot_word_%s_%s' % (place, kind)] += 1
            if key['fam'] == 'P':
                cur = ''
                for pfx in e.tag['prefixes']:
                    if pfx and pfx[0] not in 'IiOo':
                        stats.counters[seam + '_register_prefix_other_letter'] += 1
                    elif not pfx and cur and cur[0] not in 'IiOo':
                        stats.counters[seam + '_register_without_prefix_after_other_letter'] += 1
                    elif pfx and pfx[0] in 'Oo':
                        stats.counters[seam + '_register_prefix_output'] += 1
                    cur = pfx or cur
            stats.state((seam, ctag, key['fam'], repr(sorted(e.tag.items()))))
            if len(e.groups[0].oplens) > 1 or any(M.is_block(t) for g in e.groups for t in g.comment) or e.tag.get('L', 0) >= cfg.get('line_width', 79) - 30:
                stats.nontriv((seam, ctag, repr(sorted(e.tag.items()))))
            for g in e.groups:
                stats.counters['group_size_%d' % len(g.oplens)] += 1
                words = [t for t in g.comment if isinstance(t, str)]
                if seam in ('asm', 'ctl'):
                    # input-side guards (independent of what the tool does)
                    fixed = (cfg.get('indent', 2) + 3 + max([cfg.get('instruction_width', 23)] + list(g.oplens))) if seam == 'asm' else \
                        (10 + max([cfg.get('instruction_width', 13)] + [ol for g2 in e.groups for ol in g2.oplens]))
                    if any(len(w) > cfg['line_width'] - fixed for w in words):
                        stats.counters[seam + '_word_longer_than_comment_field'] += 1
                    if seam == 'asm' and max(g.oplens) + cfg.get('indent', 2) > cfg['line_width']:
                        stats.counters['asm_operation_wider_than_line'] += 1
                    if len(g.oplens) > 1 and words and words[-1].endswith('}'):
                        stats.counters[seam + '_comment_ends_with_brace_in_group'] += 1
                else:
                    if len(g.oplens) > 1:
                        stats.counters['html_group_gt1'] += 1
                    if any(M.is_block(t) for t in g.comment):
                        stats.counters['html_block_in_comment'] += 1
                if len(g.oplens) > 1 and any('{' in t or '}' in t for t in g.comment if isinstance(t, str)):
                    stats.counters['group_comment_with_braces'] += 1
        groups = {}
        for p in probs:
            groups.setdefault((-1 if p.entry is None else p.entry, _pos_name(p.pos), p.kind), p)
        solo_cache = {}
        for (ei, pname, kind), p in sorted(groups.items()):
            if ei >= 0 and ei not in solo_cache:
                nsolo[pname, kind] = nsolo.get((pname, kind), 0) + 1
                if nsolo[pname, kind] > SOLO_CAP:
                    solo_cache[ei] = ([], '')   # keep the packed document as the reproduction
            e = ents[ei] if ei >= 0 else None
            case = {'seam': seam, 'key': key, 'cfg': cfg, 'seed': seed}
            where = 'doc'
            if ei >= 0:
                # smallest reproduction: the entry on its own (if it shows the same problem there)
                solo = dict(key, only=ei)
                if ei not in solo_cache:
                    sents, sprobs = run_doc(seam, solo, cfg, seed)
                    solo_cache[ei] = (sprobs, source_text(seam, sents))
                    stats.transitions += 1
                same = [q for q in solo_cache[ei][0] if _pos_name(q.pos) == pname and q.kind == kind]
                if same:
                    # 'input' is for the reader only (replay regenerates it from the key)
                    case = {'seam': seam, 'key': solo, 'cfg': cfg, 'seed': seed, 'input': solo_cache[ei][1],
                            'command': command_line(seam, cfg)}
                    p = same[0]
                where = 'entry{}'.format(ei)
            cid = '{}/{}/{}/{}/{}:{}'.format(seam, ctag, _key_tag(key), where, pname, kind)
            detail = '{} [{}] {}: {}'.format(seam, p.pos, p.kind, p.detail)
            if e is not None:
                detail += ' | entry {}'.format(e.tag)
            stats.violation(cid, case, detail[:1500], tags=_tags(seam, cfg, e, p), order=wi * 100 + max(ei, 0))
        if wi % 97 == 0 and ents:
            e = ents[len(ents) // 2]
            stats.sample({'seam': seam, 'config': cfg, 'doc': key, 'entries_in_doc': len(ents), 'one_entry': e.tag,
                          'its_group_comment': ' '.join(M.source_words(e.groups[0].comment))[:120]})
    return stats


def _key_tag(key):
    return ','.join('{}={}'.format(k, v if not isinstance(v, list) else '-'.join(map(str, v))) for k, v in key.items() if k != 'only')


def run(tier, seed):
    stats = core.run_shards(_shard, tier, seed, prop=PROPERTY)
    quick = tier == 'quick'
    meta = dict(
        rule='evaluations = (entry, seam, configuration) cases, each checked position by position; transitions = tool executions '
             '(documents pack up to {} entries); states = distinct (seam, configuration, entry description); non-trivial = entry whose first '
             'group spans several instructions, contains a #LIST/#TABLE block, or whose sentences are long enough to wrap in the '
             'instruction comment field'.format(CHUNK),
        exhaustive=True,
        bound='W: {} fixed entries (3 styles x sentence lengths {} x {} shapes) x every line width 40..200 (asm, ctl). L: 3 word styles x every '
              'sentence length 0..2*(width-2)+1 x {} of the {} group shapes x line width {{40,79,120}} x configuration deviations d<={} '
              '(asm alternatives {}; ctl alternatives {}). B: every sequence of <= {} words over {{a,{{,}},x}}}} x group size 1..4 x 3 source line '
              'splits (asm at 3 widths; html{}; ctl x 3 widths x InstructionWidth/CommentWidthMin deviations). K: 6 block kinds x {} lengths x 4 '
              'contexts x 7 positions (asm x 3 widths x instruction-width/comment-width-min/wrap-column-width-min deviations; html). '
              'R: rowspan {{2,3}} x 13 cell lengths x 2 styles x 2 contexts x 4 positions (asm x 3 widths x wrap-column-width-min deviations; html). '
              'P: every sequence of 1..{} register prefixes over {} + every letter A-Z a-z as first letter of a prefix (2 forms, followed by a '
              'register without a prefix), x plain/delimited register names (asm x 3 widths; ctl x 3 widths; html). '
              'U: bullet property {} x #LIST bullet parameter {} x every item length 1..2*(width-2)+1 x line width {{40,79,120}} x {} of the 7 block '
              'positions (rotating with the length) x word styles {} (asm; html: parameter x item lengths 1..{} x {} position(s)). '
              'F: block kinds {} x wrap flag {} x every row/item text length 1..4*(width-2)+1 x line width {{40,79,120}} x {} of the 4 positions '
              'desc/start/mid/end (rotating with the length) x word styles {} (ctl; asm x 3 widths and html at lengths [1, 30, 110] x 4 positions, '
              'without UDGTABLE). '
              'X: marker words {} x texts (word in the middle of 5 words / first of 3 / last of 3) x every subset of the gaps between words as '
              'source line breaks x positions {} (asm x line width {{79,40}}; html); every rotation of the sentence of all marker words in all '
              'positions x source wrap width {}..{} (asm x {{79,40}}; html); marker word x text x position (ctl x 3 widths). '
              'N: 12 entries x line width {{31,24}} (asm). H: 3 styles x sentence lengths 0..{} x one in {} shapes, rotating (html).'.format(
                  3 * len(W_LENGTHS) * (4 if quick else 12), list(W_LENGTHS), 4 if quick else 12,
                  'every 6th (rotating with the length)' if quick else 'every 2nd (rotating with the length)', len(SHAPES),
                  1 if quick else 2, ASM_ALTS, CTL_ALTS, 4 if quick else 5, '' if quick else ' incl. single-page mode for k<=3',
                  6 if quick else 10,
                  3 if quick else 4, list(PREFIX_ALPHABET), list(BULLET_PROPS), list(BULLET_PARAMS), 2 if quick else 7,
                  ['dense'] if quick else ['dense', 'mixed'], 112 if quick else 240, 1 if quick else 7,
                  list(FLAG_KINDS), list(BLOCK_FLAGS), 1 if quick else 4, ['dense'] if quick else ['dense', 'mixed'],
                  list(MARKER_WORDS), list(MARKER_POS), SRC_WIDTHS[0], SRC_WIDTHS[-1],
                  159 if quick else 239, 12 if quick else 3),
        assumptions=[
            'brace rules ("Braces in comments"): the skool source written for skool2asm/skool2html wraps a group comment exactly as sna2skool does '
            '("{" + one more per unmatched "}", "{ {"/"} }" spacing, closing braces to balance); if the nesting count of the text drops to zero '
            'before its end (guard brace_text_needs_extra_opening_braces) that wrapper would let the comment terminate early by the documented rule, '
            'so the generator writes as many extra opening braces as the documented rules need',
            'for sna2skool such prefix-dip texts are enumerated in family B only (entries tagged brace_form=prefix-dip); in families L and W the '
            'ctl seam replaces them by a brace-free sentence of the same length',
            'a group whose C/M directive carries no text declares no comment in a control file: expected as ungrouped instructions (ctl seam)',
            'entry titles have at least one word (an entry header starts with its title)',
            'sentences are built from the word alphabet {a, bb, w;x, 9-char word, 30-char word, {, }, x}} plus one filler word "ff..f" (<= 30 '
            'characters) that makes every exact length reachable; they are not limited to 12 words (the dense style needs more to reach 2*width)',
            'line length is counted in characters (a tab indent counts 1, as in skool2asm\'s own warning), without the line terminator',
            'documented minimum widths: the instruction field is at least as wide as the longest operation of the group (skool2asm) / entry '
            '(sna2skool) and the comment field at least comment-width-min / CommentWidthMin wide; lines up to that sum are not violations, '
            'but skool2asm must still warn about them',
            'ASM tables are compared per column: the words of the cells that start in a column, in row order, against the text found between '
            'that column\'s border characters (a cell with a rowspan occupies its column in all the rows it spans, so this is a per-cell comparison '
            'for it); HTML tables per cell',
            '#LIST/#TABLE blocks are generated for skool2asm / skool2html in families K, R and U; in control files (family F) they appear in '
            'single-line D, N and E comments only (the comments sna2skool writes block by block; not in titles, register descriptions or '
            'instruction comments), and the expected skool text is the white-space-split source text of the comment, markup included '
            '("#TABLE<wrapalign>", "{", "|", "}", "TABLE#")',
            'wrap flags: "nowrap - write each list item / table row on a single line": a line that is exactly one complete row / item of a '
            '<nowrap> block is exempt from the line-width rule (guard ctl_overlong_nowrap_row); rows of blocks with no flag or <wrapalign> must '
            'fit the line width unless a line holds a single unbreakable word; skool2asm / skool2html must render a flagged block like an unflagged one',
            'the bullet of a list in ASM mode is its bullet parameter if given, else the bullet property (set with -P bullet=..., default "*"); '
            'an empty bullet (property only: an empty bullet *parameter* is not enumerated) means the items carry no prefix; the bullet is a fixed '
            'prefix of a list item line (like a register name), so a line made of the bullet and one unbreakable word is excusable, but a bullet of '
            'any length followed by two or more words must fit the line width',
            'register prefixes consist of letters; a prefix whose first letter is O or o puts the register (and the following registers without a '
            'prefix) in the output table of the entry page, any other letter in the input table; the expected page lists the input registers '
            'before the output registers, each group in source order',
            'outside family X words contain no digits, no "#", no "|" and never start with "." or "*"; family X adds the marker words: "#" is '
            'followed by a lower-case letter or nothing (a macro is "#" + capital letters), no word contains "|" or starts with "+-" (table '
            'borders in ASM output), and the only digit is the 5 of ".5" (not an address)',
            'source layouts (family X): "paragraphs ... must be separated by a comment line containing a dot on its own", so a layout that puts '
            'the word "." alone on a source line of a description / start / mid-block / end paragraph is not generated (it is allowed in titles, '
            'register descriptions - where the line reads "; . ." - and instruction comments); the second and subsequent source lines of a register '
            'description start with a dot and a space; in a two-instruction group the first source line of the comment belongs to the first '
            'instruction and the rest to the second',
        ],
        required_guards=['runs_asm', 'runs_ctl', 'runs_html', 'group_size_1', 'group_size_2', 'group_size_3', 'group_size_4',
                         'group_comment_with_braces', 'brace_text_needs_extra_opening_braces', 'fam_W_asm', 'fam_W_ctl', 'fam_L_asm', 'fam_L_ctl',
                         'asm_word_longer_than_comment_field', 'ctl_word_longer_than_comment_field', 'asm_operation_wider_than_line',
                         'asm_comment_ends_with_brace_in_group', 'ctl_comment_ends_with_brace_in_group', 'html_group_gt1', 'html_block_in_comment',
                         'fam_F_ctl', 'fam_F_asm', 'fam_F_html', 'ctl_block_kind_L', 'ctl_block_kind_T', 'ctl_block_kind_Tf', 'ctl_block_kind_G',
                         'ctl_nowrap_row_longer_than_line', 'ctl_overlong_nowrap_row'] + [
                             'ctl_block_%s_row_of_%s_full_width_lines' % (f, n) for f in ('default', 'nowrap', 'wrapalign') for n in (1, 2, 3, '4_or_more')] + [
                         'fam_X_asm', 'fam_X_html', 'fam_X_ctl'] + [
                             'src_%s_%s_%s' % (a, b, c) for a in ('marker', 'dot_word') for b in ('first_on_continuation_line', 'last_on_line', 'alone_on_line')
                             for c in ('register', 'instruction_comment', 'title', 'paragraph')] + [
                         'fam_P_asm', 'fam_P_ctl', 'fam_P_html', 'fam_U_asm', 'fam_U_html',
                         'html_register_prefix_other_letter', 'html_register_without_prefix_after_other_letter', 'html_register_prefix_output',
                         'asm_register_prefix_other_letter', 'ctl_register_prefix_other_letter',
                         'list_bullet_of_0_characters', 'list_bullet_of_1_characters', 'list_bullet_of_2_characters', 'list_bullet_of_3_characters',
                         'list_bullet_from_parameter', 'list_bullet_from_property', 'list_bullet_from_default',
                         'list_item_longer_than_line_bullet_of_0_characters', 'list_item_longer_than_line_bullet_of_1_characters',
                         'list_item_longer_than_line_bullet_of_2_characters', 'list_item_longer_than_line_bullet_of_3_characters',
                         'fam_B_asm', 'fam_B_ctl', 'fam_B_html', 'fam_K_asm', 'fam_K_html', 'fam_N_asm', 'fam_H_html', 'fam_R_asm', 'fam_R_html',
                         'rowspan_cell_lines_below_rowspan', 'rowspan_cell_lines_rowspan_plus_0', 'rowspan_cell_lines_rowspan_plus_1',
                         'rowspan_cell_lines_rowspan_plus_2', 'rowspan_cell_lines_rowspan_plus_3_or_more'],
    )
    return stats, meta


def replay(case):
    ents, probs = run_doc(case['seam'], case['key'], case['cfg'], case.get('seed', 0))
    out = []
    for p in probs:
        e = ents[p.entry] if p.entry is not None else None
        out.append('{} [{}] {}: {}{}'.format(case['seam'], p.pos, p.kind, p.detail, ' | entry {}'.format(e.tag) if e is not None else ''))
    return out
