"""C14 - sna2ctl always emits a complete, ordered, non-overlapping control file.

Seam: sna2ctl.main (stdout; every execution under a 10 s watchdog - a hang is a
violation), then sna2skool.main with that control file (stderr/stdout) and skool2bin
(the C01 oracle).
Space: memory images = every sequence of <= 3 (thorough 4) tokens over a 17-token
alphabet (RET, JP/JR/CALL into and out of the range, conditional jumps, NOP run,
LD A,n, bare DD/FD/ED/CB prefix bytes, DD before an opcode it does not modify, RST with
argument bytes, text, zero run, single data byte, an instruction cut off by END) x range
{whole, first token dropped, last byte dropped} x options {none, -C, -r, -h, -l,
TextMinLength*, Dictionary}; code maps: the execution trace of the image (computed by
the reference model from every token start) written in each of five supported map
formats, and EVERY subset of the addresses of an 8-byte window (256) as an arbitrary map
on six fixed images.
Oracle: block directives start at START, strictly increase, and end with 'i END'
(END < 65536); every mapped address inside the range lies in a 'c' block; sna2skool
prints no warning; every sub-block directive address is an instruction address in the
skool file; the skool file reassembles to the original bytes (C01).
"""
import itertools
import os
import re

from .. import core, tools
from ..refs import z80ref
from . import c01

PROPERTY = 'C14'
NEEDS_C = False
ORG = 0x8000


def tokens():
    return [
        ('RET', (0xC9,)),
        ('JP in', (0xC3, 0x00, 0x80)),
        ('JP out', (0xC3, 0x00, 0x00)),
        ('JR +1', (0x18, 0x01)),
        ('CALL in', (0xCD, 0x03, 0x80)),
        ('JR NZ', (0x20, 0x02)),
        ('JP Z in', (0xCA, 0x02, 0x80)),
        ('NOPs', (0x00, 0x00, 0x00)),
        ('LD A,n', (0x3E, 0x41)),
        ('DD', (0xDD,)),
        ('FD', (0xFD,)),
        ('ED', (0xED,)),
        ('CB', (0xCB,)),
        ('DD NOP', (0xDD, 0x00)),
        ('RST 8 args', (0xCF, 0x05)),
        ('text', (0x48, 0x65, 0x6C, 0x6C, 0x6F)),
        ('zeros', (0x00,) * 6),
        ('data', (0xFF,)),
        ('cut', (0xC3,)),
        ('LD HL,nn', (0x21, 0x48, 0x65)),
        ('DJNZ -2', (0x10, 0xFE)),
        ('CALL past RET', (0xCD, 0x04, 0x80, 0xC9)),     # CALL ORG+4 ; RET  (as first token: calls whatever follows)
        ('RST 8 arg 06', (0xCF, 0x06)),                  # with -r the argument byte is data; without, it opens LD B,n
        ('LD A,1', (0x3E, 0x01)),                        # after 'RST 8 arg 06' a handler-less decoder sees LD B,62 / LD BC,nn
        ('JP text', (0xC3, 0x30, 0x75)),                 # a terminal instruction whose operand bytes are text ("0u")
    ]


def build(seq):
    T = tokens()
    data = []
    starts = []
    for i in seq:
        starts.append(ORG + len(data))
        data.extend(T[i][1])
    return bytes(data), starts


_BLOCK = re.compile(r'^([bcgistuw]) (\$?[0-9A-Fa-f]+)')
_SUB = re.compile(r'^([BCSTWM]) (\$?[0-9A-Fa-f]+)')


def parse_addr(s):
    if s.startswith('$'):
        return int(s[1:], 16)
    return int(s)


def write_map(fmt, addresses, d):
    path = os.path.join(d, 'map.' + fmt)
    if fmt == 'z80':
        data = bytearray(8192)
        for a in addresses:
            data[a // 8] |= 1 << (a % 8)
        with open(path, 'wb') as f:
            f.write(data)
    elif fmt == 'specemu':
        data = bytearray(65536)
        for a in addresses:
            data[a] = 1
        with open(path, 'wb') as f:
            f.write(data)
    elif fmt == 'rzxplay':
        with open(path, 'w') as f:
            for a in addresses:
                f.write('${:04X}\n'.format(a))
    elif fmt == 'fuse':
        with open(path, 'w') as f:
            for a in addresses:
                f.write('0x{:04x},{}\n'.format(a, 1))
    elif fmt == 'spud':
        with open(path, 'w') as f:
            for a in addresses:
                f.write('PC = {:04X}\n'.format(a))
    return path


MAP_FORMATS = ('z80', 'specemu', 'rzxplay', 'fuse', 'spud')


def exec_trace(data, entry, start, end, horizon=64, org=None):
    """Addresses of the instructions executed from `entry` (reference model), while
    execution stays inside [start, end)."""
    mem = [0] * 65536
    for i, b in enumerate(data):
        mem[(ORG if org is None else org) + i] = b
    st = z80ref.State(PC=entry, SP=0xF000, B=2)
    out = []
    for _ in range(horizon):
        if not start <= st.PC < end:
            break
        ins = z80ref.decode(mem, st.PC)
        if st.PC + ins.length > end:
            break
        out.append(st.PC)
        z80ref.step(st, mem)
    return sorted(set(out))


_BRANCH = re.compile(r'^(JP|JR|CALL|DJNZ)( [A-Z]+,| )(\d+)$')


def self_overlapping(data, addrs, end, org=None):
    """True if the code reachable from the trace overlaps itself: two instructions with different start
    addresses share a byte, among the executed instructions and those reached from them statically (both
    outcomes of every conditional branch, CALL targets and returns, inside the range).  Such a program has
    no disassembly without overlapping instructions - sna2ctl (by design) marks the target of a jump from
    executed code as code - so the sna2skool clauses are not demanded of it; termination, tiling and
    'every mapped address in a code block' still are."""
    org = ORG if org is None else org
    mem = [0] * 65536
    for i, b in enumerate(data):
        mem[org + i] = b
    seen = {}
    work = list(addrs)
    while work:
        a = work.pop()
        if a in seen or not org <= a < end:
            continue
        ins = z80ref.decode(mem, a)
        seen[a] = a + ins.length
        m = _BRANCH.match(ins.text)
        if m:
            work.append(int(m.group(3)))
        if not (ins.text in ('RET', 'RETI', 'RETN', 'JP (HL)', 'JP (IX)', 'JP (IY)', 'HALT') or (m and m.group(1) in ('JP', 'JR') and m.group(2) == ' ')):
            work.append(a + ins.length)
    ext = sorted(seen.items())
    return any(b0 < a1 for (a0, a1), (b0, b1) in zip(ext, ext[1:]))


def check(data, start, end, opts, map_addrs=None, map_fmt=None, ini=(), dictionary=None, tail=False, tiling_only=False, no_skool=False, org=None):
    """Returns (list of problems, executions)."""
    org = ORG if org is None else org
    d = tools.workdir()
    # the file continues past END (a NOP, a RET, a NOP): code that runs off the end of the
    # range finds a terminal instruction beyond it, which must not attract directives
    orig = data
    if tail:
        data = bytes(data[:end - org]) + bytes((0x00, 0xC9, 0x00))
    binfile = tools.write_file('c14.bin', data, d)
    args = ['-o', str(org), '-s', str(start), '-e', str(end)] + list(opts)
    for kv in ini:
        args += ['-I', kv]
    if dictionary is not None:
        args += ['-I', 'Dictionary=' + tools.write_file('words.txt', dictionary, d)]
    if map_addrs is not None:
        args += ['-m', write_map(map_fmt, map_addrs, d)]
    try:
        with core.watchdog(10, 'sna2ctl'):
            r = tools.run_tool('sna2ctl', args + [binfile])
    except core.Horizon:
        return ['sna2ctl did not terminate within 10 s'], 1
    if r.rc:
        return ['sna2ctl failed: {} {}'.format(r.exc, r.err[-200:])], 1
    problems = []
    blocks = []
    subs = []
    for line in r.out.splitlines():
        m = _BLOCK.match(line)
        if m:
            blocks.append((m.group(1), parse_addr(m.group(2))))
            continue
        m = _SUB.match(line)
        if m:
            subs.append((m.group(1), parse_addr(m.group(2)), line))
            continue
        if line.strip() and not line.startswith(('@ ', '  ', '. ', ': ', '; ', '# ', '> ', 'D ', 'N ', 'E ', 'R ', 'L ')):
            problems.append('line {!r} is not a control directive'.format(line))
    if not blocks:
        return ['no block directives at all'], 1
    if blocks[0][1] != start:
        problems.append('first block directive at {} but the range starts at {}'.format(blocks[0][1], start))
    for (t1, a1), (t2, a2) in zip(blocks, blocks[1:]):
        if a2 <= a1:
            problems.append('block directives not strictly increasing: {} {} then {} {}'.format(t1, a1, t2, a2))
    if end < 65536:
        if blocks[-1] != ('i', end):
            problems.append("last block directive is '{} {}', expected 'i {}'".format(blocks[-1][0], blocks[-1][1], end))
    for t, a in blocks[:-1]:
        if not start <= a < end:
            problems.append('block directive {} {} outside the range'.format(t, a))
    if map_addrs is not None and not tiling_only:
        for a in map_addrs:
            if start <= a < end:
                owner = [b for b in blocks if b[1] <= a]
                if not owner or owner[-1][0] != 'c':
                    problems.append('mapped address {} lies in a {!r} block'.format(a, owner[-1][0] if owner else None))
                    break
    if problems or tiling_only or no_skool:
        # arbitrary (non-trace) address sets: the property requires termination and tiling only
        return problems, 1
    # feed it to sna2skool (default options: -r sub-blocks are already in the control file)
    ctl_text = r.out
    s_opts = []
    res, probs, skool = c01.run_pair(binfile, org, end, ctl_text, ['-s', str(start)] + s_opts, d, 'c14')
    if res is None:
        return ['after sna2ctl {}: {}'.format(' '.join(opts), p) for p in probs], 3
    image, warn = res
    for line in warn.splitlines():
        if line.startswith('WARNING') or 'overlap' in line.lower() or 'Two instructions' in line:
            problems.append('sna2skool: ' + line.strip())
    iaddrs = set()
    for line in skool.splitlines():
        m = re.match(r'^[bcgistuw* ](\d{5}) ', line)
        if m:
            iaddrs.add(int(m.group(1)))
    for t, a, line in subs:
        if start <= a < end and a not in iaddrs:
            problems.append('sub-block directive {!r} does not sit on an instruction boundary of the skool file'.format(line.strip()))
    ign = [(end, 65536)]
    bad = c01.compare(image, orig[start - org:end - org], start, end, [])
    for a, want, got in bad[:3]:
        problems.append('round trip: byte at {} is {} (original {})'.format(a, got, want))
    problems.extend(probs[:2])
    return problems, 3


# continuations of the swept instruction: a loop end, a RET and a second routine; a shifted decoding of
# either turns them into different instructions (JP M / LD (nn),A swallowing the RETs)
FOLLOWERS = ((0x20, 0xFA, 0xC9, 0x3E, 0x18, 0x32, 0x00, 0x5C, 0xC9),
             (0x05, 0x00, 0x20, 0xF8, 0xC9, 0x21, 0x00, 0x5C, 0x36, 0xC9, 0xC9))

PROMOTED_CALLERS = ((0xCD,), (0xCA,), (0xC3,), (0xC4,))                     # CALL / JP Z / JP / CALL NZ to the target block
PROMOTED_TARGETS = ((0x00, 0x00), (0x3E, 0x01), (0x21, 0x00, 0x00), (0xAF,))    # no terminal instruction: falls through
PROMOTED_ROUTINES = ((0xC9,), (0x3E, 0x02, 0xC9), (0x06, 0x03, 0x10, 0xFE, 0xC9), (0x18, 0x00, 0xC9))

OPTION_SETS = ((), ('-C',), ('-r',), ('-h',), ('-l',), ('-C', '-r'))
INI_SETS = (('TextMinLengthCode=3',), ('TextMinLengthCode=1',), ('TextMinLengthCode=2',), ('TextMinLengthData=1',), ('TextMinLengthData=6',), ('TextChars=Helo',))


def cases(tier):
    T = tokens()
    n = len(T)
    maxlen = 3 if tier == 'quick' else 4
    for L in range(1, maxlen + 1):
        # sequences of 4 tokens (thorough tier) are built from the first 22 tokens; the three tokens added last
        # (RST argument, LD A,1, JP text) take part in every sequence of <= 3
        for seq in itertools.product(range(n if L <= 3 else 22), repeat=L):
            yield ('plain', seq)
    # code maps from real execution traces (all sequences of <= 2 tokens, every entry token, every format)
    for L in (1, 2) if tier == 'quick' else (1, 2, 3):
        for seq in itertools.product(range(n), repeat=L):
            yield ('trace', seq)
    # calls followed by inline data: the unexecuted bytes after a CALL decode (linearly) into an instruction
    # that straddles the start of the next executed block; that block ends in a RET that is followed by
    # more executed code which nothing CALLs or JPs to
    for data in ((0x00, 0x21), (0xDD, 0x21), (0x3E, 0x01), (0x01, 0xCD), (0xFF, 0xED), (0x21, 0x21), (0x48, 0x69)):
        for tailcode in ((0x3E, 0x41, 0xC9), (0x00, 0x00, 0xC9), (0xAF, 0x18, 0xFE), (0xCD, 0x00, 0x80)):
            yield ('inline', (data, tailcode))
    # every second byte after each prefix (and every unprefixed opcode) inside a small routine, followed by two
    # different continuations: sna2ctl's code analysis and sna2skool's disassembler must agree on its size
    for prefix in ((), (0xDD,), (0xFD,), (0xED,), (0xCB,), (0xDD, 0xCB, 0x05), (0xFD, 0xCB, 0xFB)):
        for op in range(256):
            for fi in range(len(FOLLOWERS)):
                yield ('opsweep', (prefix, op, fi))
    # images that end at the top of memory (END = 65536): every sequence of <= 2 tokens, and every instruction
    # of >= 2 bytes cut off by the 64K edge
    for L in (1, 2):
        for seq in itertools.product(range(n), repeat=L):
            yield ('top', ('seq', seq))
    for cut in ((0x3E,), (0xC3,), (0xC3, 0x00), (0x21,), (0x21, 0x00), (0xCD, 0x00), (0x18,), (0x10,), (0xDD, 0x21), (0xDD, 0x21, 0x00), (0xED, 0x43),
                (0xED, 0x43, 0x00), (0xDD, 0xCB), (0xDD, 0xCB, 0x01), (0xCB,), (0xED,), (0xDD,), (0xDD, 0x36), (0xDD, 0x36, 0x01), (0x32, 0x00), (0xD3,), (0xCF,)):
        for lead in ((), (0x00,), (0xC9,), (0xAF, 0x3C)):
            yield ('top', ('raw', lead + cut))
    # an unexecuted block that executed code CALLs/JPs to and that falls through into an executed block made of two
    # back-to-back routines, the second of which is reached only indirectly (it is in the map, nothing refers to it)
    for caller in range(len(PROMOTED_CALLERS)):
        for target in range(len(PROMOTED_TARGETS)):
            for ra in range(len(PROMOTED_ROUTINES)):
                for rb in range(len(PROMOTED_ROUTINES)):
                    yield ('promoted', (caller, target, ra, rb))
    # arbitrary maps: every subset of an 8-byte window on fixed images
    fixed = [(0, 8, 7), (15, 0), (7, 9, 13), (13, 14, 0, 18), (16, 1), (19, 20, 11, 0), (4, 0, 8, 19), (4, 8, 8, 8), (1, 8, 19), (21, 8, 19), (21, 7, 12), (21, 8, 7)]
    for fi, seq in enumerate(fixed):
        for mask in range(256):
            yield ('subset', (seq, mask))


def run_one(kind, spec, tier):
    """Yield (case id, case dict, problems, executions) for one enumerated item."""
    T = tokens()
    if kind == 'plain':
        seq = spec
        data, starts = build(seq)
        end = ORG + len(data)
        names = '>'.join(T[i][0] for i in seq)
        ranges = [(ORG, end, 'whole')]
        if len(seq) > 1:
            ranges.append((starts[1], end, 'first-dropped'))
        if len(data) > 1:
            ranges.append((ORG, end - 1, 'last-byte-dropped'))
        for start, e, rname in ranges:
            optsets = OPTION_SETS if rname == 'whole' else ((), ('-C',))
            if tier == 'quick' and len(seq) == 3:
                optsets = ((), ('-C',), ('-r',)) if rname == 'whole' else ((),)
            for opts in optsets:
                p, n = check(data, start, e, opts)
                yield ('plain/{}/{}/{}'.format(names, rname, ' '.join(opts) or '-'),
                       {'kind': 'plain', 'seq': list(seq), 'start': start, 'end': e, 'opts': list(opts)}, p, n)
            if rname == 'whole' and len(seq) <= 2:
                for ini in INI_SETS:
                    p, n = check(data, start, e, (), ini=ini)
                    yield ('plain/{}/{}/{}'.format(names, rname, ini[0]), {'kind': 'plain', 'seq': list(seq), 'start': start, 'end': e, 'opts': [], 'ini': list(ini)}, p, n)
                p, n = check(data, start, e, (), dictionary='hello\nell\n')
                yield ('plain/{}/{}/dict'.format(names, rname), {'kind': 'plain', 'seq': list(seq), 'start': start, 'end': e, 'opts': [], 'dict': 'hello\nell\n'}, p, n)
    elif kind == 'trace':
        seq = spec
        data, starts = build(seq)
        end = ORG + len(data)
        names = '>'.join(T[i][0] for i in seq)
        for ei, entry in enumerate(starts):
            addrs = exec_trace(data, entry, ORG, end)
            if not addrs:
                continue
            ovl = self_overlapping(data, addrs, end)
            for fmt in MAP_FORMATS:
                for opts in ((), ('-C',)) if fmt == 'z80' else ((),):
                    for tail in ((False, True) if fmt == 'z80' else (False,)):
                        p, n = check(data, ORG, end, opts, addrs, fmt, tail=tail, no_skool=ovl)
                        yield ('trace/{}/entry{}/{}/{}{}'.format(names, ei, fmt, ' '.join(opts) or '-', '/tail' if tail else ''),
                               {'kind': 'map', 'seq': list(seq), 'start': ORG, 'end': end, 'opts': list(opts), 'map': addrs, 'fmt': fmt, 'tail': tail,
                                'no_skool': ovl}, p, n)
                # the same map with a range that starts at the second token (START not a multiple of 8, executed
                # addresses just below it in the map)
                if ei == 0 and len(seq) > 1 and starts[1] < end and any(a >= starts[1] for a in addrs):
                    p, n = check(data, starts[1], end, (), addrs, fmt, no_skool=ovl)
                    yield ('trace/{}/entry0/{}/from-second-token'.format(names, fmt),
                           {'kind': 'map', 'seq': list(seq), 'start': starts[1], 'end': end, 'opts': [], 'map': addrs, 'fmt': fmt, 'no_skool': ovl}, p, n)
    elif kind == 'inline':
        inl, tailcode = spec
        c_addr = ORG + 10
        h_addr = ORG + 10 + len(tailcode)
        data = bytes((0xCD, h_addr & 0xFF, h_addr >> 8) + tuple(inl) + (0x21, c_addr & 0xFF, c_addr >> 8, 0xE5, 0xC9) + tuple(tailcode) +
                     (0xE1, 0x23, 0x23, 0xE9))
        end = ORG + len(data)
        addrs = exec_trace(data, ORG, ORG, end)
        for fmt in MAP_FORMATS:
            for opts in ((), ('-C',)):
                p, n = check(data, ORG, end, opts, addrs, fmt)
                yield ('inline/{}/{}/{}/{}'.format(''.join('%02X' % b for b in inl), ''.join('%02X' % b for b in tailcode), fmt, ' '.join(opts) or '-'),
                       {'kind': 'map', 'raw': list(data), 'start': ORG, 'end': end, 'opts': list(opts), 'map': addrs, 'fmt': fmt}, p, n)
    elif kind == 'top':
        how, spec2 = spec
        if how == 'seq':
            data, starts = build(spec2)
            name = '>'.join(T[i][0] for i in spec2)
        else:
            data = bytes(spec2)
            name = ''.join('%02X' % b for b in spec2)
        org = 65536 - len(data)
        for opts in ((), ('-C',), ('-r',), ('-h',)):
            p, n = check(data, org, 65536, opts, org=org)
            yield ('top/{}/{}'.format(name, ' '.join(opts) or '-'),
                   {'kind': 'plain', 'raw': list(data), 'org': org, 'start': org, 'end': 65536, 'opts': list(opts)}, p, n)
        # code maps: the execution trace from the first byte, and the first address alone (the code block is then
        # extended by sna2ctl up to the 64K boundary)
        trace = exec_trace(data, org, org, 65536, org=org)
        for mi, addrs in enumerate(([org], trace) if trace and trace != [org] else ([org],)):
            ovl = self_overlapping(data, addrs, 65536, org=org)
            for fmt in ('z80', 'rzxplay'):
                for opts in ((), ('-C',), ('-C', '-r')):
                    if '-r' in opts and data[-1] == 0xCF:
                        # with -r, RST 8 owns the byte that follows it: at 65535 it is an instruction cut off by the
                        # boundary (data), so an execution trace containing it is outside the coverage clause
                        continue
                    p, n = check(data, org, 65536, opts, addrs, fmt, org=org, no_skool=ovl, tiling_only=(mi == 0 and addrs != trace))
                    yield ('top/{}/map{}/{}/{}'.format(name, mi, fmt, ' '.join(opts) or '-'),
                           {'kind': 'map', 'raw': list(data), 'org': org, 'start': org, 'end': 65536, 'opts': list(opts), 'map': addrs, 'fmt': fmt,
                            'no_skool': ovl, 'tiling_only': (mi == 0 and addrs != trace)}, p, n)
    elif kind == 'promoted':
        ci, ti, ra, rb = spec
        t_addr = ORG + 4
        head = PROMOTED_CALLERS[ci] + (t_addr & 0xFF, t_addr >> 8) + (0xC9,)        # caller ; RET
        target = PROMOTED_TARGETS[ti]
        a_addr = t_addr + len(target)
        b_addr = a_addr + len(PROMOTED_ROUTINES[ra])
        data = bytes(head + target + PROMOTED_ROUTINES[ra] + PROMOTED_ROUTINES[rb] + (0x00, 0x00, 0x00))
        end = ORG + len(data)
        # executed: the caller's path (flags clear: JP Z is not taken; CALL/JP/CALL NZ enter the target, which then
        # degenerates to an ordinary trace unless removed below), routine A and routine B from their own entries
        addrs = sorted(set(exec_trace(data, ORG, ORG, end) + exec_trace(data, a_addr, ORG, end) + exec_trace(data, b_addr, ORG, end)))
        if PROMOTED_CALLERS[ci][0] != 0xC4:
            # the recording stopped short of the target block: it is referred to by executed code but not executed
            addrs = [a for a in addrs if not t_addr <= a < a_addr]
        ovl = self_overlapping(data, addrs, end)
        for fmt in MAP_FORMATS:
            for opts in ((), ('-C',)):
                p, n = check(data, ORG, end, opts, addrs, fmt, no_skool=ovl)
                yield ('promoted/{}/{}/{}/{}/{}/{}'.format(ci, ti, ra, rb, fmt, ' '.join(opts) or '-'),
                       {'kind': 'map', 'raw': list(data), 'start': ORG, 'end': end, 'opts': list(opts), 'map': addrs, 'fmt': fmt, 'no_skool': ovl}, p, n)
    elif kind == 'opsweep':
        prefix, op, fi = spec
        data = bytes((0xDD, 0x2E, 0x08, 0x7E, 0x23) + tuple(prefix) + (op,) + FOLLOWERS[fi])
        end = ORG + len(data)
        for opts in ((), ('-C',)):
            p, n = check(data, ORG, end, opts)
            yield ('opsweep/{}{:02X}/{}/{}'.format(''.join('%02X' % b for b in prefix), op, fi, ' '.join(opts) or '-'),
                   {'kind': 'plain', 'raw': list(data), 'start': ORG, 'end': end, 'opts': list(opts)}, p, n)
    else:
        seq, mask = spec
        data, starts = build(seq)
        data = (data + bytes(8))[:max(8, len(data))]
        end = ORG + len(data)
        addrs = [ORG + i for i in range(8) if mask & (1 << i)]
        fmt = MAP_FORMATS[mask % len(MAP_FORMATS)]
        for tail in (False, True):
            e = end if not tail else ORG + 8
            p, n = check(data, ORG, e, ('-C',) if mask & 1 else (), addrs, fmt, tail=tail, tiling_only=True)
            yield ('subset/{}/{:08b}/{}{}'.format('>'.join(T[i][0] for i in seq), mask, fmt, '/tail' if tail else ''),
                   {'kind': 'map', 'seq': list(seq), 'pad8': True, 'start': ORG, 'end': e, 'opts': ['-C'] if mask & 1 else [], 'map': addrs, 'fmt': fmt,
                    'tail': tail, 'tiling_only': True}, p, n)


def _shard(shard, nshards, tier, seed):
    stats = core.Stats(PROPERTY)
    for i, (kind, spec) in core.shard_iter(cases(tier), shard, nshards):
        for cid, case, problems, n in run_one(kind, spec, tier):
            stats.evaluations += 1
            stats.transitions += n
            stats.counters[kind] += 1
            if n == 3:
                stats.counters['fed_to_sna2skool'] += 1
            if case.get('no_skool'):
                stats.counters['self_overlapping_program_not_fed_to_sna2skool'] += 1
            if problems:
                arb = kind == 'subset'
                stats.violation(cid, case, '; '.join(problems[:3]),
                                tags={'kind': kind, 'clause': 'tiling' if n == 1 else 'sna2skool', 'map': case.get('fmt'),
                                      'first': problems[0][:40]}, order=i)
        stats.nontriv((kind, str(spec)))
        if kind == 'plain':
            stats.state(tuple(sorted(set(spec))))
        if i % 3000 == 0:
            stats.sample({'kind': kind, 'spec': str(spec)})
    return stats


def run(tier, seed):
    stats = core.run_shards(_shard, tier, seed, prop=PROPERTY)
    stats.traces = stats.counters['fed_to_sna2skool']
    meta = dict(
        rule='images = all token sequences of length <= {} over a 25-token alphabet x ranges (whole, first token dropped, last byte dropped) x options '
             '(none,-C,-r,-h,-l,-C -r; TextMinLength*/TextChars/Dictionary on sequences <= 2); execution-trace code maps from every token start in 5 '
             'map formats for sequences <= {}; every subset (256) of an 8-byte window as an arbitrary map on 12 fixed images; every opcode byte after 7 prefixes (none, DD, FD, ED, CB, DDCB d, FDCB d) inside a routine with 2 continuations x (none,-C); 256 promoted-block images (4 callers x 4 fall-through target blocks x 4 x 4 back-to-back routines, the target unexecuted) x 5 map formats x (none,-C); trace maps also with the range starting at the second token; images ending at 65536 (token sequences <= 2, 22 cut-off instructions x 4 leads) x (none,-C,-r,-h). states = distinct token '
             'sets'.format(3 if tier == 'quick' else 4, 2 if tier == 'quick' else 3),
        exhaustive=True,
        bound='token sequences <= {} (length 4: over the first 22 tokens)'.format(3 if tier == 'quick' else 4),
        assumptions=['the generated control file is fed to sna2skool with default options (sna2ctl -r already writes the RST argument sub-blocks)',
                     'for arbitrary (non-trace) address sets only termination and tiling are required (as the property states); trace maps get every clause, except that a program whose code reachable from the trace (both outcomes of each branch) overlaps itself is not fed to sna2skool (no control file can satisfy both clauses for it)'],
        required_guards=['plain', 'trace', 'subset', 'inline', 'opsweep', 'top', 'promoted', 'fed_to_sna2skool'],
    )
    return stats, meta


def replay(case):
    if case.get('raw'):
        data = bytes(case['raw'])
    else:
        data, starts = build(tuple(case['seq']))
    if case.get('pad8'):
        data = (data + bytes(8))[:max(8, len(data))]
    p, n = check(data, case['start'], case['end'], tuple(case['opts']), case.get('map'), case.get('fmt'), tuple(case.get('ini', ())), case.get('dict'),
                 tail=case.get('tail', False), tiling_only=case.get('tiling_only', False), no_skool=case.get('no_skool', False), org=case.get('org'))
    return p
