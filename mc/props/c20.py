"""C20 - RZX playback is reproducible, implementation-independent and resumable.

A harness-side *recorder* runs a program on the reference Z80 model (mc/refs/z80ref.py -
independent of SkoolKit's simulators) as an RZX recording machine: port reads are
answered from a fixed sequence and logged per frame; a frame ends at the first
instruction boundary at which the frame's T-state budget is used up; M1 fetches are
counted as the RZX specification says (1 per instruction, 2 for CB/ED/DD/FD-prefixed
ones, 1 for a prefix that stands alone); at each frame end the clock restarts at 0 and,
if interrupts are enabled, the interrupt is taken (a halted CPU first steps past its
HALT).  The recording is written as an RZX file by mc/refs/rzxfmt.py (compressed or
not, with or without the 'repeat previous readings' marker, Z80 or SZX embedded
snapshot) and then
  * rzxplay.main plays it to the end -> snapshot == the recorder's final state, with no
    'Port readings exhausted / left' error;
  * the same with --python, --cmio and both: identical final snapshots;
  * for EVERY stop frame k in 1..F-1: rzxplay --stop k writing the remaining recording
    (with embedded snapshot) to a new RZX file, and playing that file to the end, ends
    in the same state as uninterrupted playback;
  * rzxinfo --frames reports exactly the recorded frame count, fetch counters, IN
    counters and (first ten) port readings of every frame.
Space: programs = prologue + each letter of an alphabet (stateful letters + IN A,(n),
IN r,(C), INI/INIR, HALT waits, EI/DI windows, IM 1 with the ROM's interrupt routine and
IM 2 with a RAM routine, 128K paging) + a polling loop; frames F in {2,3,5}; machines
48K/128K; snapshot z80/szx; compression on/off; repeat marker on/off.
"""
import itertools
import os
import re

from .. import core, tools
from ..refs import z80ref, rzxfmt

PROPERTY = 'C20'
NEEDS_C = True

ORG = 0x8000
ISR = 0x7C00
FRAME_T = 2600          # T-states per recorded frame (an RZX frame is whatever the recorder says)
ANSWERS = (0xBF, 0x7F, 0xFF, 0x00, 0xBE, 0x1F)


def letters():
    return [
        ('none', ()),
        ('EI', (0xFB,)),
        ('DI', (0xF3,)),
        ('DI;EI late', (0xF3, 0x06, 0x40, 0x10, 0xFE, 0xFB)),       # DI ; LD B,40h ; DJNZ $ ; EI
        ('DD', (0xDD,)),
        ('FD DD', (0xFD, 0xDD)),
        ('EDnop', (0xED, 0x00)),
        ('LD A,I', (0xED, 0x57)),
        ('LD A,R', (0xED, 0x5F)),
        ('LD R,A', (0xED, 0x4F)),
        # LD R,A with bit 0 of A clear and set: one of the two changes the parity of R (the Python playback loop derives the
        # M1 count of DD/FD-prefixed instructions from that parity)
        ('LD A,0;LD R,A', (0x3E, 0x00, 0xED, 0x4F)),
        ('LD A,1;LD R,A', (0x3E, 0x01, 0xED, 0x4F)),
        ('LD A,81;LD R,A;LD A,R', (0x3E, 0x81, 0xED, 0x4F, 0xED, 0x5F)),
        ('IN A,(FE)', (0xDB, 0xFE)),
        ('IN r,(C)', (0x01, 0xFE, 0xBF, 0xED, 0x50, 0xED, 0x70)),    # LD BC,BFFE ; IN D,(C) ; IN F,(C)
        ('INI', (0x01, 0xFE, 0x02, 0x21, 0x00, 0x90, 0xED, 0xA2, 0xED, 0xAA)),
        ('INIR', (0x01, 0xFE, 0x03, 0x21, 0x00, 0x90, 0xED, 0xB2)),
        ('HALT', (0x76,)),
        ('EI;HALT', (0xFB, 0x76)),
        ('HALT;HALT', (0xFB, 0x76, 0x76)),
        ('IM1', (0xED, 0x56)),
        ('LDIR', (0x01, 0x40, 0x00, 0x21, 0x00, 0x90, 0x11, 0x00, 0x91, 0xED, 0xB0)),
        ('BIT (IX)', (0xDD, 0x21, 0x00, 0x90, 0xDD, 0xCB, 0x01, 0x46, 0xDD, 0xCB, 0x02, 0xC6)),
        ('OUT FE', (0x3E, 0x05, 0xD3, 0xFE)),
        ('PUSH/POP', (0xE5, 0xF5, 0xD1, 0xC1)),
        ('EXX', (0xD9, 0x08)),
        # every DD/FD-prefixed register-to-register load (IXh/IXl forms, and the ones the prefix does not modify): the
        # M1 fetch accounting of prefixed instructions is per opcode
        ('DD ld r,r', tuple(b for op in range(0x40, 0x80) if op != 0x76 and op & 7 != 6 and (op >> 3) & 7 != 6 for b in (0xDD, op))),
        ('FD ld r,r', tuple(b for op in range(0x40, 0x80) if op != 0x76 and op & 7 != 6 and (op >> 3) & 7 != 6 for b in (0xFD, op))),
        ('DD alu/inc', tuple(b for op in (0x24, 0x25, 0x2C, 0x2D, 0x84, 0x8D, 0x94, 0x9D, 0xA4, 0xAD, 0xB4, 0xBD, 0x09, 0x19, 0x29, 0x39, 0x23, 0x2B, 0x04, 0x80)
                             for b in (0xDD, op))),
        ('FD alu/inc', tuple(b for op in (0x24, 0x25, 0x2C, 0x2D, 0x84, 0x8D, 0x94, 0x9D, 0xA4, 0xAD, 0xB4, 0xBD, 0x09, 0x19, 0x29, 0x39, 0x23, 0x2B, 0x04, 0x80)
                             for b in (0xFD, op))),
    ]


def conv_letters():
    """Letters for the frame-boundary sweep: interrupt-sensitive instructions and their neighbours."""
    return [
        ('EI', (0xFB,)),
        ('EI;EI', (0xFB, 0xFB)),
        ('EI;DI', (0xFB, 0xF3)),
        ('DI;EI;NOP', (0xF3, 0xFB, 0x00)),
        ('EI;LD A,I', (0xFB, 0xED, 0x57)),
        ('EI;LD A,R;EI', (0xFB, 0xED, 0x5F, 0xFB)),
        ('LD A,I;EI', (0xED, 0x57, 0xFB)),
        ('EI;DD NOP', (0xFB, 0xDD, 0x00)),
        ('EI;INC IX', (0xFB, 0xDD, 0x23)),
        ('EI;HALT', (0xFB, 0x76)),
        ('EI;IN A,(FE)', (0xFB, 0xDB, 0xFE)),
        ('DI;LD A,I', (0xF3, 0xED, 0x57)),
        ('XOR A;LD A,R', (0xAF, 0xED, 0x5F)),
    ]


def build_program(letter, machine, im1):
    L = dict(letters() + conv_letters())
    code = []

    def emit(*b):
        code.extend(b)
    emit(0xF3, 0x31, 0x00, 0x7A)                    # DI ; LD SP,7A00
    if im1:
        emit(0xED, 0x56)                            # IM 1 (the ROM's interrupt routine: keyboard scan = 8 port reads)
        emit(0xFD, 0x21, 0x3A, 0x5C)                # LD IY,5C3A (the ROM routine uses IY)
    else:
        emit(0x3E, 0x7D, 0xED, 0x47, 0xED, 0x5E)    # LD A,7D ; LD I,A ; IM 2
    emit(0x21, 0x00, 0x90, 0xFB)                    # LD HL,9000 ; EI
    emit(*L[letter])
    if machine == '128K':
        emit(0x01, 0xFD, 0x7F, 0x3E, 0x13, 0xED, 0x79)      # LD BC,7FFD ; LD A,13 ; OUT (C),A  (bank 3, ROM 1)
        emit(0x32, 0x00, 0xC0)                              # LD (C000),A
        # page again through an alias of the port (A15 = 0 and A1 = 0 are all that is decoded)
        emit(0x01, 0xFD, 0x3F, 0x3E, 0x14, 0xED, 0x79)      # LD BC,3FFD ; LD A,14 ; OUT (C),A  (bank 4, ROM 1)
        emit(0x32, 0x01, 0xC0)                              # LD (C001),A
    # polling loop: IN A,(FE) ; INC HL ; LD (HL),A ; LD BC,7FFE ; IN E,(C) ; JR loop
    here = len(code)
    emit(0xDB, 0xFE, 0x23, 0x77, 0x01, 0xFE, 0x7F, 0xED, 0x58, 0x18, 0xF5)
    return bytes(code)


ISR_CODE = bytes((0xF5, 0xDB, 0xFE, 0x3A, 0x00, 0x7B, 0x3C, 0x32, 0x00, 0x7B, 0xF1, 0xFB, 0xED, 0x4D))
# PUSH AF ; IN A,(FE) ; LD A,(7B00) ; INC A ; LD (7B00),A ; POP AF ; EI ; RETI


class PagedMem:
    """64K view of 128K memory for the recorder (the documented latch)."""
    def __init__(self, roms, banks):
        self.roms = roms
        self.banks = banks
        self.latch = 0
        self.map = [roms[0], banks[5], banks[2], banks[0]]

    def page(self, v):
        if self.latch & 0x20:
            return
        self.latch = v
        self.map[0] = self.roms[(v >> 4) & 1]
        self.map[3] = self.banks[v & 7]

    def __getitem__(self, a):
        return self.map[a >> 14][a & 0x3FFF]

    def __setitem__(self, a, v):
        self.map[a >> 14][a & 0x3FFF] = v


def initial_memory(machine, prog):
    from skoolkit import ROM48, ROM128, read_bin_file
    if machine == '48K':
        mem = list(read_bin_file(ROM48)) + [(a * 5 + 1) & 0xFF for a in range(0x4000, 0x10000)]
        view = mem
        banks = None
    else:
        roms = [list(read_bin_file(r)) for r in ROM128]
        banks = [[(a * 5 + 1 + 16 * b) & 0xFF for a in range(0x4000)] for b in range(8)]
        view = PagedMem(roms, banks)
    for i, b in enumerate(prog):
        view[ORG + i] = b
    for i, b in enumerate(ISR_CODE):
        view[ISR + i] = b
    view[0x7B00] = 0
    view[0x7DFF] = ISR & 0xFF
    view[0x7E00] = ISR >> 8
    return view, banks


def record(machine, prog, nframes, cut=None, conv=(0, 0)):
    """Run the reference model as a recorder.  Returns (frames, final State, memory view, border, outfe).

    cut: the first frame ends after this many instructions (a recorder may end a frame anywhere).
    conv = (ldair, ei): the recording conventions that rzxplay's playback flags 1 and 2 exist for -
      ldair: when the last instruction of a frame is LD A,I or LD A,R and the interrupt is accepted next, bit 2 of F is
             reset (what a real Z80 does);
      ei:    when the last instruction of a frame is EI the interrupt is not accepted yet: the next frame is a short
             one (a single instruction), and the interrupt is accepted at the start of the frame after it."""
    mem, banks = initial_memory(machine, prog)
    st = z80ref.State(PC=ORG, SP=0x7A00, A=0x5A, F=0x01, B=0x12, C=0x34, D=0x56, E=0x78, H=0x90, L=0x00, IXh=0x91, IYh=0x5C, IYl=0x3A,
                      I=0x3F, R=0x48, IM=1, IFF=0, T=0)
    answers = [0]
    frames = []
    hw = {'border': 2, 'outfe': 0}

    def inp(port):
        v = ANSWERS[answers[0] % len(ANSWERS)]
        answers[0] += 1
        readings.append(v)
        return v

    def out(port, v):
        if port % 2 == 0:
            hw['border'] = v & 7
            hw['outfe'] = v
        if machine == '128K' and port & 0x8002 == 0:
            mem.page(v)

    short_next = False
    for fi in range(nframes):
        readings = []
        fetches = 0
        last_pc = st.PC
        ninstr = 0
        while st.T < FRAME_T and not (fi == 0 and cut is not None and ninstr >= cut) and not (short_next and ninstr >= 1):
            ninstr += 1
            last_pc = st.PC
            res = z80ref.step(st, mem, inp, out, frame=1 << 40, int_active=0)
            ins = res.insn
            if ins.op == 'prefix':
                fetches += 1
            elif mem[last_pc] in (0xCB, 0xED, 0xDD, 0xFD):
                fetches += 2
            else:
                fetches += 1
            if fetches > 65000:
                raise AssertionError('frame too long for a 16-bit fetch counter')
        frames.append((fetches, bytes(readings)))
        st.T = 0
        short_next = False
        if st.IFF and conv[1] and mem[last_pc] == 0xFB and mem[last_pc] != 0x76:
            # EI convention: the instruction after EI still runs before the interrupt, as a frame of its own
            short_next = True
            continue
        if st.IFF:
            if mem[last_pc] == 0x76:
                st.PC = (st.PC + 1) & 0xFFFF
            elif conv[0] and mem[last_pc] == 0xED and mem[(last_pc + 1) & 0xFFFF] in (0x57, 0x5F):
                st.F &= 0xFB
            # interrupt acceptance
            if st.IM == 2:
                v = (st.I << 8) | 0xFF
                target = mem[v] + 256 * mem[(v + 1) & 0xFFFF]
                st.T += 19
            else:
                target = 0x38
                st.T += 13
            sp = (st.SP - 2) & 0xFFFF
            st.SP = sp
            if sp >= 0x4000:
                mem[sp] = st.PC & 0xFF
            if ((sp + 1) & 0xFFFF) >= 0x4000:
                mem[(sp + 1) & 0xFFFF] = st.PC >> 8
            st.R = (st.R & 0x80) | ((st.R + 1) & 0x7F)
            st.PC = target
            st.IFF = 0
            st.HALT = 0
    return frames, st, mem, banks, hw


def write_initial_snapshot(machine, fmt, prog, d):
    from skoolkit.snapshot import write_snapshot
    mem, banks = initial_memory(machine, prog)
    if machine == '48K':
        ram = mem[0x4000:]
    else:
        ram = [list(b) for b in banks]      # write_snapshot takes a list of 8 banks for a 128K machine
    regs = ['a=90', 'f=1', 'bc={}'.format(0x1234), 'de={}'.format(0x5678), 'hl={}'.format(0x9000), 'ix={}'.format(0x9100), 'iy={}'.format(0x5C3A),
            'sp={}'.format(0x7A00), 'i=63', 'r={}'.format(0x48), 'pc={}'.format(ORG)]
    state = ['iff=0', 'im=1', 'tstates=0', 'border=2']
    if machine != '48K':
        state += ['7ffd=0']
    fname = os.path.join(d, 'init.' + fmt)
    write_snapshot(fname, ram, regs, state, machine)
    return fname


def expected_state(st, mem, banks, machine, hw):
    d = dict(a=st.A, f=st.F, bc=st.B * 256 + st.C, de=st.D * 256 + st.E, hl=st.H * 256 + st.L, ix=st.IXh * 256 + st.IXl, iy=st.IYh * 256 + st.IYl,
             sp=st.SP, i=st.I, r=st.R, pc=st.PC, a2=st.xA, f2=st.xF, bc2=st.xB * 256 + st.xC, de2=st.xD * 256 + st.xE, hl2=st.xH * 256 + st.xL,
             iff1=st.IFF, im=st.IM, border=hw['border'])
    if machine == '48K':
        d['ram'] = bytes(mem[0x4000:])
    else:
        d['ram'] = b''.join(bytes(b) for b in banks)
        d['out7ffd'] = mem.latch
    return d


def read_snapshot(fname, keys):
    from skoolkit.snapshot import Snapshot
    s = Snapshot.get(fname)
    d = {}
    for k in keys:
        if k == 'ram':
            d[k] = bytes(s.ram(-1))
        else:
            d[k] = getattr(s, k)
    return d


def play(args, d):
    return tools.run_tool('rzxplay', ['--no-screen', '--quiet'] + args)


def run_case(machine, fmt, compress, repeat, nframes, letter, im1, cut=None, conv=(0, 0), flags=0, light=False, split=None):
    """Returns (list of problems, executions)."""
    d = tools.workdir()
    prog = build_program(letter, machine, im1)
    frames, st, mem, banks, hw = record(machine, prog, nframes, cut, conv)
    want = expected_state(st, mem, banks, machine, hw)
    init = write_initial_snapshot(machine, fmt, prog, d)
    rzx = os.path.join(d, 'rec.rzx')
    with open(rzx, 'wb') as f:
        f.write(rzxfmt.build(tools.read_file(init), fmt, frames, compress, repeat, split=split))
    problems = []
    n = 0
    finals = {}
    for py, cmio in ((0, 0), (1, 0), (0, 1), (1, 1)):
        out = os.path.join(d, 'final_{}{}.szx'.format(py, cmio))
        if os.path.exists(out):
            os.unlink(out)
        r = play((['--python'] if py else []) + (['--cmio'] if cmio else []) + (['--flags', str(flags)] if flags else []) + [rzx, out], d)
        n += 1
        tag = '{}{}'.format('--python ' if py else '', '--cmio' if cmio else '').strip() or 'default'
        if r.rc:
            problems.append('playback ({}) failed: {}'.format(tag, r.exc))
            continue
        got = read_snapshot(out, want.keys())
        finals[py, cmio] = got
        diffs = [k for k in want if want[k] != got[k]]
        if diffs:
            problems.append('playback ({}) ends in a different state from the recorder: {}'.format(
                tag, ', '.join('{}={} (recorded {})'.format(k, got[k] if k != 'ram' else '...', want[k] if k != 'ram' else '...') for k in diffs[:5])))
    if light:
        return problems, n, frames
    # stop at every frame, dump the rest, resume
    whole = finals.get((0, 0))
    if whole is not None:
        for k in range(1, nframes):
            part = os.path.join(d, 'part.rzx')
            out = os.path.join(d, 'resumed.szx')
            for p in (part, out):
                if os.path.exists(p):
                    os.unlink(p)
            r1 = play(['--stop', str(k), rzx, part], d)
            n += 1
            if r1.rc:
                problems.append('stop at frame {} + dump failed: {}'.format(k, r1.exc))
                continue
            r2 = play([part, out], d)
            n += 1
            if r2.rc:
                problems.append('playing the recording dumped at frame {} failed: {}'.format(k, r2.exc))
                continue
            got = read_snapshot(out, want.keys())
            diffs = [x for x in want if whole[x] != got[x]]
            if diffs:
                problems.append('resuming from the recording dumped at frame {} ends differently: {}'.format(k, diffs[:6]))
            # the dumped file must hold exactly the remaining frames
            blocks = rzxfmt.parse(tools.read_file(part))
            rest = [b for b in blocks if b[0] == 'input']
            if not rest or [f for b in rest for f in b[2]] != frames[k:]:
                problems.append('recording dumped at frame {} does not contain exactly the remaining {} frame(s)'.format(k, nframes - k))
    # rzxinfo
    r = tools.run_tool('rzxinfo', ['--frames', rzx])
    n += 1
    if r.rc:
        problems.append('rzxinfo failed: {}'.format(r.exc))
    else:
        per_block = [int(x) for x in re.findall(r'Number of frames: (\d+)', r.out)]
        want_blocks = [split, nframes - split] if split else [nframes]
        if per_block != want_blocks:
            problems.append('rzxinfo reports {} frames per input recording block, recorded {}'.format(per_block, want_blocks))
        fcs = [int(x) for x in re.findall(r'Fetch counter: (\d+)', r.out)]
        if fcs != [f[0] for f in frames]:
            problems.append('rzxinfo fetch counters {} != recorded {}'.format(fcs, [f[0] for f in frames]))
        ics = re.findall(r'IN counter: (\d+)(?: \((\d+)\))?', r.out)
        got_ic = [int(b) if b else int(a) for a, b in ics]
        if got_ic != [len(f[1]) for f in frames]:
            problems.append('rzxinfo IN counters {} != recorded {}'.format(got_ic, [len(f[1]) for f in frames]))
        chunks = r.out.split('  Frame ')[1:]
        for k, ch in enumerate(chunks):
            mm = re.search(r'Port readings: ([0-9, ]+)(\.\.\.)?', ch)
            exp = list(frames[k][1][:10])
            got_r = [int(x) for x in mm.group(1).split(',')] if mm else []
            if got_r != exp or bool(mm and mm.group(2)) != (len(frames[k][1]) > 10):
                problems.append('rzxinfo frame {} port readings {} != recorded {}'.format(k, got_r, exp))
                break
    return problems, n, frames


def cases(tier):
    L = [n for n, _ in letters()]
    quick = tier == 'quick'
    # split = the frames are divided between two input recording blocks at this index (0 = one block)
    default = dict(machine='48K', fmt='z80', compress=True, repeat=False, nframes=3, im1=False, split=0)
    alts = dict(machine=['128K'], fmt=['szx'], compress=[False], repeat=[True], nframes=[2, 5], im1=[True], split=[1, 2])
    cfgs = []
    for k, cfg in core.deviations(default, alts, 2 if quick else 3):
        if cfg['split'] >= cfg['nframes']:
            continue
        if cfg not in cfgs:
            cfgs.append(cfg)
    for cfg in cfgs:
        for letter in L:
            yield cfg, letter
    # frame-boundary sweep: the first frame ends after EVERY instruction count from the prologue's EI to past the end
    # of the letter, under each recording convention, played with the matching playback flags (and with flag 4,
    # which only concerns later snapshots, added)
    for machine, im1 in (('48K', False), ('48K', True)) if quick else (('48K', False), ('48K', True), ('128K', False)):
        for letter, code in conv_letters():
            for cut in range(5, 12):
                for conv in ((0, 0), (1, 0), (0, 1), (1, 1)):
                    for extra in ((0, 4) if (quick and conv == (1, 1)) or not quick else (0,)):
                        yield dict(default, machine=machine, im1=im1, nframes=4, cut=cut, conv=list(conv), flags=conv[0] + 2 * conv[1] + extra), letter


def _shard(shard, nshards, tier, seed):
    stats = core.Stats(PROPERTY)
    for i, (cfg, letter) in core.shard_iter(cases(tier), shard, nshards):
        swept = 'cut' in cfg
        problems, n, frames = run_case(cfg['machine'], cfg['fmt'], cfg['compress'], cfg['repeat'], cfg['nframes'], letter, cfg['im1'],
                                       cfg.get('cut'), tuple(cfg.get('conv', (0, 0))), cfg.get('flags', 0), light=swept, split=cfg.get('split') or None)
        stats.evaluations += 1
        stats.transitions += n
        stats.traces += 1
        ctag = '{machine}/{fmt}/z{compress:d}/rep{repeat:d}/F{nframes}/im{im}'.format(im=1 if cfg['im1'] else 2, **cfg)
        if cfg.get('split'):
            ctag += '/split{}'.format(cfg['split'])
            stats.counters['two_input_blocks'] += 1
        if swept:
            ctag += '/cut{}/conv{}{}/flags{}'.format(cfg['cut'], cfg['conv'][0], cfg['conv'][1], cfg['flags'])
            stats.counters['boundary_sweep'] += 1
            if any(f[0] <= 2 for f in frames[1:]):
                stats.counters['short_frame_after_EI'] += 1
        stats.state((ctag, letter))
        stats.nontriv((ctag, letter))
        stats.counters['port_readings'] += sum(len(f[1]) for f in frames)
        stats.counters['frames'] += len(frames)
        if cfg['repeat'] and any(frames[j][1] == frames[j - 1][1] and frames[j][1] for j in range(1, len(frames))):
            stats.counters['repeat_marker_used'] += 1
        if problems:
            stats.violation('{}/{}'.format(ctag, letter), {'cfg': cfg, 'letter': letter}, '; '.join(problems[:3]),
                            tags={'machine': cfg['machine'], 'fmt': cfg['fmt'], 'letter': letter, 'first': problems[0][:30]}, order=i)
        if i % 40 == 0:
            stats.sample({'config': cfg, 'letter': letter, 'frames': [(f[0], len(f[1])) for f in frames]})
    return stats


def run(tier, seed):
    stats = core.run_shards(_shard, tier, seed, prop=PROPERTY)
    meta = dict(
        rule='recordings made by the reference-model recorder for prologue + each of {} letters + polling loop; configurations = deviations <= {} '
             'from (48K, z80 snapshot, compressed, no repeat marker, 3 frames, IM 2) over 128K, szx, uncompressed, repeat marker, 2/5 frames, IM 1 (ROM '
             'interrupt routine), frames divided between two input recording blocks at index 1/2; each case: playback on all 4 simulator choices vs the recorder state, EVERY stop frame 1..F-1 with dump + resume, '
             'rzxinfo --frames vs the recorded counters and readings; frame-boundary sweep: 13 interrupt-sensitive letters x the first frame ended after every instruction count 5..11 x 4 recording conventions (LD A,I/R flag fix, EI + short frame) played with the matching --flags value (and +4). evaluations = recordings; transitions = tool executions'.format(
                 len(letters()), 2 if tier == 'quick' else 3),
        exhaustive=True,
        bound='all letters x configuration deviations d <= {}; all stop frames'.format(2 if tier == 'quick' else 3),
        assumptions=['recorder = mc/refs/z80ref.py run with the RZX conventions (M1 fetch counting, frame-end interrupt, clock restart); playback flags 0 for the main space, flags 1/2/3 (+4) in the frame-boundary sweep with recordings made under the matching convention',
                     'recorded frames are {} T-states long (an RZX frame is defined by its fetch counter, not by the 50 Hz frame)'.format(FRAME_T)],
        required_guards=['port_readings', 'frames', 'repeat_marker_used', 'boundary_sweep', 'short_frame_after_EI', 'two_input_blocks'],
    )
    return stats, meta


def replay(case):
    cfg = case['cfg']
    p, n, frames = run_case(cfg['machine'], cfg['fmt'], cfg['compress'], cfg['repeat'], cfg['nframes'], case['letter'], cfg['im1'],
                            cfg.get('cut'), tuple(cfg.get('conv', (0, 0))), cfg.get('flags', 0), light='cut' in cfg, split=cfg.get('split') or None)
    return p
