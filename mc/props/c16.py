"""C16 - every internal link and asset reference in generated HTML resolves.

Seam: skool2html.main (in-process, mc.tools.run_tool) writing a complete HTML
disassembly into a fresh directory.  Harness-side wrappers (inside the check process
only) around FileInfo.open_file, skool2html's resource copier (shutil.copy2) and the
joined-CSS writer log every path written.  An html.parser walker then follows every
href/src of every written page.

Space (enumerated completely, simplest first): a parametric skool/ref/option grammar

    main.skool   E0 (RST target at 7/8), E1 (target entry, every type of bcgstuw; first
                 instruction, mid instruction, '*' entry point, a byte inside an
                 instruction), E2 (source entry: CALL/JP/JR/DJNZ/LD/DEFW/JP cc/RST
                 operands all aimed at one target kind), E3 (an 'i' entry), @remote (one
                 directive or two naming the same remote routine with disjoint, overlapping or
                 identical entry point lists; at the top of the file, in two routines, in one),
                 @label, #R in every comment position (title, description, register
                 description, delimited register name, start comment, instruction
                 comment, multi-line instruction comment, mid-block comment, end
                 comment) plus [Page], box page entries and a memory map intro
    other.skool  a secondary disassembly ([OtherCode:other]; optionally a second one)
                 with @remote back to main; its second entry of every type of bcgistuw
    main.ref     AddressAnchor, LinkOperands, LinkInternalOperands(+MinDistance),
                 AsmSinglePage, [Paths] nesting for code/other code/index/maps/single
                 page/CSS+JS/images+audio/custom page, [Paths] naming relation (every
                 top-level name of the tree a proper string prefix of the next one, in
                 both orders, at the root and below a common parent directory), [Page:*],
                 box page types, [MemoryMap:*] parameters, the index page of the secondary
                 disassembly as a user-defined or as the built-in memory map, [Resources],
                 Logo/LogoImage,
                 JavaScript
    options      -1 -a -C -D/-H -l/-u -o -O -T -j and every subset of -w dimoP

explored as core.deviations from the default configuration (quick: d <= 2 over all 49
dimensions; thorough: additionally d <= 3 over the 21 link-forming core dimensions).
The -w letters form one more dimension whose 31 non-default values are all run (quick:
on the default configuration; thorough: on every configuration with <= 1 deviation),
each judged against the complete tree of the same configuration.

Oracle (independent of the code: a page/anchor model written from ref-files.rst,
skool-files.rst, skool-macros.rst and the walker):
  * skool2html exits 0 (every generated input is valid by the documentation);
  * no path is written twice; every file in the output tree was logged;
  * the set of HTML pages written is the documented one (index, maps that have entries,
    one page per non-'i' entry or the single page, other-code index + pages, [Page:*]);
  * every relative href/src resolves to a written file and every fragment to an `id`
    (or <a name>) in that file;
  * every id occurs once per file; every instruction of every entry (so every entry and
    every entry point) has exactly one anchor in the AddressAnchor format on its page,
    every listed entry exactly one on each memory map page.
"""
import hashlib
import json
import os
import posixpath
import shutil
import subprocess
import sys
from html.parser import HTMLParser
from urllib.parse import unquote

from .. import core, tools

PROPERTY = 'C16'
NEEDS_C = False

# --------------------------------------------------------------------------- dimensions
# Default value first.  Every dimension is documented where it is consumed (build_case).
DEFAULT = dict(
    # skool file shape
    tgt='entry', rtgt='e2', rform='plain', ttype='c', stype='c', e3='i', rst='entry', label='none', other='one', otype='w',
    remotes='one', remoteplace='top', hexskool=0,
    # ref file
    anchor='dec', linkops='default', lio='0', single=0, codepath='asm', codefiles='default', opaths='default',
    indexpath='default', mappath='default', asmpage='default', respath='default', assetpath='default', pagepath='default',
    dirnames='distinct',
    pagejs=0, gamejs=0, css='one', resources=0, logo='none', mapdesc=0, maplabel=0, mapwrite='default', mapincl='includes',
    omap='section', box='para', boxlink='blank', refpages=0,
    # options
    one=0, a=0, C=0, base='', case='', theme=0, joincss=0, o=0, O=0,
)
ALTS = dict(
    tgt=['mid', 'ep', 'nonins', 'self', 'selfmid', 'e3', 'e3mid', 'remote', 'remote_ep', 'remote_undeclared', 'nowhere'],
    rtgt=['e2mid', 'e2ep', 'e1', 'e1mid', 'e1ep', 'e0', 'e3', 'remote', 'remote_ep', 'other_entry'],
    rform=['text', 'anchor_entry', 'named', 'hex', 'full'],
    ttype=['b', 't', 'w', 'g', 'u', 's'],
    stype=['b', 't', 'w', 'g', 'u', 's'],
    e3=['none', 'b'],
    rst=['mid', 'ep', 'none'],
    label=['e1', 'e2', 'both'],
    other=['two'],
    otype=['b', 'c', 'g', 's', 't', 'u', 'i'],
    remotes=['disjoint', 'disjoint_rev', 'overlap', 'identical'],
    remoteplace=['split', 'same'],
    hexskool=[1],
    anchor=['hex', 'HEX', 'if'],
    linkops=['all', 'ld'],
    lio=['1', '1:5'],
    single=[1],
    codepath=['deep', 'root'],
    codefiles=['hex'],
    opaths=['custom', 'shared'],
    indexpath=['deep'],
    mappath=['moved'],
    asmpage=['deep'],
    respath=['deep'],
    assetpath=['deep', 'split'],
    pagepath=['deep'],
    dirnames=['chain', 'chain_rev', 'nested', 'nested_rev'],
    pagejs=[1],
    gamejs=[1],
    css=['two'],
    resources=[1],
    logo=['image', 'macro', 'missing'],
    mapdesc=[1],
    maplabel=[1],
    mapwrite=['noroutines'],
    mapincl=['types'],
    omap=['builtin'],
    box=['list', 'bullets'],
    boxlink=['text'],
    refpages=[1],
    one=[1], a=[1], C=[1], base=['-D', '-H'], case=['-l', '-u'], theme=[1], joincss=[1], o=[1], O=[1],
)
# the dimensions that decide which links exist and where they point
CORE = ('tgt', 'rtgt', 'rform', 'ttype', 'label', 'hexskool', 'anchor', 'linkops', 'lio', 'single', 'codepath', 'opaths',
        'one', 'a', 'base', 'case')
W_FULL = 'dimoP'


def w_subsets():
    """All 31 proper subsets of 'dimoP' (the empty one included), smallest first."""
    out = []
    for n in range(32):
        s = ''.join(c for i, c in enumerate(W_FULL) if n >> i & 1)
        if s != W_FULL:
            out.append(s)
    out.sort(key=lambda s: (len(s), s))
    return out


def label_of(cfg):
    dev = ['{}={}'.format(k, cfg[k]) for k in DEFAULT if cfg[k] != DEFAULT[k]]
    return ','.join(dev) or 'default'


CORE_T = CORE + ('e3', 'rst', 'other', 'mapdesc', 'C')


def bounds(tier):
    """(d over all dimensions, d over the core dimensions, core dimensions, d of the other dimensions when -w deviates)"""
    if tier == 'quick':
        return 2, 2, (), 0
    return 2, 3, CORE_T, 1


def work_items(tier):
    """The complete ordered list of work items: (cfg, chunk of -w subsets or None)."""
    d_all, d_core, core_dims, d_w = bounds(tier)
    cfgs = []
    for k, cfg in core.deviations(DEFAULT, ALTS, d_all):
        cfgs.append((k, cfg))
    if d_core > d_all:
        core_alts = {k: ALTS[k] for k in core_dims}
        for k, cfg in core.deviations(DEFAULT, core_alts, d_core):
            if k > d_all:
                cfgs.append((k, cfg))
    subsets = w_subsets()
    chunks = [subsets[i:i + 8] for i in range(0, len(subsets), 8)]
    items = []
    # -w is one more dimension (31 alternative values): it deviates together with at most d_w other dimensions.
    # Each chunk of subsets is judged against the complete tree of the same configuration, written first.
    for k, cfg in cfgs:
        if k == 0:
            items.append((cfg, None))
            for ch in chunks:
                items.append((cfg, ch))
    for k, cfg in cfgs:
        if k > 0:
            items.append((cfg, None))
            if k <= d_w:
                for ch in chunks:
                    items.append((cfg, ch))
    return items


# --------------------------------------------------------------------------- case builder
E1 = 32768
E2 = 32800
E3 = 33000
OC = 49152          # other code: entry, with entry point OC+3, undeclared instruction OC+6
OC2 = 49200         # other code: second entry (not named by any @remote)
AUX = 50000         # second other code (other='two')
NOWHERE = 40000
UDG_ADDR = 39144


def _anchor_fmt(cfg):
    """The AddressAnchor value written to the ref file."""
    return {'dec': '{address}', 'hex': '{address:04x}', 'HEX': '{address:04X}',
            'if': '{address#IF({mode[base]}==16)(:04X)}'}[cfg['anchor']]


def anchor_of(cfg, address):
    """Reference: the documented meaning of each AddressAnchor value (ref-files.rst, [Game])."""
    a = cfg['anchor']
    if a == 'dec':
        return str(address)
    if a == 'hex':
        return '%04x' % address
    if a == 'HEX':
        return '%04X' % address
    return '%04X' % address if cfg['base'] == '-H' else str(address)


# The top-level names of the output tree, one slot each (dimension 'dirnames').  With the default value the names
# are the documented defaults, no one of which is a string prefix of another.  With 'chain' slot k is named
# CHAIN[k] = 'n' + the first k letters of the alphabet, so the name of every slot is a proper string prefix of the
# name of every later slot although no directory contains another; 'chain_rev' assigns the names in the opposite
# order, so that between them every ordered pair (directory of the linking page, path of the link target) occurs
# with the first a string prefix of the second.  'nested'/'nested_rev' are the same two assignments below the
# common parent directory 'r' (prefix-sharing siblings at depth 2; the parent is a real ancestor of all of them).
SLOTS = (
    ('code', {'CodePath': '{}'}),
    ('maps', {'MemoryMap': '{}/all.html', 'RoutinesMap': '{}/routines.html', 'DataMap': '{}/data.html',
              'MessagesMap': '{}/messages.html', 'UnusedMap': '{}/unused.html', 'Custom': '{}/Custom.html'}),
    ('buffers', {'GameStatusBuffer': '{}/gbuffer.html'}),
    ('other', {'other-CodePath': '{}', 'other-Index': '{}/other.html', 'other-AsmSinglePage': '{}/asm.html'}),
    ('aux2', {'aux2-CodePath': '{}', 'aux2-Index': '{}/aux2.html', 'aux2-AsmSinglePage': '{}/asm.html'}),
    ('box', {'Box': '{}/box.html'}),
    ('page', {'P1': '{}.html'}),                          # a file in the root directory
    ('reference', {'Bugs': '{}/bugs.html', 'Facts': '{}/facts.html', 'Changelog': '{}/changelog.html'}),
    ('images', {'ImagePath': '{}'}),
    ('audio', {'AudioPath': '{}'}),
    ('single', {'AsmSinglePage': '{}.html'}),             # a file in the root directory
    ('index', {'GameIndex': '{}.html'}),                  # a file in the root directory
    ('resources', {'StyleSheetPath': '{}', 'JavaScriptPath': '{}', 'FontPath': '{}'}),
)
CHAIN = ['n' + 'abcdefghijklmnopqrstuvwxyz'[:k] for k in range(len(SLOTS))]


def _named_paths(cfg):
    """[Paths] parameters that the dimension 'dirnames' sets (empty for the default value)."""
    kind = cfg['dirnames']
    if kind == 'distinct':
        return {}
    names = CHAIN[::-1] if kind.endswith('_rev') else CHAIN
    parent = 'r/' if kind.startswith('nested') else ''
    over = {}
    for (slot, params), name in zip(SLOTS, names):
        if slot == 'aux2' and cfg['other'] != 'two':
            continue
        for k, fmt in params.items():
            over[k] = parent + fmt.format(name)
    return over


def _paths(cfg):
    """Reference: [Paths] in force for this configuration (defaults from ref-files.rst)."""
    p = dict(AudioPath='audio', CodePath='asm', FontPath='.', ImagePath='images', JavaScriptPath='.', StyleSheetPath='.',
             AsmSinglePage='asm.html', CodeFiles='{address}.html', GameIndex='index.html', MemoryMap='maps/all.html',
             RoutinesMap='maps/routines.html', DataMap='maps/data.html', MessagesMap='maps/messages.html',
             UnusedMap='maps/unused.html', GameStatusBuffer='buffers/gbuffer.html', Bugs='reference/bugs.html',
             Facts='reference/facts.html', Changelog='reference/changelog.html', Custom='maps/Custom.html',
             P1='P1.html', Box='Box.html')
    p['other-Index'] = 'other/other.html'
    p['other-CodePath'] = 'other'
    p['other-AsmSinglePage'] = 'other/asm.html'
    p['aux2-Index'] = 'aux2/aux2.html'
    p['aux2-CodePath'] = 'aux2'
    p['aux2-AsmSinglePage'] = 'aux2/asm.html'
    # the naming relation first; the dimensions that move one kind of path each are applied on top of it
    over = _named_paths(cfg)
    if cfg['codepath'] == 'deep':
        over['CodePath'] = 'code/deep/asm'
    elif cfg['codepath'] == 'root':
        over['CodePath'] = '.'
    if cfg['codefiles'] == 'hex':
        over['CodeFiles'] = '{address:04x}.htm'
    if cfg['opaths'] == 'custom':
        over['other-CodePath'] = 'oc/deep/asm'
        over['other-Index'] = 'oc/idx.html'
        over['other-AsmSinglePage'] = 'oc/one.html'
    elif cfg['opaths'] == 'shared':
        over['other-CodePath'] = over.get('CodePath', 'asm')
    if cfg['indexpath'] == 'deep':
        over['GameIndex'] = 'home/deep/index.html'
    if cfg['mappath'] == 'moved':
        over['MemoryMap'] = 'all.html'
        over['RoutinesMap'] = 'm/r/routines.html'
        over['Custom'] = 'm/custom.html'
    if cfg['asmpage'] == 'deep':
        over['AsmSinglePage'] = 'single/deep/asm.html'
    if cfg['respath'] == 'deep':
        over['StyleSheetPath'] = 'css/deep'
        over['JavaScriptPath'] = 'js/deep'
        over['FontPath'] = 'fonts'
    if cfg['assetpath'] == 'deep':
        over['ImagePath'] = 'img/deep'
        over['AudioPath'] = 'snd/deep'
    elif cfg['assetpath'] == 'split':
        over['UDGImagePath'] = 'u'
        over['ScreenshotImagePath'] = 's/s'
        over['AudioPath'] = '.'
    if cfg['pagepath'] == 'deep':
        over['P1'] = 'pages/deep/p1.html'
        over['Box'] = 'pages/box.html'
    p.update(over)
    return p, over


# The @remote directives of main.skool that declare the routine at OC of the secondary disassembly 'other'
# (dimension 'remotes'): the lists of entry points after the entry address, one list per directive.
# A = OC+3 (marked '*' in other.skool), B = OC+6 (an unmarked instruction of the same routine).
REMOTE_LISTS = {
    'one': [(3,)],                      # one directive: A
    'disjoint': [(3,), (6,)],           # A only in the first directive, B only in the second
    'disjoint_rev': [(6,), (3,)],       # B only in the first directive, A only in the second
    'overlap': [(3,), (3, 6)],          # A in both, B only in the second
    'identical': [(3,), (3,)],          # A in both
}


def remote_class(cfg, offset):
    """How the address OC+offset is declared by the @remote directives of main.skool."""
    lists = REMOTE_LISTS[cfg['remotes']]
    if offset == 0:
        return 'entry' if len(lists) == 1 else 'entry_repeated'
    where = [offset in lst for lst in lists]
    if not any(where):
        return 'undeclared'
    if len(lists) == 1:
        return 'single'
    return 'both' if all(where) else ('first_only' if where[0] else 'second_only')


def single_page(cfg):
    return bool(cfg['one'] or cfg['single'])


class Case:
    """Files, arguments and the reference model (expected pages and anchors) of one cfg."""

    def __init__(self, cfg):
        self.cfg = cfg
        self.hex = cfg['hexskool']
        self.files = {}
        self.paths, self.path_overrides = _paths(cfg)
        self._layout()
        self._skool()
        self._other_skool()
        self._ref()
        self._model()

    # -- helpers
    def A(self, n, width=5):
        """An address as written in the skool file (instruction address field / operand)."""
        if self.hex:
            return '$%04X' % n
        return str(n).zfill(width) if width else str(n)

    def op(self, n):
        return ('$%04X' % n) if self.hex else str(n)

    # -- layout
    def _layout(self):
        cfg = self.cfg
        # E0: the RST 8 target.  'entry': 8 starts an entry; 'mid'/'ep': 8 is the 2nd instruction (ep: marked '*')
        self.e0 = None
        if cfg['rst'] == 'entry':
            self.e0 = (8, [(8, 'c', 'RET')])
        elif cfg['rst'] in ('mid', 'ep'):
            self.e0 = (7, [(7, 'c', 'NOP'), (8, '*' if cfg['rst'] == 'ep' else ' ', 'RET')])
        # E1: target entry.  Offsets: +0 first, +1 mid, +2 entry point, +3 a 3-byte item (so +4 is no instruction)
        t = cfg['ttype']
        if t == 'c':
            ops = ['XOR A', 'INC A', 'RET', 'LD BC,0']
        elif t == 't':
            ops = ['DEFM "a"', 'DEFM "b"', 'DEFM "c"', 'DEFM "def"']
        elif t == 's':
            ops = ['DEFS 1', 'DEFS 1', 'DEFS 1', 'DEFS 3']
        elif t == 'w':
            ops = ['DEFB 1', 'DEFB 2', 'DEFB 3', 'DEFW 258,3']
        else:
            ops = ['DEFB 1', 'DEFB 2', 'DEFB 3', 'DEFB 4,5,6']
        self.e1 = (E1, [(E1, t, ops[0]), (E1 + 1, ' ', ops[1]), (E1 + 2, '*', ops[2]), (E1 + 3, ' ', ops[3])])
        # operand target
        self.tgt_addr = {'entry': E1, 'mid': E1 + 1, 'ep': E1 + 2, 'nonins': E1 + 4, 'self': E2, 'selfmid': E2 + 10,
                         'e3': E3, 'e3mid': E3 + 1, 'remote': OC, 'remote_ep': OC + 3, 'remote_undeclared': OC + 6,
                         'nowhere': NOWHERE}[cfg['tgt']]
        near = cfg['tgt'] in ('entry', 'mid', 'ep', 'nonins', 'self', 'selfmid')
        T = self.op(self.tgt_addr)
        s = cfg['stype']
        ins = [
            (E2, s, 'CALL ' + T),
            (E2 + 3, '*', 'JP ' + T),                                  # E2's entry point
            (E2 + 6, ' ', ('JR ' if near else 'DEFW ') + T),           # relative jumps only to targets in range
            (E2 + 8, ' ', ('DJNZ ' if near else 'DEFW ') + T),
            (E2 + 10, ' ', 'LD HL,' + T),                              # E2's mid instruction
            (E2 + 13, ' ', 'LD A,({})'.format(T)),
            (E2 + 16, ' ', 'LD ({}),HL'.format(T)),
            (E2 + 19, ' ', 'DEFW ' + T),
            (E2 + 21, ' ', 'JP NZ,' + T),
            (E2 + 24, ' ', 'RST {}'.format('$08' if self.hex else '8') if self.e0 else 'NOP'),
            (E2 + 25, ' ', 'RET'),
        ]
        self.e2 = (E2, ins)
        self.e3 = None
        if cfg['e3'] != 'none':
            self.e3 = (E3, [(E3, cfg['e3'], 'DEFB 0'), (E3 + 1, ' ', 'DEFB 1')])

    # -- #R macro text for the chosen target and form
    def R(self, where='main', named_ok=True):
        """where: 'main' (main.skool and the ref-file text expanded by the main writer) or 'other' (other.skool and
        the ref-file text expanded by the writer of the secondary disassembly 'other')."""
        cfg = self.cfg
        kind = cfg['rtgt']
        if (kind == 'e0' and not self.e0) or (kind == 'e3' and not self.e3):
            kind = 'e2'
        if kind == 'other_entry' and cfg['otype'] == 'i':
            # #R aimed at an ignored entry is explored with the main disassembly's third entry (rtgt=e3)
            kind = 'remote'
        addr, entry, code = {
            'e2': (E2, E2, 'main'), 'e2mid': (E2 + 10, E2, 'main'), 'e2ep': (E2 + 3, E2, 'main'),
            'e1': (E1, E1, 'main'), 'e1mid': (E1 + 1, E1, 'main'), 'e1ep': (E1 + 2, E1, 'main'),
            'e0': (8, self.e0[0] if self.e0 else 8, 'main'),
            'e3': (E3, E3, 'main'),        # by default an 'i' (ignored) entry: it has instructions but no page
            'remote': (OC, OC, 'other'), 'remote_ep': (OC + 3, OC, 'other'), 'other_entry': (OC2, OC2, 'other'),
        }[kind]
        # @code is written only for a *different* disassembly.  Naming the current disassembly's own id
        # (#R32768@main inside main.skool) is answered with the error "Address not found" for every address;
        # that produces no HTML at all and is outside the property (reported separately as surprising).
        if code == where:
            code = ''
        form = cfg['rform']
        if form == 'named' and not named_ok:
            form = 'text'
        a = '$%04X' % addr if form in ('hex', 'full') else str(addr)
        m = '#R' + a
        if code:
            m += '@' + code
        if form in ('anchor_entry', 'full'):
            # documented: an anchor that evaluates to the entry address is converted to the AddressAnchor format
            m += '#{}'.format(entry)
        elif form == 'named':
            # documented: "#name is the named anchor of an item on the disassembly page"; every
            # generated entry defines the item n<entry address> in its description
            m = '#R{}'.format(entry) + ('@' + code if code else '') + '#n{}'.format(entry)
        if form in ('text', 'named', 'full'):
            m += '(link text)'
        return m

    def B(self, anchor, page='Box'):
        """#LINK to a box page entry; blank link text (documented: defaults to the entry title) unless boxlink='text'."""
        return '#LINK({}#{})({})'.format(page, anchor, '' if self.cfg['boxlink'] == 'blank' else 'entry ' + anchor)

    @property
    def LINKS(self):
        return '#LINK(MemoryMap#32768)(map) #LINK(MemoryMap)() {} {} #LINK(Box)(box) #LINK(P1)(p1) #LINK(GameIndex)(home) ' \
               '#LINK(other-Index)(oc) #LINK(other-Index#{})(oc entry)'.format(self.B('b1'), self.B('title__two_'), OC)

    def _entry_lines(self, entry, title, desc, labels, rich, R, directives=()):
        addr, ins = entry
        L = ['; {}'.format(title), ';', '; {} #HTML(<span id="n{}"></span>)'.format(desc, addr)]
        if rich:
            # the delimited register-name field is case-converted (-l/-u) before macros are expanded, so a
            # case-sensitive named anchor is not placed there
            L += [';', '; A Register description {}'.format(R), '; /{}/ Delimited register name'.format(self.R(named_ok=False)),
                  ';', '; Start comment {}'.format(R)]
        for i, (a, ctl, operation) in enumerate(ins):
            if i == 0:
                L += directives        # ASM directives placed in this routine (above its first instruction)
            if a in labels:
                L.append('@label=' + labels[a])
            comment = ''
            if rich:
                if i == 0:
                    comment = ' ; Instruction comment {}'.format(R)
                elif i == 1:
                    L.append('; Mid-block comment {}'.format(R))
                    comment = ' ; {{Two-instruction comment {}'.format(R)
                elif i == 2:
                    comment = ' ; continued}'
            L.append('{}{} {}{}'.format(ctl, self.A(a), operation, comment))
        if rich:
            L.append('; End comment {}'.format(R))
        L.append('')
        return L

    def _skool(self):
        cfg = self.cfg
        R = self.R()
        labels = {}
        if cfg['label'] in ('e1', 'both'):
            labels.update({E1: 'START', E1 + 1: 'MID', E1 + 2: 'EP'})
        if cfg['label'] in ('e2', 'both'):
            labels.update({E2: 'SRC', E2 + 10: 'SRCMID'})
        # dimensions 'remotes' (how many directives declare the remote routine OC and which entry points each lists)
        # and 'remoteplace': 'top' = all at the start of the file; 'split' = the i-th directive in the i-th routine
        # (E1, E2); 'same' = all in the routine E2
        remotes = ['@remote=other:' + ','.join(self.op(OC + o) for o in (0,) + lst) for lst in REMOTE_LISTS[cfg['remotes']]]
        place = {'top': [remotes, [], []], 'split': [[], remotes[:1], remotes[1:]], 'same': [[], [], remotes]}[cfg['remoteplace']]
        L = list(place[0])
        if cfg['other'] == 'two':
            L.append('@remote=aux2:{}'.format(self.op(AUX)))
        if self.e0:
            L += self._entry_lines(self.e0, 'RST target', 'E0.', labels, False, R)
        audio = '#AUDIO0(snd.wav)(100,200,300)'
        if cfg['resources']:
            audio += ' #AUDIO0(pre.mp3) #AUDIO0(alt.wav)(100,200)'
        desc = 'Description {R}. #UDG{u} {audio} {links}'.format(R=R, u=UDG_ADDR, audio=audio, links=self.LINKS)
        L += self._entry_lines(self.e1, 'Target entry {}'.format(R), desc, labels, True, R, place[1])
        L += self._entry_lines(self.e2, 'Source entry', 'E2.', labels, False, R, place[2])
        if cfg['other'] == 'two':
            # a reference into the second secondary disassembly
            L.insert(len(L) - 2, ' {} CALL {}'.format(self.A(E2 + 26), self.op(AUX)))
        if self.e3:
            L += self._entry_lines(self.e3, 'Third entry', 'E3.', labels, False, R)
        self.files['main.skool'] = '\n'.join(L) + '\n'

    def _other_skool(self):
        cfg = self.cfg
        R = self.R('other')
        # every main address that #R...@main or an operand of the secondary disassembly may name is declared
        # by @remote (documented requirement for linking to an entry point of another disassembly)
        L = ['@remote=main:{},{},{}'.format(self.op(E1), self.op(E1 + 1), self.op(E1 + 2)),
             '@remote=main:{},{},{}'.format(self.op(E2), self.op(E2 + 3), self.op(E2 + 10))]
        if self.e0:
            L.append('@remote=main:' + ','.join(self.op(a) for a, _, _ in self.e0[1]))
        if self.e3:
            L.append('@remote=main:' + ','.join(self.op(a) for a, _, _ in self.e3[1]))
        L += ['; Other routine #R{}@main'.format(E1),
              ';',
              '; From other code {} #R{}@main #R{} #LINK(GameIndex)(home) #LINK(MemoryMap#32768)(map) #LINK(other-Index#{})(own) #UDG{} '
              '#HTML(<span id="n{}"></span>)'.format(R, E1 + 2, OC2 if cfg['otype'] != 'i' else OC + 3, OC, UDG_ADDR, OC),
              'c{} CALL {} ; {}'.format(self.A(OC), self.op(E1), R),
              '*{} JP {}'.format(self.A(OC + 3), self.op(E1 + 2)),
              ' {} RET'.format(self.A(OC + 6)),
              '',
              '; Other data',
              ';',
              '; #HTML(<span id="n{}"></span>)'.format(OC2),
              # the second entry: every entry type (dimension 'otype'); the instructions stay DEFW statements, which are
              # valid in an entry of any type, so that the operand links do not depend on the entry type
              '{}{} DEFW {}'.format(cfg['otype'], self.A(OC2), self.op(OC)),
              ' {} DEFW {}'.format(self.A(OC2 + 2), self.op(E1)),
              ' {} DEFW {}'.format(self.A(OC2 + 4), self.op(OC + 3)),
              '']
        self.files['other.skool'] = '\n'.join(L) + '\n'
        if cfg['other'] == 'two':
            L = ['@remote=main:{}'.format(self.op(E1)),
                 '@remote=other:{},{}'.format(self.op(OC), self.op(OC + 3)),
                 '; Second other routine',
                 ';',
                 '; #R{}@main #R{}@other #R{}@other #HTML(<span id="n{}"></span>)'.format(E1, OC, OC + 3, AUX),
                 'c{} CALL {}'.format(self.A(AUX), self.op(E1)),
                 ' {} JP {}'.format(self.A(AUX + 3), self.op(OC + 3)),
                 '']
            self.files['src/aux2.skool'] = '\n'.join(L) + '\n'

    def _ref(self):
        cfg = self.cfg
        R = self.R()
        G = ['[Game]', 'AddressAnchor=' + _anchor_fmt(cfg)]
        if cfg['linkops'] == 'all':
            G.append('LinkOperands=CALL,DEFW,DJNZ,JP,JR,LD,RST')
        elif cfg['linkops'] == 'ld':
            G.append('LinkOperands=LD')
        if cfg['lio'] != '0':
            G.append('LinkInternalOperands=1')
            if ':' in cfg['lio']:
                G.append('LinkInternalOperandsMinDistance=' + cfg['lio'].split(':')[1])
        if cfg['single']:
            G.append('AsmSinglePage=1')
        if cfg['gamejs']:
            G.append('JavaScript=g.js;h.js')
            self.files['g.js'] = '// g\n'
            self.files['h.js'] = '// h\n'
        if cfg['css'] == 'two':
            G.append('StyleSheet=skoolkit.css;extra.css')
            self.files['extra.css'] = '/* extra */\n'
        if cfg['respath'] == 'deep':
            G.append('Font=f.ttf')
            self.files['f.ttf'] = b'\x00\x01font'
        if cfg['logo'] == 'image':
            G.append('LogoImage=logo.png')
        elif cfg['logo'] == 'missing':
            G.append('LogoImage=nologo.png')
        elif cfg['logo'] == 'macro':
            G.append('Logo=#UDG{},5(logo)'.format(UDG_ADDR))
        L = G + ['']
        if self.path_overrides:
            L.append('[Paths]')
            L += ['{}={}'.format(k, v) for k, v in self.path_overrides.items()]
            L.append('')
        L += ['[OtherCode:other]', '']
        if cfg['other'] == 'two':
            L += ['[OtherCode:aux2]', 'Source=src/aux2.skool', '']
        audio = '#AUDIO0(snd.wav)(100,200,300) #AUDIO0(/sfx/abs.wav)(50,60)'
        if cfg['resources']:
            audio += ' #AUDIO0(pre.mp3) #AUDIO0(alt.wav)(100,200)'
        L += ['[Page:P1]']
        if cfg['pagejs']:
            L.append('JavaScript=p.js')
            self.files['p.js'] = '// p\n'
        L += ['PageContent=Page {R} {links} #UDG{u} #SCR2(shot) #UDG{u},7(/top/abs) #UDG{u},5({{ScreenshotImagePath}}/viaid) '
              '#UDG{u},3(sub/dir/named) #FONT{u}(hi)(font1) {audio}'.format(R=R, links=self.LINKS, u=UDG_ADDR, audio=audio), '']
        L += ['[Page:Box]', 'SectionPrefix=Box']
        if cfg['box'] == 'list':
            L.append('SectionType=ListItems')
        elif cfg['box'] == 'bullets':
            L.append('SectionType=BulletPoints')
        L.append('')
        L += self._box_sections('Box', R)
        if cfg['refpages']:
            L += ['[Bug:b1:Bug one]', 'A bug in {}. {} {}'.format(R, self.B('f1', 'Facts'), self.B('bug_two', 'Bugs')), '',
                  '[Bug:Bug two]', 'Another #UDG{}.'.format(UDG_ADDR), '',
                  '[Fact:f1:Fact one]', 'A fact about {}. {}'.format(R, self.B('b1', 'Bugs')), '',
                  '[Changelog:c1:Version 1]', 'Intro {}'.format(R), '', 'Item one ' + self.B('b1', 'Bugs'), '  Subitem {}'.format(R), '']
        M = ['[MemoryMap:MemoryMap]']
        if cfg['mapdesc']:
            M.append('EntryDescriptions=1')
        if cfg['maplabel']:
            M.append('LabelColumn=1')
        M += ['Intro=Everything {} #LINK(GameIndex)(home)'.format(R), '']
        M += ['[MemoryMap:Custom]']
        if cfg['mapincl'] == 'includes':
            M += ['EntryTypes=', 'Includes={},{}'.format(E1, E2)]
        else:
            M += ['EntryTypes=cb']
        if cfg['mapdesc']:
            M.append('EntryDescriptions=1')
        if cfg['maplabel']:
            M.append('LabelColumn=1')
        M += ['Intro=Custom {}'.format(R), '']
        if cfg['mapwrite'] == 'noroutines':
            M += ['[MemoryMap:RoutinesMap]', 'Write=0', '']
        # EntryTypes must be repeated: a user-defined [MemoryMap:other-Index] section replaces the built-in
        # one, and by the documentation a memory map shows no entry types unless EntryTypes names them
        # omap='builtin': no such section, the index page of the secondary disassembly is the built-in memory map,
        # which lists every entry that has a page (each of those pages links up to its row on the index page)
        if cfg['omap'] == 'section':
            M += ['[MemoryMap:other-Index]', 'EntryTypes=bcgstuw', 'Intro=Other index {}'.format(self.R('other')), '']
        L += M
        L += ['[Index:MemoryMaps:Memory maps]', 'MemoryMap', 'RoutinesMap', 'DataMap', 'MessagesMap', 'UnusedMap', 'Custom', '']
        L += ['[Index:Reference:Reference]', 'Changelog', 'Glossary', 'Facts', 'Bugs', 'Pokes', 'P1', 'Box', '']
        if cfg['resources'] or cfg['logo'] == 'image':
            L.append('[Resources]')
            if cfg['resources']:
                L += ['pre.mp3={AudioPath}', 'alt.flac={AudioPath}', 'res/**/*.txt=txt']
                self.files['pre.mp3'] = b'ID3pre'
                self.files['alt.flac'] = b'fLaCalt'
                self.files['res/a/one.txt'] = 'one\n'
                self.files['res/two.txt'] = 'two\n'
            if cfg['logo'] == 'image':
                L.append('logo.png=.')
                self.files['logo.png'] = b'\x89PNG\r\n\x1a\nlogo'
            L.append('')
        self.files['main.ref'] = '\n'.join(L) + '\n'

    def _box_sections(self, prefix, R):
        kind = self.cfg['box']
        b1, b2 = self.B('b1'), self.B('title__two_')
        if kind == 'para':
            return ['[{}:b1:Title one]'.format(prefix), 'First paragraph {}.'.format(R), '', 'Second {} #UDG{}.'.format(b2, UDG_ADDR), '',
                    '[{}:Title (two)]'.format(prefix), 'Other entry {}.'.format(b1), '']
        if kind == 'list':
            return ['[{}:b1:Title one]'.format(prefix), 'Intro {}'.format(R), '', 'Item one {}'.format(R),
                    '  Subitem {}'.format(b2), 'Item two', '',
                    '[{}:Title (two)]'.format(prefix), '-', '', 'Only item {}'.format(b1), '']
        return ['[{}:b1:Title one]'.format(prefix), 'Intro {}'.format(R), '', '- Item one {}'.format(R),
                '  continued #UDG{}'.format(UDG_ADDR), '  - Subitem {}'.format(b2), '- Item two', '',
                '[{}:Title (two)]'.format(prefix), '-', '', '- Only item {}'.format(b1), '']

    # -- reference model: which pages exist and which anchors they carry
    def _model(self):
        cfg = self.cfg
        P = self.paths
        single = single_page(cfg)
        main_entries = [e for e in (self.e0, self.e1, self.e2, self.e3) if e and e[1][0][1] != 'i']
        e2 = self.e2
        if cfg['other'] == 'two':
            e2 = (E2, self.e2[1][:-1] + [(E2 + 26, ' ', 'CALL'), self.e2[1][-1]])
            main_entries = [e2 if e is self.e2 else e for e in main_entries]
        main_entries.sort()
        other_entries = [(OC, [(OC, 'c', ''), (OC + 3, '*', ''), (OC + 6, ' ', '')]),
                         (OC2, [(OC2, cfg['otype'], ''), (OC2 + 2, ' ', ''), (OC2 + 4, ' ', '')])]
        other_entries = [e for e in other_entries if e[1][0][1] != 'i']     # an 'i' entry has no page and no row
        aux_entries = [(AUX, [(AUX, 'c', ''), (AUX + 3, ' ', '')])]
        html = {}           # path -> (category, -w letter)
        ids = {}            # path -> {id: role}      ids that must occur exactly once
        A = lambda a: anchor_of(cfg, a)

        def fname(address):
            return P['CodeFiles'].format(address=address)

        owner = {}          # path -> id of the disassembly the page belongs to
        anchor_owner = {}   # address anchor -> ids of the disassemblies that have an instruction there

        def add(path, cat, letter, code='main'):
            path = posixpath.normpath(path)
            html[path] = (cat, letter)
            owner[path] = code
            ids.setdefault(path, {})
            return path

        def asm(entries, code_path, single_path, cat, letter, code='main'):
            for addr, ins in entries:
                if single:
                    page = add(single_path, cat + '1', letter, code)
                else:
                    page = add(posixpath.join(code_path, fname(addr)), cat, letter, code)
                for i, (a, ctl, _) in enumerate(ins):
                    role = 'entry' if i == 0 else ('entry_point' if ctl == '*' else 'instruction')
                    ids[page][A(a)] = role
                    anchor_owner.setdefault(A(a), set()).add(code)
                ids[page]['n{}'.format(addr)] = 'named'

        asm(main_entries, P['CodePath'], P['AsmSinglePage'], 'asm', 'd')
        asm(other_entries, P['other-CodePath'], P['other-AsmSinglePage'], 'oasm', 'o', 'other')
        if cfg['other'] == 'two':
            asm(aux_entries, P['aux2-CodePath'], P['aux2-AsmSinglePage'], 'oasm', 'o', 'aux2')
        types = {e[1][0][1]: 1 for e in main_entries}

        def mapp(page_id, members, cat='map', letter='m', code='main'):
            if members:
                page = add(P[page_id], cat, letter, code)
                for addr, ins in members:
                    ids[page][A(addr)] = 'map_entry'

        mapp('MemoryMap', main_entries)
        if cfg['mapwrite'] != 'noroutines':
            mapp('RoutinesMap', [e for e in main_entries if e[1][0][1] == 'c'])
        mapp('DataMap', [e for e in main_entries if e[1][0][1] in 'bw'])
        mapp('MessagesMap', [e for e in main_entries if e[1][0][1] == 't'])
        mapp('UnusedMap', [e for e in main_entries if e[1][0][1] in 'su'])
        mapp('GameStatusBuffer', [e for e in main_entries if e[1][0][1] == 'g'])
        if cfg['mapincl'] == 'includes':
            mapp('Custom', [e for e in main_entries if e[0] in (E1, E2)])
        else:
            mapp('Custom', [e for e in main_entries if e[1][0][1] in 'cb'])
        mapp('other-Index', other_entries, 'oindex', 'o', 'other')
        if cfg['other'] == 'two':
            mapp('aux2-Index', aux_entries, 'oindex', 'o', 'aux2')
        add(P['P1'], 'page', 'P')
        page = add(P['Box'], 'box', 'P')
        ids[page].update({'b1': 'box_entry', 'title__two_': 'box_entry'})
        if cfg['refpages']:
            page = add(P['Bugs'], 'box', 'P')
            ids[page].update({'b1': 'box_entry', 'bug_two': 'box_entry'})
            page = add(P['Facts'], 'box', 'P')
            ids[page].update({'f1': 'box_entry'})
            page = add(P['Changelog'], 'box', 'P')
            ids[page].update({'c1': 'box_entry'})
        add(P['GameIndex'], 'index', 'i')
        # an 'i' entry has no page: these are the places a link to it would point at
        self.ignored_targets = set()
        if self.e3 and self.e3[1][0][1] == 'i':
            if single:
                self.ignored_targets = {(posixpath.normpath(P['AsmSinglePage']), A(a)) for a, _, _ in self.e3[1]}
            else:
                page = posixpath.normpath(posixpath.join(P['CodePath'], fname(E3)))
                self.ignored_targets = {(page, '')} | {(page, A(a)) for a, _, _ in self.e3[1]}
        self.html = html
        self.ids = ids
        self.owner = owner
        self.anchor_owner = anchor_owner
        self.entry_anchors = {A(e[0]) for e in main_entries + other_entries + aux_entries}
        # entry type of each row of the index page of the secondary disassembly 'other'
        self.oindex_types = {A(e[0]): e[1][0][1] for e in other_entries}

    def args(self, outdir, w=W_FULL):
        cfg = self.cfg
        a = ['-q', '-d', outdir]
        for flag in ('a', 'C', 'o', 'O'):
            if cfg[flag]:
                a.append('-' + flag)
        if cfg['one']:
            a.append('-1')
        if cfg['base']:
            a.append(cfg['base'])
        if cfg['case']:
            a.append(cfg['case'])
        if cfg['theme']:
            a += ['-T', 'dark', '-T', 'wide']
        if cfg['joincss']:
            a += ['-j', 'all.css']
        if w != W_FULL:
            a += ['-w', w]
        a.append('main.skool')
        return a


# --------------------------------------------------------------------------- write log (harness-side wrappers)
_LOG = None
_installed = False


def _install_wrappers():
    """Log every path written by the file-writing seams of skool2html.  In the check process only."""
    global _installed
    if _installed:
        return
    import builtins
    from skoolkit import skoolhtml, skool2html

    orig_open_file = skoolhtml.FileInfo.open_file

    def open_file(self, *names, mode='w'):
        f = orig_open_file(self, *names, mode=mode)
        if _LOG is not None:
            _LOG.append(('open_file', os.path.abspath(f.name)))
        return f
    skoolhtml.FileInfo.open_file = open_file

    class _Shutil:
        def __getattr__(self, name):
            return getattr(shutil, name)

        @staticmethod
        def copy2(src, dst, *a, **kw):
            r = shutil.copy2(src, dst, *a, **kw)
            if _LOG is not None:
                _LOG.append(('copy', os.path.abspath(dst)))
            return r
    skool2html.shutil = _Shutil()

    def logging_open(path, mode='r', *a, **kw):
        f = builtins.open(path, mode, *a, **kw)
        if _LOG is not None and any(c in mode for c in 'wax+'):
            _LOG.append(('open', os.path.abspath(path)))
        return f
    skool2html.open = logging_open       # copy_resources' joined CSS file (-j)
    _installed = True


# --------------------------------------------------------------------------- HTML walker
VOID = {'meta', 'link', 'img', 'br', 'hr', 'input', 'source'}


class Walker(HTMLParser):
    def __init__(self):
        super().__init__(convert_charrefs=True)
        self.stack = []         # (tag, class)
        self.ids = []           # (id, context)
        self.refs = []          # (tag, attr, value, line)

    def _start(self, tag, attrs, push):
        d = dict(attrs)
        cls = d.get('class') or ''
        parent = self.stack[-1] if self.stack else ('', '')
        for key in ('id', 'name'):
            if key == 'name' and tag != 'a':
                continue
            v = d.get(key)
            if v is not None:
                self.ids.append((v, self._context(tag, cls, parent)))
        for attr in ('href', 'src'):
            v = d.get(attr)
            if v is not None:
                cell = ''
                for t, c in reversed(self.stack):
                    if t in ('td', 'th', 'li'):
                        cell = c
                        break
                self.refs.append((tag, attr, v, self.getpos()[0], cell))
        if push and tag not in VOID:
            self.stack.append((tag, cls))

    @staticmethod
    def _context(tag, cls, parent):
        ptag, pcls = parent
        if tag == 'div' and cls == 'description':
            return 'entry_div'
        if tag == 'span' and ptag == 'td':
            if pcls.startswith('address-'):
                return 'address_span'
            if pcls == 'routine-comment':
                return 'block_comment_span'
            if pcls.startswith('map-'):
                return 'map_span'
        if tag == 'span' and ptag == 'div' and not pcls:
            return 'box_span'
        return 'other'

    def handle_starttag(self, tag, attrs):
        self._start(tag, attrs, True)

    def handle_startendtag(self, tag, attrs):
        self._start(tag, attrs, False)

    def handle_endtag(self, tag):
        for i in range(len(self.stack) - 1, -1, -1):
            if self.stack[i][0] == tag:
                del self.stack[i:]
                break


def _is_external(url):
    u = url.lower()
    return '://' in u or u.startswith(('mailto:', 'javascript:', 'data:', '//'))


class Tree:
    """What one skool2html run wrote: the write log, the files on disk, the parsed pages."""

    def __init__(self, rc, exc, err, log, root):
        self.rc, self.exc, self.err = rc, exc, err
        self.root = root
        self.log = log
        self.logged = []        # relative paths in write order
        self.outside = []       # paths written outside the output directory
        for kind, path in log:
            rel = os.path.relpath(path, root)
            if rel.startswith('..'):
                self.outside.append(path)
            else:
                self.logged.append(rel.replace(os.sep, '/'))
        self.disk = []
        if os.path.isdir(root):
            for dp, dn, fn in os.walk(root):
                for f in fn:
                    self.disk.append(os.path.relpath(os.path.join(dp, f), root).replace(os.sep, '/'))
        self.disk.sort()
        self.pages = {}         # rel html path -> Walker
        for rel in self.disk:
            if rel.endswith(('.html', '.htm')):
                w = Walker()
                with open(os.path.join(root, rel), encoding='utf-8') as f:
                    w.feed(f.read())
                w.close()
                self.pages[rel] = w
        # digest of the whole tree (computed now: the directory is removed after the run)
        h = hashlib.sha256()
        for rel in self.disk:
            h.update(rel.encode() + b'\0')
            with open(os.path.join(root, rel), 'rb') as f:
                h.update(hashlib.sha256(f.read()).digest())
        h.update(repr((self.rc, sorted(self.logged))).encode())
        self._digest = h.hexdigest()

    def digest(self):
        return self._digest


_seq = [0]


def run_tree(case, w=W_FULL, keep=False):
    """Write the case files into a fresh directory, run skool2html.main, return the Tree."""
    global _LOG
    _install_wrappers()
    _seq[0] += 1
    base = os.path.join(tools.workdir(), 'c16-{}'.format(_seq[0]))
    src = os.path.join(base, 'src')
    out = os.path.join(base, 'out')
    os.makedirs(src)
    for name, data in case.files.items():
        path = os.path.join(src, name)
        os.makedirs(os.path.dirname(path), exist_ok=True)
        with open(path, 'wb' if isinstance(data, bytes) else 'w') as f:
            f.write(data)
    _LOG = []
    try:
        r = tools.run_tool('skool2html', case.args(out, w), cwd=src)
        log = _LOG
    finally:
        _LOG = None
    tree = Tree(r.rc, r.exc, r.err, log, os.path.join(out, 'main'))
    tree.stray = sorted(f for f in os.listdir(out) if f != 'main') if os.path.isdir(out) else []
    if not keep:
        shutil.rmtree(base, ignore_errors=True)
    else:
        tree.base = base
    return tree


# --------------------------------------------------------------------------- oracle
def check_tree(case, tree, w=W_FULL, full=None, counters=None):
    """Returns a list of (kind, cause, detail, tags).  `full` is the Tree of the same
    configuration written with the default -w (needed to judge links that leave the
    subset written by a -w run)."""
    cfg = case.cfg
    out = []
    mode = 'single_page' if single_page(cfg) else 'multi_page'
    base_tags = {'mode': mode, 'w': w, 'case': label_of(cfg)}

    def bad(kind, cause, detail, **tags):
        t = dict(base_tags)
        t.update(kind=kind, cause=cause)
        t.update(tags)
        out.append((kind, cause, detail, t))

    def count(name):
        if counters is not None:
            counters[name] += 1

    # vacuity guard of the dimension 'dirnames', taken from the model alone (so it does not depend on what the
    # implementation wrote): ordered pairs of documented pages (p, q) where the directory of p is a string prefix of
    # the path of q without being one of its ancestors
    for p in sorted(case.html):
        here = posixpath.dirname(p)
        if here and case.html[p][1] in w:
            for q in sorted(case.html):
                if q.startswith(here) and not q.startswith(here + '/'):
                    count('prefix_sibling_pages:{}>{}'.format(case.html[p][0], case.html[q][0]))

    if cfg['otype'] == 'i':
        count('other_entry_ignored')
    # vacuity guards of the dimensions 'remotes' x 'remoteplace' x targets, taken from the configuration
    mp = 'multi' if mode == 'multi_page' else 'single'
    if cfg['rtgt'] in ('remote', 'remote_ep'):
        count('R>remote:{}:{}'.format(remote_class(cfg, 3 if cfg['rtgt'] == 'remote_ep' else 0), mp))
    if cfg['tgt'] in ('remote', 'remote_ep', 'remote_undeclared'):
        count('operand>remote:{}'.format(remote_class(cfg, {'remote': 0, 'remote_ep': 3, 'remote_undeclared': 6}[cfg['tgt']])))
    if cfg['remoteplace'] != 'top':
        count('remote_in_routine:{}:{}'.format(cfg['remoteplace'], len(REMOTE_LISTS[cfg['remotes']])))
    if tree.rc:
        bad('tool_failed', str(tree.exc).split(':')[0], 'skool2html failed on documented input: {} {}'.format(tree.exc, tree.err.strip()[-300:]),
            box=cfg['box'], boxlink=cfg['boxlink'], error=str(tree.exc)[:120])
        return out
    for path in tree.outside:
        bad('write_outside', 'outside', 'file written outside the output directory: {}'.format(path))
    for s in tree.stray:
        bad('write_outside', 'stray', 'unexpected item next to the game directory: {}'.format(s))

    # -- no path written twice; everything on disk was logged (else the harness misses a writing seam)
    seen = {}
    for rel in tree.logged:
        seen[rel] = seen.get(rel, 0) + 1
    for rel, n in sorted(seen.items()):
        if n > 1:
            bad('path_written_twice', rel.rsplit('.', 1)[-1], '{} written {} times'.format(rel, n), path=rel)
    logged = set(seen)
    disk = set(tree.disk)
    for rel in sorted(disk - logged):
        bad('unlogged_file', 'harness', 'file {} exists but no wrapped seam wrote it'.format(rel))
    for rel in sorted(logged - disk):
        bad('logged_not_on_disk', 'removed', 'file {} was written but does not exist afterwards'.format(rel))

    # -- the documented page set
    want_html = {p for p, (cat, letter) in case.html.items() if letter in w}
    got_html = set(tree.pages)
    for p in sorted(want_html - got_html):
        bad('missing_page', case.html[p][0], 'page {} ({}) was not written'.format(p, case.html[p][0]), page=case.html[p][0])
    for p in sorted(got_html - want_html):
        bad('unexpected_page', case.html.get(p, ('unknown',))[0], 'page {} was written but is not part of the documented page set for -w {}'.format(p, w))

    # -- anchors: every id once; every modelled anchor exactly once
    page_ids = {}
    for p, wk in tree.pages.items():
        byid = {}
        for v, ctx in wk.ids:
            byid.setdefault(v, []).append(ctx)
        page_ids[p] = byid
        cat = case.html.get(p, ('unknown', ''))[0]
        model = case.ids.get(p, {})
        for v, ctxs in sorted(byid.items()):
            if len(ctxs) > 1:
                role = model.get(v, 'unmodelled')
                cause = '+'.join(sorted(set(ctxs)))
                bad('duplicate_id', cause, '{}: id "{}" ({}) occurs {} times: {}'.format(p, v, role, len(ctxs), ', '.join(ctxs)),
                    page=cat, role=role, entry_first_instruction=(role == 'entry' and 'address_span' in ctxs),
                    entry_div='entry_div' in ctxs, block_comment='block_comment_span' in ctxs, n=len(ctxs))
        for v, role in sorted(model.items()):
            if cat == 'oindex' and case.owner.get(p) == 'other' and role == 'map_entry':
                # vacuity guard of the dimensions 'otype' x 'omap', taken from the model (not from what was written)
                count('oindex_{}_row:{}'.format(cfg['omap'], case.oindex_types[v]))
            if v not in byid:
                bad('missing_anchor', role, '{}: no element with id "{}" ({})'.format(p, v, role), page=cat, role=role)
            else:
                count('anchor_' + role)

    # -- links
    def resolve(page, url):
        path, _, frag = url.partition('#')
        path = unquote(path.split('?')[0])
        if path:
            target = posixpath.normpath(posixpath.join(posixpath.dirname(page), path))
        else:
            target = page
        return target, unquote(frag), ('#' in url)

    def bad_fragment(p, line, attr, url, frag, target, pcat, tcat, cell, note):
        owners = case.anchor_owner.get(frag, ())
        bad('broken_fragment', '{}>{}'.format(pcat, tcat), '{}:{}: {}="{}": no id "{}" in {}{}'.format(p, line, attr, url, frag, target, note),
            page=pcat, target=tcat, same_page=(target == p), where='operand' if cell == 'instruction' else 'text',
            # the fragment is the address anchor of an instruction of another disassembly than the target page's
            fragment_of_other_disassembly=bool(owners) and case.owner.get(target) not in owners,
            anchor=cfg['anchor'], ignored_entry=(target, frag) in case.ignored_targets)

    for p in sorted(tree.pages):
        wk = tree.pages[p]
        pcat = case.html.get(p, ('unknown', ''))[0]
        for tag, attr, url, line, cell in wk.refs:
            if _is_external(url):
                count('external')
                continue
            what = '{}.{}'.format(tag, attr)
            if not url.strip():
                bad('empty_reference', what, '{}:{}: empty {} on <{}>'.format(p, line, attr, tag), page=pcat)
                continue
            if url.startswith('/'):
                bad('absolute_reference', what, '{}:{}: {}="{}" is not relative'.format(p, line, attr, url), page=pcat)
                continue
            target, frag, has_frag = resolve(p, url)
            if target.startswith('..'):
                bad('escapes_root', what, '{}:{}: {}="{}" leaves the disassembly root'.format(p, line, attr, url), page=pcat)
                continue
            tcat = case.html.get(target, (None,))[0]
            is_page = target.endswith(('.html', '.htm'))
            if target in disk and target in logged:
                here = posixpath.dirname(p)
                if here and target.startswith(here) and not target.startswith(here + '/'):
                    # the directory of the linking page is a string prefix of the target path without being
                    # one of its ancestors
                    count('prefix_sibling:{}>{}'.format(pcat, tcat if is_page else what))
                ids_here = page_ids.get(target)
                if has_frag:
                    if ids_here is None:
                        bad('fragment_on_asset', what, '{}:{}: {}="{}": fragment on a non-HTML file'.format(p, line, attr, url), page=pcat)
                    elif frag not in ids_here:
                        bad_fragment(p, line, attr, url, frag, target, pcat, tcat, cell, '')
                    else:
                        count('{}>{}#'.format(pcat, tcat) if target != p else '{}>self#'.format(pcat))
                else:
                    count('{}>{}'.format(pcat, tcat if is_page else what))
                continue
            # the file does not exist / was not written by this run
            if w != W_FULL and is_page and pcat != 'index' and full is not None and target in full.pages \
                    and case.html.get(target, ('', ''))[1] not in w:
                # by design a -w run writes only the chosen page kinds; links into the kinds left out must
                # resolve in the complete tree of the same configuration
                if has_frag and frag not in {v for v, _ in full.pages[target].ids}:
                    bad_fragment(p, line, attr, url, frag, target, pcat, tcat, cell, ' (complete tree of the same configuration)')
                else:
                    count('to_page_excluded_by_w')
                continue
            bad('broken_link', '{}>{}'.format(pcat, tcat or ('page' if is_page else what)),
                '{}:{}: <{} {}="{}"> names {} which was not written'.format(p, line, tag, attr, url, target), page=pcat, target=tcat, ref=what,
                ignored_entry=(target, frag) in case.ignored_targets or (target, '') in case.ignored_targets,
                where='operand' if cell == 'instruction' else 'text')
    return out


def evaluate(cfg, subsets=None, counters=None, want_digest=False):
    """Run one work item.  Returns (list of (w, violations), number of tool runs, digest of the full tree)."""
    case = Case(cfg)
    results = []
    full = run_tree(case)
    runs = 1
    if subsets is None:
        results.append((W_FULL, check_tree(case, full, counters=counters)))
    elif full.rc:
        # the complete tree could not be written (reported by the work item of the same configuration
        # without -w): there is nothing to judge the subsets against
        if counters is not None:
            counters['w_subsets_skipped_complete_tree_failed'] += len(subsets)
    else:
        for w in subsets:
            t = run_tree(case, w)
            runs += 1
            results.append((w, check_tree(case, t, w, full, counters=counters)))
    return results, runs, (full.digest() if want_digest else None), full


# --------------------------------------------------------------------------- driver
FRESH_EVERY = 61        # every 61st full-tree case is re-run in a fresh process and the trees compared


def _fresh_digest(cfg):
    p = subprocess.run([sys.executable, '-m', 'mc.props.c16', '--digest', json.dumps(cfg)], capture_output=True, text=True,
                       cwd=core.VERIF, timeout=600)
    lines = p.stdout.strip().splitlines()
    if p.returncode or not lines:
        raise RuntimeError('fresh-process run failed: rc={} {}'.format(p.returncode, p.stderr[-800:]))
    return lines[-1]


def _shard(shard, nshards, tier, seed):
    from collections import Counter
    stats = core.Stats(PROPERTY)
    items = work_items(tier)
    for wi, (cfg, subsets) in core.shard_iter(items, shard, nshards):
        counters = Counter()
        check_fresh = subsets is None and wi % FRESH_EVERY == (seed % FRESH_EVERY)
        results, runs, digest, full = evaluate(cfg, subsets, counters, want_digest=check_fresh)
        stats.transitions += runs
        stats.counters.update(counters)
        lab = label_of(cfg)
        if check_fresh:
            stats.counters['fresh_process_comparisons'] += 1
            fd = _fresh_digest(cfg)
            if fd != digest:
                raise RuntimeError('output tree of case {} depends on the process history (in-process digest {} / fresh process {})'.format(lab, digest, fd))
        for w, vios in results:
            stats.evaluations += 1
            stats.traces += 1
            stats.counters['trees'] += 1
            if w != W_FULL:
                stats.counters['w_subset_trees'] += 1
            if lab != 'default' or w != W_FULL:
                stats.nontriv((lab, w))
            grouped = {}
            for kind, cause, detail, tags in vios:
                grouped.setdefault((kind, cause), []).append((detail, tags))
            for (kind, cause), lst in sorted(grouped.items()):
                detail, tags = lst[0]
                if len(lst) > 1:
                    detail += ' (+{} more of this kind)'.format(len(lst) - 1)
                stats.violation('{}/w={}/{}/{}'.format(lab, w, kind, cause), {'cfg': cfg, 'w': w, 'kind': kind, 'cause': cause},
                                detail, tags=tags, order=wi)
        if subsets is None:
            stats.state((tuple(sorted(full.disk)), tuple(sorted((p, tuple(sorted(set(r[2] for r in wk.refs)))) for p, wk in full.pages.items()))))
            stats.counters['pages'] += len(full.pages)
            stats.counters['references'] += sum(len(wk.refs) for wk in full.pages.values())
            if wi % 97 == 0:
                stats.sample({'case': lab, 'args': Case(cfg).args('<out>'), 'files_written': len(full.disk), 'pages': len(full.pages),
                              'references_followed': sum(len(wk.refs) for wk in full.pages.values())})
    return stats


REQUIRED = [
    'trees', 'w_subset_trees', 'to_page_excluded_by_w', 'fresh_process_comparisons', 'external',
    'anchor_entry', 'anchor_entry_point', 'anchor_instruction', 'anchor_map_entry', 'anchor_box_entry', 'anchor_named',
    'asm>asm', 'asm>asm#', 'asm>self#', 'asm>map#', 'asm>oasm', 'asm>oasm#', 'asm>index', 'asm>page', 'asm>box#', 'asm>oindex',
    'asm>img.src', 'asm>audio.src', 'asm>link.href',
    'asm1>self#', 'asm1>oasm1#', 'asm1>map#', 'oasm1>asm1#',
    'oasm>asm', 'oasm>asm#', 'oasm>oasm', 'oasm>oindex#', 'oasm>img.src', 'oindex>oasm', 'oindex>asm',
    'map>asm', 'map>asm1#', 'map>index', 'index>map', 'index>oindex', 'index>page', 'index>box',
    'page>asm', 'page>asm#', 'page>map#', 'page>box#', 'page>img.src', 'page>audio.src', 'page>script.src',
    'box>self#', 'box>asm', 'box>box#', 'box>img.src',
    'oindex>asm1#', 'oindex>oasm1#', 'page>oasm#', 'map>oasm#', 'asm1>oindex#', 'index>img.src', 'index>script.src', 'oasm>script.src',
    # documented page pairs whose first member's directory is a string prefix, but not an ancestor, of the second's path
    # (the counters prefix_sibling:* in the evidence are the references between such pairs that were found to resolve)
    'prefix_sibling_pages:asm>map', 'prefix_sibling_pages:asm>oasm', 'prefix_sibling_pages:asm>page', 'prefix_sibling_pages:asm>box',
    'prefix_sibling_pages:asm>index', 'prefix_sibling_pages:asm>oindex', 'prefix_sibling_pages:map>asm', 'prefix_sibling_pages:map>index',
    'prefix_sibling_pages:oasm>asm', 'prefix_sibling_pages:oasm>oasm', 'prefix_sibling_pages:oasm>map', 'prefix_sibling_pages:oindex>asm',
    'prefix_sibling_pages:box>asm', 'prefix_sibling_pages:map>asm1', 'prefix_sibling_pages:oasm1>asm1',
    # rows of the secondary disassembly's index page that the model requires, by entry type, with the user-defined
    # [MemoryMap:other-Index] section and with the built-in memory map
    'oindex_section_row:b', 'oindex_section_row:c', 'oindex_section_row:g', 'oindex_section_row:s', 'oindex_section_row:t',
    'oindex_section_row:u', 'oindex_section_row:w',
    'oindex_builtin_row:b', 'oindex_builtin_row:c', 'oindex_builtin_row:g', 'oindex_builtin_row:s', 'oindex_builtin_row:t',
    'oindex_builtin_row:u', 'oindex_builtin_row:w', 'other_entry_ignored',
    # #R / operands aimed at the remote routine, by the way the @remote directives of main.skool declare the target
    'R>remote:entry:multi', 'R>remote:entry_repeated:multi', 'R>remote:single:multi', 'R>remote:first_only:multi',
    'R>remote:second_only:multi', 'R>remote:both:multi', 'R>remote:single:single',
    'operand>remote:entry', 'operand>remote:entry_repeated', 'operand>remote:single', 'operand>remote:first_only',
    'operand>remote:second_only', 'operand>remote:both', 'operand>remote:undeclared',
    'remote_in_routine:split:1', 'remote_in_routine:split:2', 'remote_in_routine:same:1', 'remote_in_routine:same:2',
]


def run(tier, seed):
    stats = core.run_shards(_shard, tier, seed, prop=PROPERTY)
    d_all, d_core, core_dims, d_w = bounds(tier)
    nalt = sum(len(v) for v in ALTS.values())
    core_txt = '' if d_core <= d_all else '; <= {} over the {} link-forming core dimensions ({})'.format(d_core, len(core_dims), ','.join(core_dims))
    meta = dict(
        rule='cases = deviations from the default (skool shape x ref file x options) configuration: <= {} over all {} dimensions '
             '({} alternative values){}; -w is one more dimension: all 31 proper subsets of dimoP for every configuration with <= {} other '
             'deviations, each judged against the complete tree of the same configuration; every case = one skool2html.main tree (main + '
             'secondary disassemblies, 14-25 pages, 150-250 references) walked completely; the dimension dirnames names the {} top-level '
             'directories/root files of the tree ([Paths]: {}) so that each name is a proper string prefix of the next one without any '
             'directory containing another, in both orders (chain, chain_rev: every ordered pair (directory of the linking page, target '
             'path) occurs with the first a string prefix of the second) and the same below a common parent directory (nested, '
             'nested_rev); the secondary disassembly has a routine with an entry point and a second entry of every type (otype: '
             'w,b,c,g,s,t,u,i) and its index page is either a user-defined [MemoryMap:other-Index] section (EntryTypes=bcgstuw, Intro) '
             'or the built-in memory map (omap); the routine of the secondary disassembly that main.skool refers to is declared by one '
             '@remote directive or by two that name it with entry point lists A|B, B|A, A|A,B or A|A (remotes; A is the #R/operand target '
             'remote_ep, B the operand target remote_undeclared, so each is listed by the first only, the second only, both or none), placed '
             'at the top of the file, one in each of two routines or both in one routine (remoteplace); non-trivial = any deviation from the default; '
             'states = distinct (file set, per-page reference set) outcomes'.format(d_all, len(DEFAULT), nalt, core_txt, d_w, len(SLOTS),
                                                                                  ','.join(s for s, _ in SLOTS)),
        exhaustive=True,
        bound='deviations d <= {} over all dimensions{}; all 31 -w subsets for every configuration with <= {} other deviations'.format(
            d_all, core_txt, d_w),
        assumptions=[
            '#R is aimed only at instruction addresses (an address that is not an instruction is the documented error "Address not found"); '
            'operands may address anything',
            '#R addr@code for another disassembly is aimed only at entry addresses or at addresses declared by @remote (for an undeclared '
            'non-entry address skoolkit cannot know the containing page; the documentation requires a remote entry)',
            'named anchors (#R addr#name, #LINK(Page#name)) name items that the generated input defines; a numeric #name that is not the '
            'entry address is a literal user anchor and is not generated',
            'relative jumps (JR/DJNZ) are generated only towards targets in range',
            '#LINK is aimed only at pages that are written for every configuration (a page id of a memory map without entries is the '
            'documented error "Unknown page ID")',
            '-w subsets: a run writes only the chosen kinds of page by design, so a link from a written page to a page of a kind left out is '
            'accepted iff it resolves (file and fragment) in the complete tree of the same configuration; links on the index page and all '
            'src/stylesheet/script references are always strict',
            'the instructions of the secondary disassembly are the same statements under every entry type (otype); #R is not aimed at its '
            "second entry when that is an 'i' entry (#R to an ignored entry is explored with the main disassembly, rtgt=e3)",
            'address values, entry sizes and the number of entries are fixed by the grammar (E0 7/8, E1 32768, E2 32800, E3 33000, other '
            'code 49152/49200/50000)',
        ],
        required_guards=REQUIRED,
        extra={'dimensions': {k: [DEFAULT[k]] + list(ALTS[k]) for k in DEFAULT}, 'w_subsets': w_subsets(),
               'fresh_process_rule': 'every {}th full-tree case is regenerated in a fresh interpreter and the SHA-256 of the whole '
                                     'output tree compared (guards against state leaking between in-process skool2html.main calls)'.format(FRESH_EVERY)},
    )
    return stats, meta


def replay(case):
    cfg = dict(DEFAULT)
    cfg.update(case['cfg'])
    w = case.get('w', W_FULL)
    results, runs, _, _ = evaluate(cfg, None if w == W_FULL else [w])
    out = []
    for w_, vios in results:
        for kind, cause, detail, tags in vios:
            if case.get('kind') and (kind, cause) != (case['kind'], case.get('cause')):
                continue
            out.append('{}/{}: {}'.format(kind, cause, detail))
    return out


if __name__ == '__main__':
    # fresh-process helper:  python -m mc.props.c16 --digest '<cfg json>'
    from mc import skbuild
    skbuild.bind(False)
    if sys.argv[1] == '--digest':
        c = dict(DEFAULT)
        c.update(json.loads(sys.argv[2]))
        print(run_tree(Case(c)).digest())
    elif sys.argv[1] == '--show':
        c = dict(DEFAULT)
        c.update(json.loads(sys.argv[2]))
        w = sys.argv[3] if len(sys.argv) > 3 else W_FULL
        cs = Case(c)
        t = run_tree(cs, w, keep=True)
        print(t.base, t.rc, t.exc, t.err)
        full = run_tree(cs) if w != W_FULL else None
        for v in check_tree(cs, t, w, full):
            print(v[0], v[1], v[2])
