"""C09 - snapshot files round-trip: what is written is what is read back.

Bounded-exhaustive exploration of the real writers/readers (`write_snapshot`,
`Snapshot.get`, `Z80._make_z80_ram_block`/`_decompress`, `bin2sna.main`, `snapmod.main`)
against (a) the round-trip identity, (b) the independent decoders in mc/refs/snapfmt.py
and (c) a small reference of the documented option semantics.

Parts (every one a complete enumeration of a stated finite space, simplest first):

  rle      every byte string over {ED,00,01} of length 1..9 (quick) / 1..10 (thorough),
           both block forms (v1 block + end marker, paged block) at method level
  embed    every such string of length 1..6 / 1..7 embedded in a 48K image at the start
           and end of a 16K page and after 254-byte runs of each alphabet byte, through
           real files: Z80 v3 (write_snapshot), Z80 v1 and v2 (snapmod rewriting an
           uncompressed file), SZX
  edrun    a run of ED of every length 1..600 (mid-page, page start, page end,
           straddling a page boundary), same four file forms
  run      runs of byte value v of length n in {1,2,4,5,254,255,256,510,511}, bare and
           preceded and/or followed by ED, mid-page and at page edges
  image    whole-memory fills (zero, ED, FF, multiplicative, counting, per-bank constant,
           ED 00 pairs, ED ED x triples, runs of 4/5/255/256, LCG noise) x {48K,128K,+2}
           through every file form incl. uncompressed Z80 v3 / SZX input rewritten by snapmod
  state    registers / hardware state: all deviations d<=2 from a base state over the
           boundary sets below x {48K,128K,+2} x {.z80,.szx}; in the thorough tier every
           T-state value of both frame lengths
  snapmod  every single option and every ordered pair of options from the option
           alphabet (--reg/--state/--poke/--move/--patch) x input kinds; as single options
           on 128K inputs also the complete RAM bank dimension: --poke and --patch in every
           bank 0..7, --move for every source bank 0..7 x destination bank {omitted, 0..7}
           and (snapmod and bin2sna) the complete product of --poke range specs: span 0..5 x
           step {omitted,1..4} x {set,^,+} x anchors at RAM start / paged-bank boundary /
           memory end and, bank-prefixed, bank start / mid-bank / bank end (poke_letters)
           and (snapmod) the --patch file length x start address product: lengths on both
           sides of 16K / 32K / 48K x starts {16384, mid-RAM, ending one short of / exactly at
           65535}; bank-prefixed: lengths up to the bank size x offsets likewise (patch_letters)
  bin2sna  the same for --reg/--state/--poke (and -b/-p/-s) x {48K, --page, 128K file}
           x {.z80,.szx}, as a differential against the option-less run
"""
import itertools
import os
import re
import zlib

from .. import core, tools
from ..refs import snapfmt

PROPERTY = 'C09'
NEEDS_C = False

ED = 0xED
ALPHA = (0xED, 0x00, 0x01)
PAGE = 0x4000
RUN_LENGTHS = (1, 2, 4, 5, 254, 255, 256, 510, 511)
RUN_VALUES_QUICK = (0x00, 0x01, 0x7F, 0x80, 0xEC, 0xEE, 0xFF)

# ------------------------------------------------------------------------ abstract state
REG_SPECS = (('a', 'a'), ('f', 'f'), ('bc', 'bc'), ('de', 'de'), ('hl', 'hl'), ('a2', '^a'), ('f2', '^f'),
             ('bc2', '^bc'), ('de2', '^de'), ('hl2', '^hl'), ('ix', 'ix'), ('iy', 'iy'), ('sp', 'sp'),
             ('pc', 'pc'), ('i', 'i'), ('r', 'r'), ('memptr', 'memptr'))
REG8 = ('a', 'f', 'a2', 'f2', 'i', 'r')
REG16 = ('bc', 'de', 'hl', 'bc2', 'de2', 'hl2', 'ix', 'iy', 'sp', 'pc')
BASES = (
    dict(a=0x11, f=0x22, bc=0x3344, de=0x5566, hl=0x7788, a2=0x99, f2=0xAA, bc2=0xBBCC, de2=0xDDEE, hl2=0xF00F,
         ix=0x1234, iy=0x5678, sp=0x9ABC, pc=0xDEF0, i=0x3E, r=0x5B, memptr=0x2468,
         border=3, iff=0, im=2, issue2=0, tstates=12345, out7ffd=0x14, outfffd=7, outfe=0x0A),
    dict(a=0xED, f=0x01, bc=0xED00, de=0x00ED, hl=0x8001, a2=0x7E, f2=0x81, bc2=0x0102, de2=0xFEFD, hl2=0x4000,
         ix=0xC001, iy=0x3FFF, sp=0x5C00, pc=0x8000, i=0xFE, r=0xDB, memptr=0xFEDC,
         border=5, iff=1, im=0, issue2=0, tstates=40000, out7ffd=0x09, outfffd=14, outfe=0x15),
    dict(a=0x80, f=0x7F, bc=0x1357, de=0x2468, hl=0xACE0, a2=0x0F, f2=0xF0, bc2=0x9753, de2=0x8642, hl2=0x0ECA,
         ix=0x55AA, iy=0xAA55, sp=0xFF00, pc=0x00FF, i=0x01, r=0x80, memptr=0x0180,
         border=6, iff=0, im=1, issue2=0, tstates=69000, out7ffd=0x36, outfffd=2, outfe=0x1E),
)
FRAME = {'48K': 69888, '128K': 70908, '+2': 70908}
MACHINES = ('48K', '128K', '+2')


def base_state(seed):
    b = dict(BASES[seed % len(BASES)])
    for n in range(16):
        b['ay[%d]' % n] = (0x20 + 7 * n + 31 * seed) & 255
    return b


def tstate_boundaries(fd):
    q = fd // 4
    t = {0, 1, 2, fd - 1, fd - 2, fd - 3, 34943, 255, 256, 65535, 65536}
    for k in (1, 2, 3):
        t.update(k * q + d for d in (-2, -1, 0, 1, 2))
    return sorted(t)


def state_dims(machine):
    """dimension name -> boundary values (the base value is removed by the caller)."""
    d = {}
    for n in REG8:
        d[n] = [0, 1, 0x7F, 0x80, 0xFF]
    for n in REG16:
        d[n] = [0, 1, 0xFF, 0x100, 0x7FFF, 0x8000, 0xFFFF]
    d['memptr'] = [0, 1, 0xFFFF]
    d['border'] = list(range(8))
    d['iff'] = [0, 1]
    d['im'] = [0, 1, 2]
    d['tstates'] = tstate_boundaries(FRAME[machine])
    d['outfe'] = [0, 1, 7, 0x10, 0x18, 0xFF]
    if machine == '48K':
        d['issue2'] = [0, 1]
    else:
        d['out7ffd'] = [0, 1, 2, 5, 7, 8, 0x10, 0x1F, 0x20, 0xFF]
        d['outfffd'] = [0, 1, 15, 255]
        for n in range(16):
            d['ay[%d]' % n] = [0, 0xFF]
    return d


REG_DIMS = set(REG8 + REG16 + ('memptr',))


def state_cases(tier, seed):
    """Deviation sets (dicts) per machine, simplest first, without duplicates."""
    quick = tier == 'quick'
    base = base_state(seed)
    for d in (0, 1, 2):
        for mi, machine in enumerate(MACHINES):
            dims = state_dims(machine)
            alts = {n: [v for v in vals if v != base[n]] for n, vals in dims.items()}
            names = list(dims)
            if d == 0:
                yield machine, {}
                continue
            if d == 1:
                for n in names:
                    for v in alts[n]:
                        yield machine, {n: v}
                continue
            for n1, n2 in itertools.combinations(names, 2):
                if quick:
                    r1, r2 = n1 in REG_DIMS, n2 in REG_DIMS
                    if r1 and r2:
                        # register pairs: on the machine the seed selects
                        if mi != seed % 3:
                            continue
                    elif r1 != r2:
                        # register x state: only R (it shares byte 12 of the Z80 header
                        # with the border and the compression flag) and F/A/I
                        if (n1 if r1 else n2) not in ('r', 'a', 'i'):
                            continue
                for v1 in alts[n1]:
                    for v2 in alts[n2]:
                        yield machine, {n1: v1, n2: v2}
    if not quick:
        for machine in ('48K', '128K'):
            for t in range(FRAME[machine]):
                yield machine, {'tstates': t}


# ------------------------------------------------------------------------ RAM images
def _bg_values(seed, avoid):
    pools = ((2, 3, 4, 5, 6, 7, 8, 9, 10), (0x80, 0x81, 0x7F, 0xFE, 0xFF, 0x40, 0x20, 0x10, 0x08),
             (0xEC, 0xEE, 0xDD, 0xFD, 0xCB, 0xEB, 0xEF, 0xE0, 0x0D))
    vals = [v for v in pools[seed % 3] if v not in avoid][:5]
    return vals


def background(n, seed, avoid):
    """n bytes without two equal neighbours, without ED and without the bytes in `avoid`."""
    vals = _bg_values(seed, set(avoid) | {ED})
    k = len(vals)
    return bytearray(vals[i % k] for i in range(n))


def _put(img, off, data):
    img[off:off + len(data)] = bytes(data)
    return off + len(data)


def embed_image(s, seed):
    s = bytes(s)
    img = background(3 * PAGE, seed, s)
    L = len(s)
    # page 0: the string at the very start and the very end of the page
    _put(img, 0, s)
    _put(img, PAGE - L, s)
    # page 1: after a 254-byte run of its own first byte from the page start, after
    # 254-byte runs of each alphabet byte mid-page, and ending exactly at the page end
    _put(img, PAGE, bytes((s[0],)) * 254 + s)
    off = PAGE + 300
    for b in ALPHA:
        off = _put(img, off + 9, bytes((b,)) * 254 + s)
    _put(img, 2 * PAGE - 254 - L, bytes((s[0],)) * 254 + s)
    # page 2: start of page, end of the whole 48K block (v1: right before the end marker)
    _put(img, 2 * PAGE, s)
    _put(img, 3 * PAGE - L, s)
    return bytes(img)


def edrun_image(n, seed):
    img = background(3 * PAGE, seed, ())
    run = bytes((ED,)) * n
    _put(img, 100, run)                         # mid-page between literals
    _put(img, PAGE - n // 2, run)               # straddling the page 0 / page 1 boundary
    _put(img, 2 * PAGE - 3000, run)             # mid-page
    _put(img, 2 * PAGE, run)                    # start of page 2
    _put(img, 3 * PAGE - n, run)                # end of page 2 / end of the block
    return bytes(img)


def run_image(v, n, seed):
    img = background(3 * PAGE, seed, (v,))
    run = bytes((v,)) * n
    e = bytes((ED,))
    off = 50
    for layout in (run, e + run, run + e, e + run + e, e + e + run, run + e + e):
        off = _put(img, off + 11, layout)
    _put(img, PAGE, run + e)                    # page start
    _put(img, 2 * PAGE - n - 1, e + run)        # page end
    _put(img, 2 * PAGE, e + run)                # page start
    _put(img, 3 * PAGE - n - 1, run + e)        # page end / block end
    return bytes(img)


FILLS = ('zero', 'ed', 'ff', 'mul', 'count', 'bankid', 'ed00', 'edpairs', 'runs255', 'runs256', 'runs5', 'runs4', 'lcg')


def fill_image(fill, n, seed):
    """Whole-memory fills (fixed formulas of the address; the seed changes constants only)."""
    k = (37, 171, 93)[seed % 3]
    if fill == 'zero':
        return bytes(n)
    if fill == 'ed':
        return bytes((ED,)) * n
    if fill == 'ff':
        return b'\xff' * n
    if fill == 'mul':
        return bytes((a * k + 11) & 255 for a in range(n))
    if fill == 'count':
        return bytes((a + seed) & 255 for a in range(n))
    if fill == 'bankid':
        return bytes(((a // PAGE) * 17 + seed + 1) & 255 for a in range(n))
    if fill == 'ed00':
        return bytes((ED, seed & 255)) * (n // 2)
    if fill == 'edpairs':
        return bytes((ED, ED, (a // 3 + seed) & 1) [a % 3] for a in range(n))
    if fill in ('runs255', 'runs256', 'runs5', 'runs4'):
        L = int(fill[4:])
        return bytes(((a // L) * k + seed) & 255 for a in range(n))
    if fill == 'lcg':
        out = bytearray(n)
        x = 12345 + seed
        for a in range(n):
            x = (x * 1103515245 + 12345) & 0x7FFFFFFF
            out[a] = (x >> 16) & 255
        return bytes(out)
    raise ValueError(fill)


def state_ram(machine, seed):
    """Sparse RAM whose every bank is distinguishable."""
    def bank(b):
        a = bytearray(PAGE)
        for k in range(24):
            a[k] = (k * 29 + b * 53 + 7 + seed * 101) & 255
            a[PAGE - 1 - k] = (k * 31 + b * 59 + 3 + seed * 103) & 255
        a[0x1234 + b] = 0xED
        return a
    if machine == '48K':
        return {5: bytes(bank(5)), 2: bytes(bank(2)), 0: bytes(bank(0))}
    return {b: bytes(bank(b)) for b in range(8)}


def tool_ram(is128, seed):
    """Semi-dense RAM: formula-filled windows around every address the option alphabet
    touches, zero elsewhere (keeps each tool run cheap)."""
    def bank(b):
        a = bytearray(PAGE)
        for lo, hi in ((0, 96), (0x1C00, 0x1C80), (PAGE - 96, PAGE)):
            for k in range(lo, hi):
                a[k] = (k * 37 + b * 61 + 11 + seed * 97) & 255
        return a
    want = range(8) if is128 else (5, 2, 0)
    return {b: bytes(bank(b)) for b in want}


def banks_to_ram(banks):
    if len(banks) == 8:
        return [list(banks[b]) for b in range(8)]
    return list(banks[5]) + list(banks[2]) + list(banks[0])


# ------------------------------------------------------------------------ option reference
def num(text):
    text = text.strip()
    if text.lower().startswith('0x'):
        return int(text[2:], 16)
    return int(text)


_HALVES = {'b': ('bc', 1), 'c': ('bc', 0), 'd': ('de', 1), 'e': ('de', 0), 'h': ('hl', 1), 'l': ('hl', 0)}


class Model:
    """The machine state a snapshot holds, with the documented option semantics."""

    def __init__(self, fields, banks, is128):
        self.f = dict(fields)
        self.banks = {b: bytearray(v) for b, v in banks.items()}
        self.is128 = is128
        self.notes = set()

    def clone(self):
        m = Model(self.f, self.banks, self.is128)
        return m

    # --reg name=value
    def reg(self, spec):
        name, _, val = spec.partition('=')
        name = name.lower()
        v = num(val)
        shadow = name.startswith('^')
        n = name[1:] if shadow else name
        sfx = '2' if shadow else ''
        if n in ('a', 'f'):
            self.f[n + sfx] = v & 255
        elif n in _HALVES:
            pair, hi = _HALVES[n]
            old = self.f[pair + sfx]
            self.f[pair + sfx] = (old & 0x00FF) | ((v & 255) << 8) if hi else (old & 0xFF00) | (v & 255)
        elif n in ('bc', 'de', 'hl'):
            self.f[n + sfx] = v & 0xFFFF
        elif n in ('ix', 'iy', 'sp', 'pc', 'memptr') and not shadow:
            self.f[n] = v & 0xFFFF
        elif n in ('i', 'r') and not shadow:
            self.f[n] = v & 255
        else:
            raise ValueError('reference: unknown register ' + spec)

    # --state name=value
    def state(self, spec):
        name, _, val = spec.partition('=')
        name = name.lower()
        v = num(val)
        if name == 'border':
            self.f['border'] = v
        elif name == 'iff':
            self.f['iff1'] = self.f['iff2'] = v
        elif name in ('im', 'issue2', 'tstates'):
            self.f[name] = v
        elif name == '7ffd':
            self.f['out7ffd'] = v
        elif name == 'fffd':
            self.f['outfffd'] = v
        elif name == 'fe':
            self.f['outfe'] = v
        elif name.startswith('ay['):
            ay = list(self.f['ay'])
            ay[num(name[3:-1])] = v
            self.f['ay'] = tuple(ay)
        else:
            raise ValueError('reference: unknown state attribute ' + spec)

    # memory
    def _cell(self, page, addr):
        """(bank, offset) of an address; None for ROM."""
        if page is not None:
            return page, addr % PAGE
        slot = addr // PAGE
        if slot == 0:
            return None
        if slot == 1:
            return 5, addr % PAGE
        if slot == 2:
            return 2, addr % PAGE
        return (self.f['out7ffd'] & 7 if self.is128 else 0), addr % PAGE

    @staticmethod
    def _page(text):
        if ':' in text:
            p, text = text.split(':', 1)
            return int(p), text
        return None, text

    # --poke [p:]a[-b[-c]],[^+]v
    def poke(self, spec):
        addr, val = spec.split(',', 1)
        page, addr = self._page(addr)
        op = 'set'
        if val[0] in '^+':
            op = {'^': 'xor', '+': 'add'}[val[0]]
            val = val[1:]
        v = num(val)
        parts = [num(p) for p in addr.split('-')]
        a = parts[0]
        b = parts[1] if len(parts) > 1 else a
        c = parts[2] if len(parts) > 2 else 1
        self.notes.add('poke_' + op)
        if len(parts) > 2:
            self.notes.add('poke_step')
        if page is not None:
            self.notes.add('poke_page')
        if c > 1:
            pfx = 'poke_step' if page is None else 'poke_page_step'
            self.notes.add(pfx + ('_divides_span' if (b - a) % c == 0 else '_not_dividing_span'))
            if b - a < c:
                self.notes.add(pfx + '_over_span')
        if len(parts) > 1 and (b % PAGE == PAGE - 1 if page is not None else b == 65535):
            self.notes.add('poke_range_to_bank_end' if page is not None else 'poke_range_to_memory_end')
        n = a
        while n <= b:
            cell = self._cell(page, n)
            if cell is None:
                self.notes.add('poke_rom')
            else:
                bank = self.banks[cell[0]]
                old = bank[cell[1]]
                bank[cell[1]] = v if op == 'set' else (old ^ v if op == 'xor' else (old + v) & 255)
            n += c

    # --move [s:]src,size,[d:]dest
    def move(self, spec):
        src, size, dest = spec.split(',')
        sp, src = self._page(src)
        dp, dest = self._page(dest)
        explicit = dp is not None
        if dp is None:
            dp = sp
        src, size, dest = num(src), num(size), num(dest)
        if sp is not None:
            self.notes.add('move_page')
            self.notes.add('move_dest_bank_explicit' if explicit else 'move_dest_bank_omitted')
            if sp != dp:
                self.notes.add('move_cross_bank')
        if abs(src - dest) < size and sp == dp:
            self.notes.add('move_overlap')
        data = []
        for k in range(size):
            cell = self._cell(sp, src + k)
            data.append(0 if cell is None else self.banks[cell[0]][cell[1]])
        for k in range(size):
            cell = self._cell(dp, dest + k)
            if cell is not None:
                self.banks[cell[0]][cell[1]] = data[k]

    # --patch [p:]a,file
    def patch(self, spec, data):
        addr, _ = spec.split(',', 1)
        page, addr = self._page(addr)
        addr = num(addr)
        if page is not None:
            self.notes.add('patch_page')
            if len(data) > 5 and addr % PAGE + len(data) == PAGE:
                self.notes.add('patch_page_to_bank_end')
            if len(data) == PAGE:
                self.notes.add('patch_page_whole_bank')
        else:
            if len(data) > PAGE:
                self.notes.add('patch_longer_than_16k')
            if len(data) > 2 * PAGE:
                self.notes.add('patch_longer_than_32k')
            if len(data) == 3 * PAGE:
                self.notes.add('patch_whole_ram')
            if len(data) > 5 and addr + len(data) == 65536:
                self.notes.add('patch_to_memory_end')
        for k, v in enumerate(data):
            cell = self._cell(page, addr + k)
            if cell is not None:
                self.banks[cell[0]][cell[1]] = v

    def apply(self, letter, patch_data):
        kind, val = letter
        if kind == 'reg':
            self.reg(val)
        elif kind == 'state':
            self.state(val)
        elif kind == 'poke':
            self.poke(val)
        elif kind == 'move':
            self.move(val)
        elif kind == 'patch':
            self.patch(val, patch_bytes(patch_file_len(val)))
        elif kind == 'border':
            self.f['border'] = num(val)
        elif kind == 'stack':
            self.f['sp'] = num(val)
        elif kind == 'start':
            self.f['pc'] = num(val)
        else:
            raise ValueError(kind)

    def key(self):
        return (tuple(sorted((k, v) for k, v in self.f.items())), tuple(bytes(self.banks[b]) for b in sorted(self.banks)))


PATCH_DATA = bytes((0xED, 0xED, 0x00, 0x01, 0xED))
PATCH = '{PATCH}'
_PATCH_RE = re.compile(r'\{PATCH(?::(\d+))?\}')


def patch_file_len(spec):
    """Length of the patch file a spec names: {PATCH} = the 5-byte file, {PATCH:n} = n bytes."""
    m = _PATCH_RE.search(spec)
    return None if m.group(1) is None else int(m.group(1))


def patch_bytes(n):
    """Contents of the patch file of length n (None: the short ED-laden one): never zero (the
    tool RAM is zero outside its windows), period 255 (out of phase with the 16K banks)."""
    if n is None:
        return PATCH_DATA
    return bytes((k * 89 + 151) % 255 + 1 for k in range(n))


PATCH_LENGTHS = (1, 2, 16383, 16384, 16385, 32767, 32768, 32769, 49151, 49152)
PATCH_BANK_LENGTHS = (1, 2, 16383, 16384)
PATCH_MID = 28672       # mid-bank: a patch from here crosses 32768 after 4K
PATCH_BANK_MID = 7200


def patch_letters(is128, quick):
    """The --patch file-length x start-address product, restricted to what the documentation
    defines (the patch lies inside RAM 16384..65535 / inside the 16K bank).  Without a bank
    prefix: file length L in PATCH_LENGTHS (both sides of 16K, 32K, 48K) x start address in
    {16384, 28672, 65535-L (ends one short of the top of memory), 65536-L (ends exactly at
    65535)}, keeping start >= 16384 and start+L <= 65536.  With a bank prefix p (128K; quick p
    in {0,7}, thorough 0..7): L in PATCH_BANK_LENGTHS (up to and at the bank size) x offset in
    {0, 7200, 16383-L, 16384-L}, keeping 0 <= offset and offset+L <= 16384."""
    out = []
    for L in PATCH_LENGTHS:
        starts = []
        for a in (16384, PATCH_MID, 65535 - L, 65536 - L):
            if a >= 16384 and a + L <= 65536 and a not in starts:
                starts.append(a)
        out += [('patch', '{},{{PATCH:{}}}'.format(a, L)) for a in starts]
    if is128:
        for p in (POKE_BANKS_QUICK if quick else range(8)):
            for L in PATCH_BANK_LENGTHS:
                offs = []
                for a in (0, PATCH_BANK_MID, 16383 - L, 16384 - L):
                    if a >= 0 and a + L <= PAGE and a not in offs:
                        offs.append(a)
                out += [('patch', '{}:{},{{PATCH:{}}}'.format(p, a, L)) for a in offs]
    return out

_REG_NAMES = ('a', 'f', 'b', 'c', 'bc', 'd', 'e', 'de', 'h', 'l', 'hl', '^a', '^f', '^b', '^c', '^bc', '^d', '^e',
              '^de', '^h', '^l', '^hl', 'ix', 'iy', 'sp', 'pc', 'i', 'r', 'memptr')
_REG_PAIR_SUBSET = ('a', 'f', 'b', 'c', 'bc', '^c', '^bc', 'hl', 'ix', 'iy', 'sp', 'pc', 'i', 'r', 'memptr')


def bank_letters(tool):
    """The complete RAM bank dimension of the bank-prefixed specs (128K snapshots): a poke
    and a patch in every bank 0..7 and a move for every (source bank, destination bank)
    with the destination bank 0..7 or omitted (= the source bank): 8 + 8 + 72 specs.  All
    operands lie inside the formula-filled windows of tool_ram, where every bank differs."""
    out = [('poke', '{}:7176-7178,+{}'.format(p, p + 1)) for p in range(8)]
    if tool == 'snapmod':
        for s in range(8):
            for d in (None,) + tuple(range(8)):
                dest = 7184 + 8 * s
                out.append(('move', '{}:{},8,{}'.format(s, 32 + s, dest if d is None else '{}:{}'.format(d, dest))))
        out += [('patch', '{}:{},{}'.format(p, 7200 + p, PATCH)) for p in range(8)]
    return out


POKE_SPANS = (0, 1, 2, 3, 4, 5)
POKE_STEPS = (None, 1, 2, 3, 4)
POKE_OPS = (('', 165), ('^', 90), ('+', 60))
POKE_BANKS_QUICK = (0, 7)


def poke_letters(is128, quick):
    """The complete product of --poke range specs [p:]a-b[-c],[^+]v: span b-a in 0..5 x
    step c in {omitted,1,2,3,4} (so the step divides the span, does not divide it, exceeds
    it) x operation {set, ^, +} x anchor, where the anchors are, without a bank prefix:
    a = 16384 (start of RAM), a = 49150 (crossing into the paged bank), b = 65535 (end of
    memory); with a bank prefix p (128K; quick p in {0,7}, thorough p in 0..7): a = 0 (bank
    start), a = 56320 (mid-bank, 16-bit address form), b = 16383 (bank end)."""
    anchors = [('', 16384, None), ('', 49150, None), ('', None, 65535)]
    if is128:
        for p in (POKE_BANKS_QUICK if quick else range(8)):
            pre = '{}:'.format(p)
            anchors += [(pre, 0, None), (pre, 56320, None), (pre, None, 16383)]
    out = []
    for pre, a0, b0 in anchors:
        for d in POKE_SPANS:
            a, b = (a0, a0 + d) if b0 is None else (b0 - d, b0)
            for c in POKE_STEPS:
                rng = '{}-{}'.format(a, b) if c is None else '{}-{}-{}'.format(a, b, c)
                for op, v in POKE_OPS:
                    out.append(('poke', '{}{},{}{}'.format(pre, rng, op, v)))
    return out


def letters(tool, is128, v1=False, reduced=False, banks=False):
    """The option alphabet: list of (kind, value).  banks: with the complete bank dimension
    (bank_letters) appended; used for the single options on 128K inputs."""
    out = []
    for k, n in enumerate(_REG_NAMES):
        if reduced and n not in _REG_PAIR_SUBSET:
            continue
        wide = len(n.lstrip('^')) == 2 or n == 'memptr'
        v = (0x8103 + 0x0205 * k) & 0xFFFF if wide else (0x83 + 5 * k) & 0xFF
        out.append(('reg', '{}={}'.format(n, v)))
    out += [('reg', 'r=127'), ('reg', 'r=0'), ('reg', 'R=255'), ('reg', 'HL=0x7fff'), ('reg', '^DE=65535'), ('reg', 'sp=0')]
    if not v1:
        out.append(('reg', 'pc=0'))         # Z80 v1 cannot hold PC=0 (it is the version marker)
    out += [('state', 'border=5'), ('state', 'border=0'), ('state', 'iff=0'), ('state', 'iff=1'), ('state', 'im=0'),
            ('state', 'im=2'), ('state', 'tstates=0'), ('state', 'tstates=52417'), ('state', 'fe=24')]
    if is128:
        out += [('state', '7ffd=1'), ('state', '7ffd=23'), ('state', 'fffd=9'), ('state', 'ay[0]=200'),
                ('state', 'ay[7]=63'), ('state', 'ay[15]=255')]
    else:
        out += [('state', 'issue2=1')]
    out += [('poke', '32768,255'), ('poke', '0x8000,0x10'), ('poke', '16384-16386,1'), ('poke', '16384-16400-4,7'),
            ('poke', '32767-32769,170'), ('poke', '49151-49153,^85'), ('poke', '65535,+1'), ('poke', '65530-65535-2,+200'),
            ('poke', '23552-23562-3,^0xff'), ('poke', '65440-65535,0'), ('poke', '16383-16385,9'), ('poke', '49152,^255')]
    if is128:
        out += [('poke', '0:0,17'), ('poke', '7:16383,18'), ('poke', '3:49152-49155,^255'), ('poke', '5:0x4000-0x4004-2,+16'),
                ('poke', '2:32768,1'), ('poke', '4:65535,+255')]
    if tool == 'snapmod':
        out += [('move', '32768,16,32784'), ('move', '16384,4,65532'), ('move', '0x8000,0x10,0xC000'),
                ('move', '32768,16,32772'), ('move', '32772,16,32768'), ('move', '32760,16,49144'), ('move', '65530,6,16384')]
        if is128:
            out += [('move', '1:0,8,3:16'), ('move', '4:49152,8,49160'), ('move', '0:16376,8,7:0'), ('move', '6:32,8,16400')]
        out += [('patch', '32768,' + PATCH), ('patch', '16384,' + PATCH), ('patch', '65531,' + PATCH), ('patch', '0x7FFE,' + PATCH)]
        if is128:
            out += [('patch', '6:0,' + PATCH), ('patch', '3:49152,' + PATCH), ('patch', '1:16379,' + PATCH)]
    else:
        out += [('border', '3'), ('stack', '40000'), ('start', '0x9c41')]
    if banks and is128:
        out += bank_letters(tool)
    return out


OPTION = {
    'snapmod': {'reg': '--reg', 'state': '--state', 'poke': '--poke', 'move': '--move', 'patch': '--patch'},
    'bin2sna': {'reg': '--reg', 'state': '--state', 'poke': '--poke', 'border': '--border', 'stack': '--stack', 'start': '--start'},
}

SNAPMOD_KINDS = (('z80v3', '48K'), ('szx', '48K'), ('z80v3', '128K'), ('szx', '128K'))
SNAPMOD_SINGLE_KINDS = (('z80v1', '48K'), ('z80v2', '48K'), ('z80v2', '128K'), ('z80v3', '+2'), ('szx', '+2'))
BIN2SNA_KINDS = tuple((m, e) for m in ('48K', 'page', '128K') for e in ('z80', 'szx'))


def option_cases(tier, seed):
    quick = tier == 'quick'
    for tool, kinds, single_kinds in (('snapmod', SNAPMOD_KINDS, SNAPMOD_SINGLE_KINDS), ('bin2sna', BIN2SNA_KINDS, ())):
        allkinds = tuple(kinds) + tuple(single_kinds)
        for kind in allkinds:
            yield tool, kind, []
        for kind in allkinds:
            is128 = kind[1] != '48K' if tool == 'snapmod' else kind[0] != '48K'
            for a in letters(tool, is128, v1=kind[0] == 'z80v1', banks=True):
                yield tool, kind, [a]
        for kind in kinds:
            is128 = kind[1] != '48K' if tool == 'snapmod' else kind[0] != '48K'
            for a in poke_letters(is128, quick):
                yield tool, kind, [a]
        if tool == 'snapmod':
            for kind in (kinds if quick else allkinds):
                for a in patch_letters(kind[1] != '48K', quick):
                    yield tool, kind, [a]
        for ki, kind in enumerate(kinds):
            if quick and tool == 'bin2sna' and (ki + seed) % 2:
                # quick: option pairs on three of the six (input, format) kinds - each
                # input kind once, formats alternating; the seed selects which three
                continue
            is128 = kind[1] != '48K' if tool == 'snapmod' else kind[0] != '48K'
            ls = letters(tool, is128, reduced=quick)
            for a in ls:
                for b in ls:
                    yield tool, kind, [a, b]


# ------------------------------------------------------------------------ the checker
def _first_diff(a, b):
    n = min(len(a), len(b))
    for i in range(n):
        if a[i] != b[i]:
            return i
    return n


def _ctx(buf, i):
    lo = max(0, i - 6)
    return ' '.join('%02X' % x for x in buf[lo:i + 6])


class Checker:
    def __init__(self):
        from skoolkit import snapshot
        self.snapshot = snapshot
        self.Snapshot = snapshot.Snapshot
        self.write_snapshot = snapshot.write_snapshot
        self.z80 = snapshot.Z80(ram=[0] * 49152)
        self.dir = tools.workdir()
        self.executions = 0
        self.guards = {}
        self._cache = {}
        self.patch_files = {}

    def g(self, name, n=1):
        self.guards[name] = self.guards.get(name, 0) + n

    def path(self, name):
        return os.path.join(self.dir, name)

    def fresh(self, name):
        """Path of a file about to be (re)written.  It is unlinked first: creating a new
        file is ~100x cheaper than truncating an existing one on the scratch filesystem."""
        p = os.path.join(self.dir, name)
        try:
            os.unlink(p)
        except OSError:
            pass
        return p

    def patch_arg(self, spec):
        """The spec with its patch file placeholder replaced by a real file (made on first use)."""
        n = patch_file_len(spec)
        if n not in self.patch_files:
            self.patch_files[n] = self.put('patch.bin' if n is None else 'patch-{}.bin'.format(n), patch_bytes(n))
        return _PATCH_RE.sub(lambda m: self.patch_files[n], spec)

    def put(self, name, data):
        p = self.fresh(name)
        with open(p, 'wb') as f:
            f.write(data)
        return p

    # ---------------------------------------------------------------- reading a file back
    def verify_file(self, fname, expfmt, exp, banks, label):
        """Read `fname` with the reference decoder and with skoolkit's reader and compare
        both with the expected fields and RAM banks.  Returns (failures, R)."""
        out = []
        data = tools.read_file(fname)
        ext = fname[-3:]
        is128 = len(banks) == 8
        R = S = None
        try:
            R = snapfmt.read(data, ext)
        except (snapfmt.FormatError, zlib.error, IndexError, KeyError) as e:
            out.append(('snapfmt', '{}: the reference decoder rejects the file: {}: {}'.format(label, type(e).__name__, e)))
        try:
            S = self.Snapshot.get(fname)
            self.executions += 1
        except Exception as e:
            out.append(('reader', '{}: Snapshot.get raised {}: {}'.format(label, type(e).__name__, e)))
        if R is not None:
            for k, v in R.tokens.items():
                self.g('tok_' + k, v)
            self.g('fmt_' + R.format)
            if R.format != expfmt:
                out.append(('snapfmt', '{}: file is {} (expected {})'.format(label, R.format, expfmt)))
            if R.is128 != is128:
                out.append(('snapfmt', '{}: file is for a {} machine'.format(label, '128K' if R.is128 else '48K')))
            for n in R.notes:
                out.append(('spec', '{}: {}'.format(label, n)))
            for k, v in exp.items():
                got = getattr(R, k)
                if got != v:
                    out.append(('field', '{}: {} decodes (reference decoder) as {!r}, expected {!r}'.format(label, k, got, v)))
            for b in sorted(banks):
                got = R.banks.get(b)
                if got != banks[b]:
                    if got is None:
                        out.append(('ram', '{}: RAM bank {} missing (reference decoder)'.format(label, b)))
                    else:
                        i = _first_diff(got, banks[b])
                        out.append(('ram', '{}: RAM bank {} differs at offset {} (reference decoder): read [{}] expected [{}]'.format(
                            label, b, i, _ctx(got, i), _ctx(banks[b], i))))
                    break
        if S is not None:
            for k, v in exp.items():
                if k == 'issue2':
                    continue        # not exposed by Snapshot objects
                got = getattr(S, k)
                if k == 'ay':
                    got = tuple(got)
                if got != v:
                    out.append(('field', '{}: Snapshot.get(...).{} == {!r}, expected {!r}'.format(label, k, got, v)))
            try:
                if is128:
                    allram = bytes(S.ram(-1))
                    want = b''.join(banks[b] for b in range(8))
                    view = banks[5] + banks[2] + banks[exp['out7ffd'] & 7] if 'out7ffd' in exp else None
                else:
                    allram = bytes(S.ram(-1))
                    want = banks[5] + banks[2] + banks[0]
                    view = want
                if allram != want:
                    i = _first_diff(allram, want)
                    out.append(('ram', '{}: Snapshot.ram(-1) differs at index {} (bank {} offset {}): read [{}] expected [{}]'.format(
                        label, i, i // PAGE if is128 else (5, 2, 0)[min(i // PAGE, 2)], i % PAGE, _ctx(allram, i), _ctx(want, i))))
                if view is not None:
                    got = bytes(S.ram())
                    if got != view:
                        i = _first_diff(got, view)
                        out.append(('ram', '{}: Snapshot.ram() differs at address {}'.format(label, 16384 + i)))
                    if R is not None and R.ram48() != view:
                        out.append(('ram', '{}: reference decoder 48K view differs'.format(label)))
            except Exception as e:
                out.append(('reader', '{}: Snapshot.ram raised {}: {}'.format(label, type(e).__name__, e)))
        return out, R

    # ---------------------------------------------------------------- part: rle
    def classify(self, data):
        """Vacuity guards from the *input*: which coder shortcuts the data must reach."""
        runs = [(b, len(list(grp))) for b, grp in itertools.groupby(data)]
        for k, (b, n) in enumerate(runs):
            nxt = runs[k + 1] if k + 1 < len(runs) else None
            if b == ED:
                if n == 1 and nxt:
                    self.g('in_lone_ed')
                    if nxt[1] >= 5:
                        self.g('in_lone_ed_before_run')
                    if nxt[1] == 6:
                        self.g('in_lone_ed_before_run6')
                elif n == 1:
                    self.g('in_trailing_ed')
                elif n == 2:
                    self.g('in_ed_run2')
            elif n == 4:
                self.g('in_run4')
            elif n == 5:
                self.g('in_run5')
            if n in (255, 256):
                self.g('in_run%d' % n)
            if n > 256:
                self.g('in_run_over_256')

    def check_rle(self, s):
        out = []
        self.classify(s)
        data = list(s)
        want = bytes(s)
        z = self.z80
        for form, page in (('v1', None), ('paged', 3), ('paged', 10)):
            self.executions += 2
            try:
                blk = z._make_z80_ram_block(data, page)
            except Exception as e:
                out.append(('rle', '{}: _make_z80_ram_block raised {}: {}'.format(form, type(e).__name__, e)))
                continue
            if page is None:
                if blk[-4:] != b'\x00\xed\xed\x00':
                    out.append(('rle', 'v1 block does not end with 00 ED ED 00: [{}]'.format(blk.hex(' '))))
                body = blk[:-4]
                refin, v1 = blk, True
            else:
                if len(blk) < 3 or blk[0] + 256 * blk[1] != len(blk) - 3 or blk[2] != page:
                    out.append(('rle', 'page header {} wrong for a {}-byte block of page {}'.format(list(blk[:3]), len(blk) - 3, page)))
                body = blk[3:]
                refin, v1 = body, False
            try:
                back = z._decompress(list(body))
                if bytes(back) != want:
                    out.append(('rle', '{}: _decompress(_make_z80_ram_block(s)) != s: encoded [{}] decoded [{}]'.format(
                        form, bytes(body).hex(' '), bytes(back).hex(' '))))
            except Exception as e:
                out.append(('rle', '{}: _decompress raised {}: {} on [{}]'.format(form, type(e).__name__, e, bytes(body).hex(' '))))
            notes = []
            toks = {}
            try:
                tk = snapfmt.Counter()
                ref = snapfmt.rle_decode(refin, v1=v1, notes=notes, tokens=tk)
                toks = tk
                if ref != want:
                    out.append(('rle', '{}: reference decoder reads [{}] from encoding [{}]'.format(form, ref.hex(' '), bytes(refin).hex(' '))))
            except snapfmt.FormatError as e:
                out.append(('rle', '{}: reference decoder rejects [{}]: {}'.format(form, bytes(refin).hex(' '), e)))
            for n in notes:
                out.append(('spec', '{}: {} in [{}]'.format(form, n, bytes(refin).hex(' '))))
            for k, v in toks.items():
                self.g('tok_' + k, v)
        return out

    # ---------------------------------------------------------------- RAM through files
    _REGS0 = ['a=1', 'f=2', 'bc=772', 'de=1286', 'hl=1800', 'ix=4660', 'iy=22136', 'sp=65280', 'pc=32768', 'i=62', 'r=219']
    _ST0 = dict(a=1, f=2, bc=772, de=1286, hl=1800, ix=4660, iy=22136, sp=65280, pc=32768, i=62, r=219, border=4,
                iff1=1, iff2=1, im=1)

    def check_ram48(self, img):
        """Write a 48K image in every file form and read it back."""
        return self.check_ram({5: img[:PAGE], 2: img[PAGE:2 * PAGE], 0: img[2 * PAGE:]}, '48K', ('z80v3', 'szx', 'z80v1', 'z80v2'))

    def check_ram(self, banks, machine, forms):
        """Write RAM banks in the given file forms and read them back.  Forms: z80v3 / szx
        = write_snapshot; z80v1, z80v2, z80v3u, szxu = an uncompressed file built by
        snapfmt (exercises the readers' uncompressed paths) rewritten by snapmod."""
        out = []
        is128 = len(banks) == 8
        ram = banks_to_ram(banks)
        self.classify(b''.join(banks[b] for b in (range(8) if is128 else (5, 2, 0))))
        exp = dict(self._ST0)
        exp['machine'] = machine
        state = ['border=4']
        if is128:
            exp['out7ffd'] = 0x11
            state.append('7ffd=17')
        for form in forms:
            self.g('form_' + form)
            expfmt = form.rstrip('u')
            ext = 'szx' if expfmt == 'szx' else 'z80'
            try:
                if form in ('z80v3', 'szx'):
                    fname = self.fresh('r.' + ext)
                    self.write_snapshot(fname, ram, self._REGS0, state, machine)
                    self.executions += 1
                else:
                    if expfmt == 'szx':
                        data = snapfmt.build_szx(exp, banks)
                    else:
                        data = snapfmt.build_z80(int(expfmt[-1]), exp, banks)
                    fin = self.put('in-{}.{}'.format(form, ext), data)
                    self.g('input_uncompressed_' + expfmt)
                    fname = self.fresh('o-{}.{}'.format(form, ext))
                    r = tools.run_tool('snapmod', [fin, fname])
                    self.executions += 1
                    if r.rc:
                        out.append(('tool', '{}: snapmod failed: {} {}'.format(form, r.exc, r.err[-200:])))
                        continue
            except Exception as e:
                out.append(('writer', '{}: writing raised {}: {}'.format(form, type(e).__name__, e)))
                continue
            fails, R = self.verify_file(fname, expfmt, exp, banks, form)
            out.extend(fails)
        return out

    def check_image(self, fill, machine, seed):
        nb = 3 if machine == '48K' else 8
        whole = fill_image(fill, nb * PAGE, seed)
        if machine == '48K':
            banks = {5: whole[:PAGE], 2: whole[PAGE:2 * PAGE], 0: whole[2 * PAGE:]}
            forms = ('z80v3', 'szx', 'z80v1', 'z80v2', 'z80v3u', 'szxu')
        else:
            banks = {b: whole[b * PAGE:(b + 1) * PAGE] for b in range(8)}
            forms = ('z80v3', 'szx', 'z80v2', 'z80v3u', 'szxu')
        return self.check_ram(banks, machine, forms)

    # ---------------------------------------------------------------- part: state
    def check_state(self, machine, dev, seed):
        out = []
        x = base_state(seed)
        x.update(dev)
        banks = self._cached(('state_ram', machine, seed), lambda: state_ram(machine, seed))
        ram = self._cached(('state_ram_l', machine, seed), lambda: banks_to_ram(banks))
        regs = ['{}={}'.format(spec, x[f]) for f, spec in REG_SPECS]
        state = ['border={}'.format(x['border']), 'iff={}'.format(x['iff']), 'im={}'.format(x['im']),
                 'tstates={}'.format(x['tstates']), 'fe={}'.format(x['outfe'])]
        exp = {f: x[f] for f, _ in REG_SPECS}
        exp.update(border=x['border'], iff1=x['iff'], iff2=x['iff'], im=x['im'], tstates=x['tstates'], outfe=x['outfe'],
                   machine=machine)
        if machine == '48K':
            state.append('issue2={}'.format(x['issue2']))
            exp['issue2'] = x['issue2']
        else:
            state += ['7ffd={}'.format(x['out7ffd']), 'fffd={}'.format(x['outfffd'])]
            state += ['ay[{}]={}'.format(n, x['ay[%d]' % n]) for n in range(16)]
            exp.update(out7ffd=x['out7ffd'], outfffd=x['outfffd'], ay=tuple(x['ay[%d]' % n] for n in range(16)))
        if x['r'] & 128:
            self.g('r_bit7')
        self.g('t_quarter%d' % (x['tstates'] * 4 // FRAME[machine]))
        if machine == '+2':
            self.g('machine_plus2')
        got = {}
        for ext in ('z80', 'szx'):
            fname = self.fresh('s.' + ext)
            e = dict(exp)
            if ext == 'z80':
                # documented: `fe` is "SZX only"; MEMPTR can be set "in SZX snapshots" only
                del e['memptr'], e['outfe']
            try:
                self.write_snapshot(fname, ram, regs, state, machine)
                self.executions += 1
            except Exception as ex:
                out.append(('writer', '{}: write_snapshot raised {}: {}'.format(ext, type(ex).__name__, ex)))
                continue
            fails, R = self.verify_file(fname, 'z80v3' if ext == 'z80' else 'szx', e, banks, ext)
            out.extend(fails)
            got[ext] = R
        if got.get('z80') is not None and got.get('szx') is not None:
            fz, fs = got['z80'].fields(), got['szx'].fields()
            for k in fz:
                if k in ('memptr', 'outfe'):
                    continue
                if machine == '48K' and k in ('out7ffd', 'outfffd', 'ay'):
                    continue
                if machine != '48K' and k == 'issue2':
                    continue
                if fz[k] != fs[k]:
                    out.append(('cross', 'same state written as .z80 reads back {}={!r} but as .szx {}={!r}'.format(k, fz[k], k, fs[k])))
            if got['z80'].banks != got['szx'].banks:
                out.append(('cross', 'RAM written as .z80 and as .szx reads back differently'))
        return out

    def _cached(self, key, fn):
        if key not in self._cache:
            self._cache[key] = fn()
        return self._cache[key]

    # ---------------------------------------------------------------- part: snapmod/bin2sna
    def _tool_base(self, tool, kind, seed):
        """(input file, Model of its contents, expected output format)."""
        def make():
            if tool == 'snapmod':
                fmt, machine = kind
                is128 = machine != '48K'
                banks = tool_ram(is128, seed)
                x = base_state(seed)
                st = {f: x[f] for f, _ in REG_SPECS}
                st.update(border=x['border'], iff1=x['iff'], iff2=x['iff'], im=x['im'], tstates=x['tstates'] % 60000,
                          outfe=x['outfe'], machine=machine)
                if is128:
                    st.update(out7ffd=x['out7ffd'], outfffd=x['outfffd'], ay=tuple(x['ay[%d]' % n] for n in range(16)))
                else:
                    st['issue2'] = 0
                ext = 'szx' if fmt == 'szx' else 'z80'
                fin = self.fresh('in-{}-{}.{}'.format(fmt, machine.replace('+', 'p'), ext))
                if fmt in ('z80v1', 'z80v2'):
                    self.put(os.path.basename(fin), snapfmt.build_z80(int(fmt[-1]), st, banks))
                else:
                    regs = ['{}={}'.format(spec, st[f]) for f, spec in REG_SPECS]
                    state = ['border={}'.format(st['border']), 'iff={}'.format(st['iff1']), 'im={}'.format(st['im']),
                             'tstates={}'.format(st['tstates']), 'fe={}'.format(st['outfe'])]
                    if is128:
                        state += ['7ffd={}'.format(st['out7ffd']), 'fffd={}'.format(st['outfffd'])]
                        state += ['ay[{}]={}'.format(n, v) for n, v in enumerate(st['ay'])]
                    try:
                        self.write_snapshot(fin, banks_to_ram(banks), regs, state, machine)
                    except Exception as e:
                        return 'write_snapshot raised {}: {} while writing the {} {} input snapshot'.format(type(e).__name__, e, fmt, machine)
                # the input file must hold what was asked for (the state part checks this in
                # depth); a file built by snapfmt that snapfmt reads differently is a harness bug
                own = fmt in ('z80v1', 'z80v2')
                try:
                    R = snapfmt.read(tools.read_file(fin), ext)
                except Exception as e:
                    if own:
                        raise core_broken('input file {}: {}'.format(fin, e))
                    return 'input snapshot written by write_snapshot is rejected by the reference decoder: {}'.format(e)
                bad = ['{}={!r} (asked for {!r})'.format(k, getattr(R, k), v) for k, v in st.items()
                       if getattr(R, k) is not None and getattr(R, k) != v and not (ext == 'z80' and k in ('memptr', 'outfe'))]
                if R.banks != banks:
                    bad.append('RAM differs')
                if bad:
                    if own:
                        raise core_broken('input file {}: {}'.format(fin, bad))
                    return 'input snapshot written by write_snapshot ({} {}) decodes with {}'.format(fmt, machine, ', '.join(bad))
                return fin, Model(R.fields(), R.banks, is128), fmt
            # bin2sna: (machine kind, ext)
            mk, ext = kind
            if mk == '128K':
                banks = tool_ram(True, seed)
                binary = b''.join(banks[b] for b in range(8))
                args = []
            else:
                b48 = tool_ram(False, seed)
                binary = b48[5] + b48[2] + b48[0]
                args = ['--page', '3'] if mk == 'page' else []
                if mk == 'page':
                    banks = {b: bytes(PAGE) for b in range(8)}
                    banks[5], banks[2], banks[3] = b48[5], b48[2], b48[0]
                else:
                    banks = b48
            fin = self.put('in-{}.bin'.format(mk), binary)
            return fin, args, banks, ext
        return self._cached(('tool_base', tool, kind, seed), make)

    def _intended(self, tool, kind, seed):
        """Model of the input the harness asks for (no implementation involved): used for
        the vacuity guards, so that they do not depend on what the code under test does."""
        def make():
            if tool == 'snapmod':
                is128 = kind[1] != '48K'
                banks = tool_ram(is128, seed)
            else:
                is128 = kind[0] != '48K'
                banks = tool_ram(is128, seed)
                if kind[0] == 'page':
                    b48 = tool_ram(False, seed)
                    banks = {b: bytes(PAGE) for b in range(8)}
                    banks[5], banks[2], banks[3] = b48[5], b48[2], b48[0]
            x = base_state(seed)
            f = {k: x[k] for k, _ in REG_SPECS}
            f.update(border=x['border'], iff1=x['iff'], iff2=x['iff'], im=x['im'], tstates=x['tstates'], outfe=x['outfe'],
                     issue2=0, out7ffd=x['out7ffd'] if is128 else 0, outfffd=x['outfffd'],
                     ay=tuple(x['ay[%d]' % n] for n in range(16)))
            return Model(f, banks, is128)
        return self._cached(('intended', tool, kind, seed), make)

    def _count_guards(self, tool, kind, opts, seed, fmt):
        models = self._expected_models(self._intended(tool, kind, seed), opts)
        if len(models) > 1:
            self.g('pair_order_dependent')
        for m in models:
            for n in m.notes:
                self.g(n)
        if fmt != 'szx' and any(k == 'reg' and v.lower().startswith('memptr') or k == 'state' and v.startswith('fe=') for k, v in opts):
            self.g('szx_only_field_on_z80')

    def _expected_models(self, base, opts):
        """Models reachable under the documented semantics: options of the same kind apply
        in command-line order; the relative order of options of different kinds is not
        documented, so every interleaving that keeps same-kind order is admitted."""
        orders = [list(opts)]
        if len(opts) == 2 and opts[0][0] != opts[1][0]:
            orders.append([opts[1], opts[0]])
        models = []
        keys = set()
        for order in orders:
            m = base.clone()
            for letter in order:
                m.apply(letter, PATCH_DATA)
            k = m.key()
            if k not in keys:
                keys.add(k)
                models.append(m)
        return models

    def _project(self, fields, fmt, is128):
        """Fields a file of this format can hold / the option documentation says are set."""
        e = dict(fields)
        if fmt != 'szx':
            e.pop('memptr', None)
            e.pop('outfe', None)
        if fmt in ('z80v1', 'z80v2'):
            e.pop('tstates', None)
        if fmt == 'z80v1' or not is128:
            for k in ('out7ffd', 'outfffd', 'ay'):
                e.pop(k, None)
        if is128:
            e.pop('issue2', None)
        return e

    def check_option(self, tool, kind, opts, seed):
        out = []
        opts = [tuple(o) for o in opts]
        argv = []
        for k, v in opts:
            argv += [OPTION[tool][k], self.patch_arg(v) if k == 'patch' else v]
        self._count_guards(tool, tuple(kind), opts, seed, kind[0] if tool == 'snapmod' else ('szx' if kind[1] == 'szx' else 'z80v3'))
        if tool == 'snapmod':
            tb = self._tool_base(tool, tuple(kind), seed)
            if isinstance(tb, str):
                return [('input', tb)]
            fin, base, fmt = tb
            is128 = base.is128
            ext = 'szx' if fmt == 'szx' else 'z80'
            fout = self.fresh('out.' + ext)
            r = tools.run_tool('snapmod', argv + [fin, fout])
            self.executions += 1
        else:
            fin, args, banks, ext = self._tool_base(tool, tuple(kind), seed)
            is128 = len(banks) == 8
            fmt = 'szx' if ext == 'szx' else 'z80v3'
            fout = self.fresh('b2s.' + ext)
            # differential base: the same conversion without the options under test
            def baseline():
                fb = self.fresh('b2s-base-{}.{}'.format(kind[0], ext))
                rb = tools.run_tool('bin2sna', args + [fin, fb])
                if rb.rc:
                    return None, 'bin2sna (no options) failed: {} {}'.format(rb.exc, rb.err[-200:])
                try:
                    R = snapfmt.read(tools.read_file(fb), ext)
                except Exception as e:
                    return None, 'bin2sna (no options): reference decoder rejects the file: {}'.format(e)
                return (fb, R), None
            bl, err = self._cached(('b2s_baseline', tuple(kind), seed), baseline)
            if err:
                return [('tool', err)]
            fb, Rb = bl
            if not opts:
                # documented defaults of the option-less conversion
                exp = dict(border=7, iff1=1, iff2=1, im=1, tstates=34943, machine='128K' if is128 else '48K')
                if kind[0] != '128K':
                    # ORG = 65536 - len(file.bin); START and STACK default to ORG (for a
                    # 128K input file ORG is not defined by the documentation)
                    exp.update(sp=16384, pc=16384)
                if kind[0] == 'page':
                    exp['out7ffd'] = 3
                elif is128:
                    exp['out7ffd'] = 0
                else:
                    exp['issue2'] = 0
                fails, _ = self.verify_file(fb, fmt, exp, banks, 'bin2sna without options')
                return fails
            base = Model(Rb.fields(), Rb.banks, is128)
            r = tools.run_tool('bin2sna', args + argv + [fin, fout])
            self.executions += 1
        if r.rc:
            return [('tool', '{} {} failed: {} {}'.format(tool, ' '.join(argv), r.exc, r.err[-200:]))]
        models = self._expected_models(base, opts)
        verdicts = []
        for m in models:
            exp = self._project(m.f, fmt, is128)
            fails, R = self.verify_file(fout, fmt, exp, {b: bytes(v) for b, v in m.banks.items()}, tool)
            verdicts.append(fails)
            if not fails:
                break
        if all(verdicts):
            out.extend(verdicts[0])
            if len(models) > 1:
                out.append(('order', 'the result matches neither order of applying the two options'))
        return out

    # ---------------------------------------------------------------- dispatch
    def check(self, case):
        part = case['part']
        seed = case.get('seed', 0)
        if part == 'rle':
            return self.check_rle(case['s'])
        if part == 'embed':
            return self.check_ram48(embed_image(case['s'], seed))
        if part == 'edrun':
            return self.check_ram48(edrun_image(case['n'], seed))
        if part == 'run':
            return self.check_ram48(run_image(case['v'], case['n'], seed))
        if part == 'image':
            return self.check_image(case['fill'], case['machine'], seed)
        if part == 'state':
            return self.check_state(case['machine'], case['dev'], seed)
        if part in ('snapmod', 'bin2sna'):
            return self.check_option(part, case['kind'], case['opts'], seed)
        raise ValueError(part)


def core_broken(msg):
    from ..skbuild import BrokenCheck
    return BrokenCheck(msg)


# ------------------------------------------------------------------------ enumeration
def gen_cases(tier, seed):
    quick = tier == 'quick'
    for L in range(1, (9 if quick else 10) + 1):
        for s in itertools.product(ALPHA, repeat=L):
            yield {'part': 'rle', 's': list(s)}
    for L in range(1, (6 if quick else 7) + 1):
        for s in itertools.product(ALPHA, repeat=L):
            yield {'part': 'embed', 's': list(s), 'seed': seed}
    for n in range(1, 601):
        yield {'part': 'edrun', 'n': n, 'seed': seed}
    values = RUN_VALUES_QUICK if quick else [v for v in range(256) if v != ED]
    for n in RUN_LENGTHS:
        for v in values:
            yield {'part': 'run', 'v': v, 'n': n, 'seed': seed}
    for fill in FILLS:
        for machine in MACHINES:
            yield {'part': 'image', 'fill': fill, 'machine': machine, 'seed': seed}
    for machine, dev in state_cases(tier, seed):
        yield {'part': 'state', 'machine': machine, 'dev': dev, 'seed': seed}
    for tool, kind, opts in option_cases(tier, seed):
        yield {'part': tool, 'kind': list(kind), 'opts': [list(o) for o in opts], 'seed': seed}


def case_id(case):
    p = case['part']
    if p in ('rle', 'embed'):
        return '{}/{}'.format(p, ''.join('%02X' % b for b in case['s']))
    if p == 'edrun':
        return 'edrun/{}'.format(case['n'])
    if p == 'run':
        return 'run/{:02X}x{}'.format(case['v'], case['n'])
    if p == 'image':
        return 'image/{}/{}'.format(case['fill'], case['machine'])
    if p == 'state':
        return 'state/{}/{}'.format(case['machine'], ','.join('{}={}'.format(k, v) for k, v in case['dev'].items()) or 'base')
    return '{}/{}/{}'.format(p, '-'.join(case['kind']), '+'.join('{}.{}'.format(k, _PATCH_RE.sub(lambda m: 'F' + (m.group(1) or ''), v)) for k, v in case['opts']) or 'none')


def _nontrivial(case):
    p = case['part']
    if p in ('rle', 'embed'):
        return ED in case['s']
    if p in ('edrun', 'run', 'image'):
        return True
    if p == 'state':
        return bool(case['dev'])
    return bool(case['opts'])


def _shard(shard, nshards, tier, seed):
    stats = core.Stats(PROPERTY)
    chk = Checker()
    for i, case in core.shard_iter(gen_cases(tier, seed), shard, nshards):
        fails = chk.check(case)
        stats.evaluations += 1
        stats.counters['part_' + case['part']] += 1
        cid = case_id(case)
        if _nontrivial(case):
            stats.nontriv(cid)
        if case['part'] in ('snapmod', 'bin2sna'):
            stats.state((case['part'], tuple(case['kind']), tuple(k for k, _ in case['opts'])))
        elif case['part'] == 'state':
            stats.state(('state', case['machine'], tuple(sorted(case['dev']))))
        else:
            stats.state(cid)
        seen = set()
        for tag, detail in fails:
            if tag in seen:
                continue
            seen.add(tag)
            stats.violation(cid, case, '{}: {}'.format(tag, detail), tags={'part': case['part'], 'oracle': tag}, order=i)
        if i % 4099 == 0:
            stats.sample({'case': cid})
    stats.transitions = chk.executions
    for k, v in chk.guards.items():
        stats.counters[k] += v
    return stats


# guards are measured on the *inputs* (harness side), so that a broken implementation
# yields violations rather than an empty-exploration abort; tok_* / fmt_* counters (what
# the reference decoder met in skoolkit's output) are reported but not required
REQUIRED_GUARDS = [
    'part_rle', 'part_embed', 'part_edrun', 'part_run', 'part_image', 'part_state', 'part_snapmod', 'part_bin2sna',
    'in_lone_ed', 'in_lone_ed_before_run', 'in_lone_ed_before_run6', 'in_trailing_ed', 'in_ed_run2', 'in_run4', 'in_run5',
    'in_run255', 'in_run256', 'in_run_over_256',
    'form_z80v1', 'form_z80v2', 'form_z80v3', 'form_szx', 'form_z80v3u', 'form_szxu',
    'input_uncompressed_z80v1', 'input_uncompressed_z80v2', 'input_uncompressed_z80v3', 'input_uncompressed_szx',
    'machine_plus2', 'r_bit7', 't_quarter0', 't_quarter1', 't_quarter2', 't_quarter3',
    'poke_set', 'poke_xor', 'poke_add', 'poke_step', 'poke_page', 'poke_rom', 'move_page', 'move_overlap', 'patch_page',
    'move_dest_bank_explicit', 'move_dest_bank_omitted', 'move_cross_bank',
    'poke_step_divides_span', 'poke_step_not_dividing_span', 'poke_step_over_span',
    'poke_page_step_divides_span', 'poke_page_step_not_dividing_span', 'poke_page_step_over_span',
    'poke_range_to_bank_end', 'poke_range_to_memory_end',
    'patch_longer_than_16k', 'patch_longer_than_32k', 'patch_whole_ram', 'patch_to_memory_end',
    'patch_page_to_bank_end', 'patch_page_whole_bank',
    'pair_order_dependent', 'szx_only_field_on_z80',
]


def run(tier, seed):
    stats = core.run_shards(_shard, tier, seed, prop=PROPERTY)
    stats.traces = stats.evaluations
    quick = tier == 'quick'
    meta = dict(
        rule='complete enumerations: (rle) all strings over {{ED,00,01}} of length 1..{} x (v1 block, paged block) at method level; '
             '(embed) all such strings of length 1..{} at page start / page end / after 254-byte runs of each alphabet byte in real '
             'files (Z80 v3 by write_snapshot, Z80 v1 and v2 by snapmod, SZX); (edrun) ED runs of every length 1..600; (run) runs of '
             '{} byte values x lengths {} bare / ED before / ED after / both; (image) 13 whole-memory fills x 3 machines x all file '
             'forms; (state) all deviations d<=2 from a base state over register and hardware-state boundary sets x {{48K,128K,+2}} x {{z80,szx}}{}; (snapmod, bin2sna) every single option and '
             'every ordered pair from the option alphabet x input kinds, and as single options on every 128K/+2 input kind the complete '
             'RAM bank dimension: a banked --poke (and, snapmod, --patch) in every bank 0..7 and a banked --move for every source '
             'bank 0..7 x destination bank in {{omitted, 0..7}} (72 specs), and as single options on the four snapmod (z80v3/szx x '
             '48K/128K) and six bin2sna input kinds the complete product of --poke range specs [p:]a-b[-c],[^+]v: span b-a in 0..5 x '
             'step c in {{omitted,1,2,3,4}} x operation {{set,^,+}} x anchor {{a=16384, a=49150, b=65535; with bank prefix p in {}: '
             'a=0, a=56320, b=16383}}, and as single snapmod options ({}) the --patch product: without a bank prefix file length L in '
             '{} x start address in {{16384, 28672, 65535-L, 65536-L}} (start >= 16384, start+L <= 65536); with bank prefix p in {}: '
             'L in {} x bank offset in {{0, 7200, 16383-L, 16384-L}} (offset+L <= 16384). states = distinct case classes (string / run / set of '
             'deviating dimensions per machine / option-kind sequence per input kind); non-trivial = string contains ED, any run, '
             'any deviation, any option'.format(
                 9 if quick else 10, 6 if quick else 7, len(RUN_VALUES_QUICK) if quick else 255, list(RUN_LENGTHS),
                 '{0,7}' if quick else '0..7',
                 'on the z80v3/szx x 48K/128K input kinds' if quick else 'on all nine input kinds', list(PATCH_LENGTHS),
                 '{0,7}' if quick else '0..7', list(PATCH_BANK_LENGTHS),
                 ' (quick: register x register pairs on the machine selected by the seed, register x state pairs for R, A, I only)'
                 if quick else ' plus every T-state value 0..frame-1 of both frame lengths'),
        exhaustive=True,
        bound='quick: strings <= 9 / embedded <= 6, 7 run byte values, T-state boundary set; reduced register alphabet in option '
              'pairs; bin2sna option pairs on 3 of the 6 (input kind, format) combinations; bank-prefixed poke range and patch products on banks 0 and 7, patch product on 4 of the 9 snapmod input kinds' if quick else
              'thorough: strings <= 10 / embedded <= 7, all 255 run byte values, every T-state value, full option alphabet pairs, bank-prefixed poke range and patch products on banks 0..7, patch product on all 9 snapmod input kinds',
        assumptions=[
            'reference decoders mc/refs/snapfmt.py (written from the Z80 and ZX-State format descriptions) are the independent reader',
            'register values are inside the register width, tstates inside 0..frame-1 (SZX stores T-states unreduced; out of domain)',
            '7ffd, fffd and ay[N] are exercised on 128K/+2 snapshots only (documented "128K only"); issue2 on 48K only (ZX-State '
            'keyboard block / issue-2 emulation applies to 48K machines); fe and memptr are expected in SZX only (documented "SZX only")',
            'RAM bank prefixes (p:) are used on 128K snapshots only; 48K files have no RAM banks and the bank a prefix would select is format dependent',
            'poke/move/patch operands stay inside 0..65535 and, with a bank prefix, inside the 16K bank (a banked move or patch that '
            'runs past the end of the bank is not defined by the documentation)',
            'over-long patch files are not generated: the documentation of --patch ("apply a binary patch file at address a in RAM '
            'bank p") does not say what happens to the part of a file that extends beyond address 65535 (no bank prefix: start+L > '
            '65536, which includes every file longer than 49152 bytes) or beyond the end of the 16K bank (bank prefix: offset+L > '
            '16384, which includes every file longer than 16384 bytes); a patch that starts in the ROM area (start < 16384) is not '
            'generated either (snapshots hold no ROM). Every generated patch therefore names L RAM cells, all of which must change',
            'Z80 v1 files cannot represent PC=0 (PC=0 is the v2/v3 marker), so pc=0 is not generated for v1 input',
            'the relative order in which options of different kinds are applied is not documented: for a pair of options of different '
            'kinds whose effects do not commute either order is accepted (counted in guard pair_order_dependent); options of the same '
            'kind must apply in command-line order',
            'option values: --reg values, addresses, sizes and poke values in decimal or 0x-hexadecimal as documented; --state '
            'values in decimal only (the documentation does not promise 0x there and the tools reject it)',
            'seed rotates the base register vector, the RAM fills and the literal background bytes and, in the quick tier only, which '
            'machine carries the register x register pairs and which three (input kind, format) combinations carry the bin2sna '
            'option pairs; it never selects cases inside an enumerated space',
        ],
        required_guards=REQUIRED_GUARDS,
        extra={'seed_slice': seed % 3},
    )
    return stats, meta


def replay(case):
    chk = Checker()
    return ['{}: {}'.format(t, d) for t, d in chk.check(case)]
