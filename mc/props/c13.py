"""C13 - simulated LOAD results do not depend on speed-up options or simulator choice.

Two levels, both complete enumerations.

(a) Loop level (seam: skoolkit.loadtracer.LoadTracer over synthetic TapeBlocks, driving
    skoolkit.simulator.Simulator and the freshly built CSimulator).  For each of the 53
    rows of loadsample.ACCELERATORS a memory image holds that row's code signature as a
    real loop (wild-card runs = the loop's time-out exit, a jump to the stop address; a
    trailing truncated `JP cc` gets the loop start as operand; RETs return to the stop
    address), entered at its first instruction after one `IN A,($FE)` that starts the
    tape.  Product: counter value (all 256) x distance of the next tape edge from loop
    entry x EAR register bit x tape polarity x carry.  Each case is run four times:
    {Python, C} x {accelerators = {that row}, accelerators = {}} and the four final
    machine states (every register incl. R, T-states, PC, SP) and tape positions must
    be identical.
    DEC A loops: all 256 A x carry x accelerate-dec-a 0..3 x {JR, JP form} x IFF {0,1}
    (with IFF=1 a frame interrupt arrives inside the loop), Python and C, against the
    unaccelerated Python run.

(b) Tape level (seam: tap2sna.main --start START, snapshot read back with
    Snapshot.get): tapes from C12's generator (bin2tap.main) and a TZX tape whose last
    block is a headerless turbo block loaded by a RAM-relocated copy of the ROM loader;
    simulated-LOAD options explored as core.deviations from the defaults.  Within
    {accelerator, accelerate-dec-a, pause, python} variation the snapshots must be
    identical bit for bit (RAM, all registers incl. R, T-states); across fast-load /
    cmio / polarity / first-edge only the loaded data bytes, PC and SP.
"""
import array
import io
import os
import sys

from .. import core, tools
from . import c12

PROPERTY = 'C13'
NEEDS_C = True

HORIZON_T = 200000          # T-state budget of every loop-level run (LoadTracer's own timeout)
FAR = 40000                 # an edge further away than any counter can wait (256 x 65 T-states)
LOOP = 0x8102               # address of the first instruction of the loop
SP0 = 0x7F00
SLED = 64
R0 = 0xFE                   # initial R: bit 7 set and next to the 7-bit wrap


class _Null(io.StringIO):
    def write(self, s):
        return len(s)


# =========================================================================== loop level
def loop_image(row):
    """Memory image, stop address for one ACCELERATORS row."""
    name, code, offset, counter, inc, loop_time, r_inc, ear, ear_mask, polarity = row
    n = len(code)
    trailing_jp = code[-1] in (0xCA, 0xC2, 0xF2, 0xFA) and code[-2] not in (0x20, 0x28)
    end = LOOP + n + (2 if trailing_jp else 0)
    stop = end + SLED
    body = []
    i = 0
    while i < n:
        if isinstance(code[i], int):
            body.append(code[i])
            i += 1
            continue
        j = i
        while j < n and not isinstance(code[j], int):
            j += 1
        run = j - i
        if run == 1:
            body.append(0x7F)                               # LD A,n operand
        elif run == 2 and body and body[-1] in (0xCA, 0xD2):
            body += [stop & 255, stop >> 8]                 # JP cc,nn: the loop's exit
        else:
            body += [0xC3, stop & 255, stop >> 8] + [0] * (run - 3)     # time-out exit
        i = j
    if trailing_jp:
        body += [LOOP & 255, LOOP >> 8]
    mem = [0] * 65536
    mem[LOOP - 2:LOOP] = [0xDB, 0xFE]                       # IN A,($FE): starts the tape ("Data" announcement)
    mem[LOOP:LOOP + len(body)] = body
    mem[SP0] = stop & 255
    mem[SP0 + 1] = stop >> 8
    return mem, stop


def distances(loop_time, tier):
    """Distance (T-states) of the next tape edge from the moment the loop is entered."""
    ds = {k * loop_time + e for k in range(4) for e in (-1, 0, 1)}
    if tier != 'quick':
        ds |= set(range(-1, 2 * loop_time + 2))             # every alignment of the edge inside two loop periods
    return sorted(ds) + [FAR]


def loop_regs(row, v, ear_bit, carry):
    name, code, offset, counter, inc, loop_time, r_inc, ear, ear_mask, polarity = row
    r = [0] * 30
    r[0] = 0x5A
    r[1] = carry
    r[2], r[3], r[4], r[5], r[6], r[7] = 0x40, 0xFE, 0x40, 0x40, 0x40, 0x40
    if ear >= 0:
        r[ear] = ear_bit * ear_mask         # nothing but the EAR bit: 'diver' does AND $40 before XOR C
    r[counter] = v
    r[8], r[9], r[10], r[11] = 0x91, 0x00, 0x5C, 0x3A
    r[12] = SP0
    r[14] = 0x3F
    r[15] = R0
    r[24] = LOOP - 2
    r[25] = 0
    r[26] = 0
    r[27] = 1
    return r


LT_KEYS = ('accelerate_dec_a', 'accelerators', 'byte_fmt', 'fast_load', 'finish_tape', 'first_edge', 'in_min_addr',
           'list_accelerators', 'pause', 'polarity', 'prefix', 'stop', 'timeout', 'tracefile', 'trace_line', 'word_fmt')


def lt_config(stop, accelerators, dec_a=0, polarity=0, first_edge=0):
    cfg = dict.fromkeys(LT_KEYS)
    cfg.update(accelerate_dec_a=dec_a, accelerators=accelerators, fast_load=0, finish_tape=0, first_edge=first_edge,
               in_min_addr=0x8000, list_accelerators=0, pause=1, polarity=polarity, stop=stop, timeout=HORIZON_T)
    return cfg


class Rig:
    """One memory image with a reusable Python and C simulator."""
    def __init__(self, mem):
        import skoolkit
        from skoolkit.simulator import Simulator
        cfg = {'frame_duration': 69888, 'int_active': 32, 'fast_djnz': False, 'fast_ldir': False}
        self.mem = mem
        self.py = Simulator(list(mem), None, None, cfg)
        self.c = skoolkit.CSimulator(list(mem), None, None, cfg)
        self.py_dec_a = self.py.opcodes[0x3D]
        self.dirty = (SP0 - 4, SP0 + 2)

    def run(self, kind, regs, blocks, cfg):
        """Returns (registers 0..28, tape state) after LoadTracer.run."""
        from skoolkit.loadtracer import LoadTracer
        sim = self.py if kind == 'py' else self.c
        a, b = self.dirty
        for x in range(a, b):
            sim.memory[x] = self.mem[x]
        if kind == 'py':
            sim.registers[:] = regs
            sim.opcodes[0x3D] = self.py_dec_a
        else:
            sim.registers[:] = array.array('Q', regs)
        tracer = LoadTracer(sim, blocks, cfg, None)
        sim.set_tracer(tracer, True, False)
        with core.watchdog(20, 'LoadTracer.run'):
            tracer.run(0, 0, 0, [0] * 16, 0)
        st = tracer.state
        return tuple(int(x) for x in sim.registers[:29]), (int(st[0]), int(st[1]), int(st[2]), int(st[4]), int(st[5]), int(st[7]), tracer.block_index)


def pulse_block(durations):
    from skoolkit.tape import TapeBlock, TapeBlockTimings
    blk = TapeBlock(1, [], TapeBlockTimings(pulses=[(1, d) for d in durations]))
    blk.keys = None
    return blk


REGN = ('A', 'F', 'B', 'C', 'D', 'E', 'H', 'L', 'IXh', 'IXl', 'IYh', 'IYl', 'SP', 'SP2', 'I', 'R', "A'", "F'", "B'", "C'", "D'", "E'",
        "H'", "L'", 'PC', 'T', 'IFF', 'IM', 'HALT')
TAPEN = ('next_edge', 'edge_index', 'end_of_tape', 'tape_running', 'custom_loader', 'unannounced', 'block_index')


def describe(ref, got):
    out = []
    for i, n in enumerate(REGN):
        if ref[0][i] != got[0][i]:
            out.append('{}={} (reference {})'.format(n, got[0][i], ref[0][i]))
    for i, n in enumerate(TAPEN):
        if ref[1][i] != got[1][i]:
            out.append('tape.{}={} (reference {})'.format(n, got[1][i], ref[1][i]))
    return ', '.join(out)


def loop_case(rig, row, stop, v, dist, ear_bit, pol, carry, kinds=('py', 'c')):
    """Run one loop-level case four ways.  Returns (list of (sim, accel, description), info)."""
    from skoolkit.loadsample import Accelerator
    regs = loop_regs(row, v, ear_bit, carry & 1)
    # T after the tape-starting IN A,($FE) is first_edge + 11 = 11: that is when the loop is entered
    d0 = dist + 11
    blocks = [pulse_block([d0, FAR, FAR, FAR])]
    first_edge = 0
    if carry & 2:
        # interrupts enabled and the frame interrupt (IM 1, routine at 0x38 = RET) arrives about 300 T-states
        # after the loop is entered: a loop that samples the tape with interrupts on must not be fast-forwarded
        # past the interrupt
        first_edge = 69888 - 300 - 11
        regs[25] = first_edge
        regs[26] = 1
    results = {}
    for kind in kinds:
        for accel in (0, 1):
            if accel:
                accs = {Accelerator(*row)}
            else:
                accs = set()
            results[kind, accel] = (rig.run(kind, regs, blocks, lt_config(stop, accs, 0, pol, first_edge)), accs)
    k0 = kinds[0]
    ref = results[k0, 0][0]
    bad = []
    for (kind, accel), (res, accs) in results.items():
        if res != ref:
            bad.append((kind, accel, describe(ref, res)))
    hits = sum(a.hits for a in results[k0, 1][1])
    info = {'hits': hits, 'ref': ref}
    return bad, info


def loop_units(tier):
    """(row name, distance, ear bit, tape polarity, carry) in a fixed order; one unit = all 256 counter values."""
    from skoolkit.loadsample import ACCELERATORS
    for name in sorted(ACCELERATORS):
        row = ACCELERATORS[name]
        # EAR phase: for loops that compare the sample with a register bit, that bit (quick) and also the
        # tape polarity (thorough); for the polarity-sensitive loops (no EAR register) the tape polarity
        if row[7] < 0:
            phases = [(0, 0), (0, 1)]
        elif tier == 'quick':
            phases = [(0, 0), (1, 0)]
        else:
            phases = [(0, 0), (1, 0), (0, 1), (1, 1)]
        for dist in distances(row[5], tier):
            for ear_bit, pol in phases:
                for carry in (0, 1):
                    yield name, dist, ear_bit, pol, carry
        # interrupts enabled (carry field 2/3 = IFF 1 with carry 0/1): edge before / after the frame interrupt
        for dist in (2 * row[5], 500, 900):
            for ear_bit, pol in phases[:2]:
                yield name, dist, ear_bit, pol, 2


# A defect in the C simulator can be a memory-safety error that kills the process.  Loop-level work
# therefore runs in a forked child that streams one Stats object per unit back to the shard worker;
# if the child dies, the unit it was working on is re-run one counter value per child to name the
# crashing inputs, and a new child continues with the next unit.
def isolated(fn, *args):
    """Run fn(*args) in a forked child.  Returns ('ok', result) or ('signal', n) / ('exit', n)."""
    import pickle
    r, w = os.pipe()
    pid = os.fork()
    if pid == 0:
        code = 0
        try:
            os.close(r)
            with os.fdopen(w, 'wb') as f:
                pickle.dump(fn(*args), f)
        except BaseException:
            code = 3
        finally:
            os._exit(code)
    os.close(w)
    with os.fdopen(r, 'rb') as f:
        data = f.read()
    _, status = os.waitpid(pid, 0)
    if os.WIFSIGNALED(status):
        return 'signal', os.WTERMSIG(status)
    if os.WEXITSTATUS(status) or not data:
        return 'exit', os.WEXITSTATUS(status)
    return 'ok', pickle.loads(data)


def stream_units(units, fn):
    """Yield (index, 'ok', result) / (index, 'signal', n) for every unit, computing in forked children."""
    import pickle
    start = 0
    while start < len(units):
        r, w = os.pipe()
        pid = os.fork()
        if pid == 0:
            code = 0
            try:
                os.close(r)
                with os.fdopen(w, 'wb') as f:
                    for idx in range(start, len(units)):
                        pickle.dump((idx, fn(units[idx])), f)
                        f.flush()
            except BaseException:
                import traceback
                traceback.print_exc(file=sys.__stderr__)
                code = 3
            finally:
                os._exit(code)
        os.close(w)
        done = start
        with os.fdopen(r, 'rb') as f:
            while True:
                try:
                    idx, res = pickle.load(f)
                except EOFError:
                    break
                yield idx, 'ok', res
                done = idx + 1
        _, status = os.waitpid(pid, 0)
        if done >= len(units):
            break
        if os.WIFSIGNALED(status):
            yield done, 'signal', os.WTERMSIG(status)
        else:
            yield done, 'exit', os.WEXITSTATUS(status)
        start = done + 1


_rigs = {}


def _rig_for(name):
    from skoolkit.loadsample import ACCELERATORS
    if name not in _rigs:
        _rigs.clear()
        mem, stop = loop_image(ACCELERATORS[name])
        mem[0x38] = 0xC9            # IM 1 interrupt routine: RET
        _rigs[name] = (Rig(mem), stop)
    return _rigs[name]


def loop_violations(name, v, dist, ear_bit, pol, carry, kinds=('py', 'c')):
    """One counter value: list of (sim, accel, description) plus info."""
    from skoolkit.loadsample import ACCELERATORS
    row = ACCELERATORS[name]
    rig, stop = _rig_for(name)
    bad, info = loop_case(rig, row, stop, v, dist, ear_bit, pol, carry, kinds)
    ref = info['ref']
    if ref[0][24] != stop:
        bad = bad + [('py', 0, 'run did not reach the stop address within {} T-states (PC={})'.format(HORIZON_T, ref[0][24]))]
    return bad, info


def _record(stats, unit, v, kind, accel, desc, order):
    name, dist, ear_bit, pol, carry = unit
    stats.violation('loop/{}/counter={},dist={},ear={},pol={},cy={}/{}{}'.format(name, v, dist, ear_bit, pol, carry, kind, '+acc' if accel else ''),
                    {'level': 'loop', 'acc': name, 'counter': v, 'dist': dist, 'ear': ear_bit, 'pol': pol, 'carry': carry},
                    '{} simulator, accelerators={}: {}'.format('Python' if kind == 'py' else 'C', '{' + name + '}' if accel else '{}', desc),
                    tags={'level': 'loop', 'acc': name, 'sim': kind, 'accelerated': accel, 'counter': v, 'dist': dist,
                          'fields': sorted({x.split('=')[0] for x in desc.split(', ')}) if '=' in desc else ['crash']}, order=order)


def loop_unit(arg):
    """All 256 counter values of one unit -> a fresh Stats."""
    from skoolkit.loadsample import ACCELERATORS
    i, unit, kinds = arg
    name, dist, ear_bit, pol, carry = unit
    row = ACCELERATORS[name]
    stats = core.Stats(PROPERTY)
    fired = 0
    for v in range(256):
        bad, info = loop_violations(name, v, dist, ear_bit, pol, carry, kinds)
        stats.evaluations += 1
        stats.transitions += 2 * len(kinds)
        stats.traces += 1
        ref = info['ref']
        stats.state((name, ref[0][24], ref[0][row[3]], ref[0][25] - 11, ref[1][1]))
        if info['hits']:
            stats.counters['acc_' + name] += 1
            fired += 1
        for kind, accel, desc in bad:
            _record(stats, unit, v, kind, accel, desc, i * 256 + v)
    if fired:
        stats.nontriv(unit)
    if i % 211 == 0:
        stats.sample({'level': 'loop', 'accelerator': name, 'next_edge_distance': dist, 'ear_bit': ear_bit, 'tape_polarity': pol,
                      'carry': carry, 'counters': '0..255', 'counter_values_with_signature_match': fired})
    return stats


def _loop_shard(stats, shard, nshards, tier):
    units = [(i, u, ('py', 'c')) for i, u in core.shard_iter(loop_units(tier), shard, nshards)]
    for idx, status, res in stream_units(units, loop_unit):
        if status == 'ok':
            stats.merge(res)
            continue
        # the child died inside units[idx]: keep the Python verdicts and find the counter values that kill
        # the C simulator (one child walks the 256 values; it is replaced each time it dies)
        i, unit, _ = units[idx]
        stats.counters['c_simulator_crashes'] += 1
        _rig_for(unit[0])           # built here so that the forked children inherit it
        st2, py = isolated(loop_unit, (i, unit, ('py',)))
        if st2 == 'ok':
            stats.merge(py)
        for v, st3, r3 in stream_units([(unit, v) for v in range(256)], _c_only):
            if st3 != 'ok':
                _record(stats, unit, v, 'c', 1, 'process killed by {} {} while running the C simulator'.format(st3, r3), i * 256 + v)
            else:
                for kind, accel, desc in r3:
                    _record(stats, unit, v, kind, accel, desc, i * 256 + v)


def _c_only(arg):
    unit, v = arg
    return loop_violations(unit[0], v, unit[1], unit[2], unit[3], unit[4], ('c',))[0]


# --------------------------------------------------------------------------- DEC A loops
DEC_A = 0x8100


def dec_a_image(form):
    mem = [0] * 65536
    if form == 'jr':
        code = [0x3D, 0x20, 0xFD]
    else:
        code = [0x3D, 0xC2, DEC_A & 255, DEC_A >> 8]
    mem[DEC_A:DEC_A + len(code)] = code
    stop = DEC_A + len(code) + 8
    mem[0x38] = 0xC9            # IM 1 interrupt routine: RET (leaves interrupts disabled)
    return mem, stop


def dec_a_case(rig, stop, a, carry, iff):
    regs = [0] * 30
    regs[0] = a
    regs[1] = carry | 0x80
    regs[2], regs[3] = 0x12, 0x34
    regs[12] = SP0
    regs[14] = 0x3F
    regs[15] = R0
    regs[24] = DEC_A
    regs[25] = 69888 - 700 if iff else 0          # with IFF=1 the frame interrupt arrives inside the loop for A >= 44
    regs[26] = iff
    regs[27] = 1
    blocks = [pulse_block([FAR, FAR])]
    cfg0 = lt_config(stop, set(), 0)
    cfg0['timeout'] = regs[25] + HORIZON_T
    ref = rig.run('py', regs, blocks, cfg0)
    bad = []
    for dec_a in (0, 1, 2, 3):
        for kind in ('py', 'c'):
            if (kind, dec_a) == ('py', 0):
                continue
            cfg = lt_config(stop, set(), dec_a)
            cfg['timeout'] = regs[25] + HORIZON_T
            res = rig.run(kind, regs, blocks, cfg)
            if res != ref:
                bad.append((kind, dec_a, describe(ref, res)))
    return bad, ref


def dec_a_cases():
    for form in ('jr', 'jp'):
        for iff in (0, 1):
            for carry in (0, 1):
                yield form, iff, carry


def _dec_a_shard(stats, shard, nshards):
    for i, (form, iff, carry) in core.shard_iter(dec_a_cases(), shard, nshards):
        mem, stop = dec_a_image(form)
        rig = Rig(mem)
        for a in range(256):
            bad, ref = dec_a_case(rig, stop, a, carry, iff)
            stats.evaluations += 1
            stats.transitions += 8
            stats.traces += 1
            stats.state(('dec-a', form, iff, ref[0][25], ref[0][15]))
            stats.nontriv(('dec-a', form, iff, carry, a))
            stats.counters['dec_a_' + form] += 1
            if ref[0][24] != stop:
                bad = bad + [('py', 0, 'run did not reach the stop address (PC={})'.format(ref[0][24]))]
            if iff and ref[0][26] == 0:
                stats.counters['dec_a_interrupt_inside_loop'] += 1
            for kind, dec_a, desc in bad:
                stats.violation('dec-a/{}/a={},cy={},iff={}/{}+dec-a={}'.format(form, a, carry, iff, kind, dec_a),
                                {'level': 'dec-a', 'form': form, 'a': a, 'carry': carry, 'iff': iff},
                                '{} simulator, accelerate-dec-a={}: {}'.format('Python' if kind == 'py' else 'C', dec_a, desc),
                                tags={'level': 'dec-a', 'form': form, 'sim': kind, 'dec_a': dec_a, 'iff': iff, 'a': a,
                                      'fields': sorted({x.split('=')[0] for x in desc.split(', ')})}, order=10 ** 9 + i * 256 + a)
    return stats


# =========================================================================== tape level
# --- a turbo-loading tape: the ROM's LD-BYTES (0x0556-0x0604) relocated to RAM
RELOC = 0xFD00
ENTRY = 0xFC00
TURBO_DEST = 0x9000


def relocated_loader(seed):
    """(program bytes from ENTRY, stop address, payload bytes): a stub that calls a RAM copy of LD-BYTES.

    The copy is position-patched from the ROM image (its two absolute CALL targets LD-EDGE-1 / LD-EDGE-2
    and the JP/JR targets inside 0x0556-0x0604 are re-based), so its sampling loop is the 'rom'
    signature at a RAM address - a custom loader as far as tap2sna is concerned."""
    from skoolkit import read_bin_file
    from skoolkit.tap2sna import ROM48
    rom = read_bin_file(ROM48, 16384)
    lo, hi = 0x0556, 0x0605
    code = list(rom[lo:hi])
    # absolute operands that point inside the routine: CALL/JP nn, JP cc,nn
    from ..refs import z80ref
    img = list(rom) + [0] * 49152
    pc = lo
    while pc < hi:
        d = z80ref.decode(img, pc)
        op = img[pc]
        if d.length == 3 and (op in (0xC3, 0xCD) or op & 0xC7 in (0xC2, 0xC4)):
            target = img[pc + 1] + 256 * img[pc + 2]
            if lo <= target < hi:
                t = target - lo + RELOC
                code[pc - lo + 1] = t & 255
                code[pc - lo + 2] = t >> 8
        pc += d.length
    payload = bytes(c12.tag(a, seed + 1) for a in range(TURBO_DEST, TURBO_DEST + 48))
    done = ENTRY + 20
    stub = [
        0xF3,                                           # DI
        0xDD, 0x21, TURBO_DEST & 255, TURBO_DEST >> 8,  # LD IX,dest
        0x11, len(payload), 0x00,                       # LD DE,len
        0x3E, 0xFF,                                     # LD A,$FF
        0x37,                                           # SCF
        0xCD, RELOC & 255, RELOC >> 8,                  # CALL LD-BYTES (RAM copy)
        0xC3, done & 255, done >> 8,                    # JP done
    ]
    stub += [0] * (done - ENTRY - len(stub))
    prog = stub + [0] * (RELOC - ENTRY - len(stub)) + code
    return bytes(prog), done, payload


def tzx_from_tap(tap, extra_blocks, last_pause=1000):
    """last_pause: pause (ms) after the last block of the TAP file (the others get the usual 1000)."""
    out = bytearray(b'ZXTape!\x1a\x01\x14')
    i = 0
    while i < len(tap):
        n = tap[i] + 256 * tap[i + 1]
        ms = 1000 if i + 2 + n < len(tap) else last_pause
        out += bytes((0x10, ms & 255, ms >> 8, n & 255, n >> 8)) + tap[i + 2:i + 2 + n]
        i += 2 + n
    for b in extra_blocks:
        out += b
    return bytes(out)


def turbo_block(payload, pilot=2100, sync1=650, sync2=720, zero=800, one=1600, npilot=3600):
    data = bytes([0xFF]) + payload
    p = 0
    for b in data:
        p ^= b
    data += bytes([p])
    w = lambda v: bytes((v & 255, v >> 8))
    return bytes([0x11]) + w(pilot) + w(sync1) + w(sync2) + w(zero) + w(one) + w(npilot) + bytes([8]) + w(1000) + \
        bytes((len(data) & 255, (len(data) >> 8) & 255, len(data) >> 16)) + data


TAPES = ('k48', 'k48clear', 'turbo', 'k128')

# --------------------------------------------------------------------------- dawdle tapes
# A multi-block tape whose loader program waits between blocks: bin2tap's BASIC loader and code block (the
# program below), then a short headerless block with ROM timings that the program loads with CALL $0556
# after the wait, then a block that is never loaded (so that the loaded block is not the last on the tape).
# tap2sna keeps its clock on the tape's time line: when a block is fast-loaded the clock is set to the
# block's last edge, and when a paused tape is resumed by the first port read to the block's first edge, so
# a program that waited less / more than the block (or the gap before it) lasts makes the clock jump
# forwards / backwards.
FRAME = 69888
DW_ORG = 0x8000
DW_DEST = 0x9000
DW_GAP_MS = 100             # pause between the code block and the headerless block
DW_NPILOT = 2200            # pilot pulses of the headerless block (LD-BYTES waits about a second after the first edge, then needs 256 pulses)
DW_INNER = 2687             # inner delay loop count: one outer iteration = 26 * 2687 + 31 = 69893 T-states, a frame
DW_AFTER = 9400             # delay loop after the load: 26 * 9400 T-states, 3.5 frames


def dawdle_payload(seed):
    return bytes(c12.tag(a, seed + 2) for a in range(DW_DEST, DW_DEST + 16))


def dawdle_block_frames(seed):
    """Duration in frames of the gap plus the headerless block (pilot, sync, flag + data + parity bits),
    from the ROM timings: what the program has to wait for the fast-load clock jump to be about zero."""
    data = bytes([0xFF]) + dawdle_payload(seed)
    par = 0
    for b in data:
        par ^= b
    ones = sum(bin(b).count('1') for b in data + bytes([par]))
    bits = 8 * (len(data) + 1)
    t = DW_GAP_MS * 3500 + DW_NPILOT * 2168 + 667 + 735 + 2 * (ones * 1710 + (bits - ones) * 855)
    return (t + FRAME // 2) // FRAME


def dawdle_waits(tier, seed):
    """Waits in frames: none, half the block, every frame count from just under to about the block (the
    BASIC loader's own time and the delay loop's overhead make the clock jump cross zero one to three frames
    below D, so that these give a jump forwards by under a frame, backwards by under a frame and backwards by
    one to three frames - measured, see the dw_fast_load_clock_jump_* guards), just over, far over."""
    D = dawdle_block_frames(seed)
    if tier == 'quick':
        return [0, D // 2, D - 3, D - 2, D - 1, D, D + 3, D + 40]
    return [0, 1, D // 2, D - 5, D - 4, D - 3, D - 2, D - 1, D, D + 1, D + 3, D + 10, D + 40, 2 * D]


def dawdle_names(tier, seed):
    return ['dw-{}-{}-{}'.format(pre, post, k) for k in dawdle_waits(tier, seed) for pre in ('ei', 'di') for post in ('ei', 'di')]


def dawdle_program(pre, post, k, npayload):
    """(program bytes at DW_ORG, stop address)."""
    p = [0xFB if pre == 'ei' else 0xF3]                         # EI / DI for the duration of the wait
    if k:
        p += [0x11, k & 255, k >> 8]                            #      LD DE,k
        p += [0x01, DW_INNER & 255, DW_INNER >> 8]              # L1   LD BC,inner
        p += [0x0B, 0x78, 0xB1, 0x20, 0xFB]                     # L2   DEC BC / LD A,B / OR C / JR NZ,L2
        p += [0x1B, 0x7A, 0xB3, 0x20, 0xF3]                     #      DEC DE / LD A,D / OR E / JR NZ,L1
    p += [0xDD, 0x21, DW_DEST & 255, DW_DEST >> 8]              #      LD IX,dest
    p += [0x11, npayload, 0x00]                                 #      LD DE,len
    p += [0x3E, 0xFF, 0x37]                                     #      LD A,$FF / SCF
    p += [0xCD, 0x56, 0x05]                                     #      CALL $0556 (LD-BYTES; returns with interrupts enabled)
    p += [0xFB if post == 'ei' else 0xF3]                       #      EI / DI for the run after the load
    p += [0x01, DW_AFTER & 255, DW_AFTER >> 8]                  #      LD BC,after
    p += [0x0B, 0x78, 0xB1, 0x20, 0xFB]                         # L3   DEC BC / LD A,B / OR C / JR NZ,L3
    return bytes(p), DW_ORG + len(p)


def build_dawdle(name, seed, d):
    _, pre, post, k = name.split('-')
    k = int(k)
    payload = dawdle_payload(seed)
    prog, done = dawdle_program(pre, post, k, len(payload))
    binf = tools.write_file(name + '.bin', prog + bytes(8), d)
    tap = os.path.join(d, name + '.tap')
    r = tools.run_tool('bin2tap', ['-o', DW_ORG, '-c', DW_ORG - 1, '-s', DW_ORG, binf, tap])
    if r.rc:
        raise RuntimeError('bin2tap failed for the dawdle tape: {}'.format(r))
    rom = dict(pilot=2168, sync1=667, sync2=735, zero=855, one=1710, npilot=DW_NPILOT)
    tzx = tools.write_file(name + '.tzx', tzx_from_tap(tools.read_file(tap), [turbo_block(payload, **rom), turbo_block(b'\x01\x02\x03', **rom)],
                                                       last_pause=DW_GAP_MS), d)
    return dict(tape=tzx, start=done, plan=None, machine='48', seed=seed, dawdle=(pre, post, k),
                regions=[('headerless block', DW_DEST - 16384, payload, None), ('loader program', DW_ORG - 16384, prog, None)])


def build_tape(name, seed, d):
    """Returns dict(tape=path, start=address tap2sna must stop at, plan=C12 plan or None, machine, seed, ...)."""
    if name.startswith('dw-'):
        return build_dawdle(name, seed, d)
    if name.startswith('st-'):
        return build_stack(name, seed, d)
    if name in ('k48', 'k48clear', 'k128'):
        if name == 'k48':
            cfg = dict(c12.DEF48, length=256, stack='end+2')
        elif name == 'k48clear':
            cfg = dict(c12.DEF48, length=15, clear='begin-1', fmt='pzx', start='last')
        else:
            cfg = dict(c12.DEF128, end='begin+15', banks='3')
        plan, why = c12.resolve(cfg)
        r, tape, bargs = c12.build_tape(plan, seed, d, stem=name)
        if r.rc:
            raise RuntimeError('bin2tap failed for C13 base tape {}: {}'.format(name, r))
        return dict(tape=tape, start=plan['eff_start'], plan=plan, machine=plan['machine'], seed=seed)
    prog, done, payload = relocated_loader(seed)
    binf = tools.write_file('turbo.bin', prog, d)
    tap = os.path.join(d, 'turbo.tap')
    r = tools.run_tool('bin2tap', ['-o', ENTRY, '-c', 0x8FFF, '-s', ENTRY, binf, tap])
    if r.rc:
        raise RuntimeError('bin2tap failed for the turbo tape: {}'.format(r))
    tzx = tools.write_file('turbo.tzx', tzx_from_tap(tools.read_file(tap), [turbo_block(payload)]), d)
    return dict(tape=tzx, start=done, plan=None, machine='48', seed=seed, payload=payload, prog=prog)


OPT_DEFAULT = dict(accelerator='auto', dec_a=3, pause=1, fast_load=1, cmio=0, python=0, polarity=0, first_edge=0)
OPT_ALTS = dict(accelerator=['none', 'rom', 'speedlock', 'alkatraz,rom'], dec_a=[0, 1, 2], pause=[0], fast_load=[0], cmio=[1], python=[1],
                polarity=[1], first_edge=[1000])
# --------------------------------------------------------------------------- stack tapes
# bin2tap's BASIC loader and code block (the machine-code loader below), then one ordinary headerless block
# that the loader reads with LD-BYTES to a place chosen relative to the machine stack.  ST_SP is the stack
# pointer on entry to LD-BYTES ($0556): the CALL's return address lies at ST_SP / ST_SP+1, the ROM pushes
# $053F (SA/LD-RET) at ST_SP-2 / ST_SP-1 before it reads anything, and its calls of LD-EDGE-2 (return address
# $05CD at ST_SP-4) and, from there, LD-EDGE-1 ($05E6 at ST_SP-6) use ST_SP-6 .. ST_SP-3 while the bytes come in.  A block that covers ST_SP-2 / ST_SP-1 therefore replaces the pushed word
# and LD-BYTES returns into what was loaded - the classic "load over the stack" autostart trick.
ST_ORG = 0x8000
ST_SP = 0x9000
ST_VIA = 0x803F             # where RET lands when only the high byte of the pushed $053F is replaced (by $80)
ST_DONE = 0x8054            # stop address; every word of the block that can be popped holds it
ST_LEN = 16
# name -> address of the first byte of the block relative to ST_SP
ST_POS = {
    'below': -32,           # nowhere near the stack
    'to_sp-7': -6 - ST_LEN,     # last byte just below the two slots LD-BYTES' own calls use
    'to_sp-5': -4 - ST_LEN,     # last byte at SP-5: covers the lower slot
    'to_sp-3': -2 - ST_LEN,     # last byte at SP-3: covers both slots, ends below the pushed $053F
    'to_sp-2': -1 - ST_LEN,     # last byte at SP-2: replaces the low byte of the pushed word ($0554: POP AF / RET)
    'to_sp-1': -ST_LEN,         # last byte at SP-1: replaces the pushed word
    'over': -8,                 # covers LD-BYTES' whole frame, the caller's return address and beyond
    'from_sp-2': -2,            # first byte at SP-2
    'from_sp-1': -1,            # first byte at SP-1: replaces the high byte of the pushed word only
    'from_sp': 0,               # first byte at SP: the caller's return address and beyond, not the pushed word
}
ST_ALTS = dict(fast_load=[0], python=[1], accelerator=['none'])


def stack_names():
    return ['st-' + p for p in ST_POS]


def stack_payload(pos, seed):
    a0 = ST_SP + ST_POS[pos]
    out = []
    for a in range(a0, a0 + ST_LEN):
        if a in (ST_SP - 2, ST_SP, ST_SP + 2):
            out.append(ST_DONE & 255)
        elif a in (ST_SP - 1, ST_SP + 1, ST_SP + 3):
            out.append(ST_DONE >> 8)
        else:
            out.append(c12.tag(a, seed + 3))
    return a0, bytes(out)


def stack_program(a0):
    p = [0x31, (ST_SP + 4) & 255, (ST_SP + 4) >> 8]             # 8000 LD SP,ST_SP+4
    p += [0x21, ST_DONE & 255, ST_DONE >> 8, 0xE5]              # 8003 LD HL,DONE / PUSH HL   (the word above the return address)
    p += [0xDD, 0x21, a0 & 255, a0 >> 8]                        # 8007 LD IX,a0
    p += [0x11, ST_LEN, 0x00, 0x3E, 0xFF, 0x37]                 # 800B LD DE,len / LD A,$FF / SCF
    p += [0xCD, 0x56, 0x05]                                     # 8011 CALL $0556             (SP = ST_SP on entry)
    p += [0xC3, ST_DONE & 255, ST_DONE >> 8]                    # 8014 JP DONE
    p += [0] * (ST_VIA - ST_ORG - len(p))
    p += [0xC3, ST_DONE & 255, ST_DONE >> 8]                    # 803F JP DONE
    p += [0] * (ST_DONE - ST_ORG - len(p))
    p += [0] * 4                                                # 8054 DONE
    return bytes(p)


def build_stack(name, seed, d):
    pos = name[3:]
    a0, payload = stack_payload(pos, seed)
    prog = stack_program(a0)
    binf = tools.write_file(name + '.bin', prog, d)
    tap = os.path.join(d, name + '.tap')
    r = tools.run_tool('bin2tap', ['-o', ST_ORG, '-c', ST_ORG - 1, '-s', ST_ORG, binf, tap])
    if r.rc:
        raise RuntimeError('bin2tap failed for the stack tape: {}'.format(r))
    data = bytes([0xFF]) + payload
    par = 0
    for b in data:
        par ^= b
    data += bytes([par])
    tape = tools.write_file(name + '-full.tap', tools.read_file(tap) + bytes((len(data) & 255, len(data) >> 8)) + data, d)
    # ST_SP-6 .. ST_SP-3 is where the ROM's own CALLs of LD-EDGE-2 / LD-EDGE-1 put their return addresses after a byte
    # stored there has been read: stack residue on a real machine, i.e. scratch state that fast loading may change
    idx = [i for i in range(ST_LEN) if not ST_SP - 6 <= a0 + i <= ST_SP - 3]
    return dict(tape=tape, start=ST_DONE, plan=None, machine='48', seed=seed, stackpos=pos,
                regions=[('headerless block', a0 - 16384, payload, idx), ('loader program', ST_ORG - 16384, prog, None)])


# dawdle tapes: python x fast-load x accelerator x cmio.  pause=0 is outside "any tape that loads" (a loader
# that is not listening when the next block begins only loads from a tape that waits for it), and nothing on
# these tapes depends on accelerate-dec-a, polarity or first-edge beyond what the other tapes show
DW_ALTS = dict(accelerator=['none'], fast_load=[0], cmio=[1], python=[1])
NEUTRAL = ('accelerator', 'dec_a', 'pause', 'python')       # must not change anything at all
SCRATCH = ('fast_load', 'cmio', 'polarity', 'first_edge')   # may change scratch state only
OPT_NAMES = dict(accelerator='accelerator', dec_a='accelerate-dec-a', pause='pause', fast_load='fast-load', cmio='cmio', python='python',
                 polarity='polarity', first_edge='first-edge')
SNAP_FIELDS = ('a', 'f', 'bc', 'de', 'hl', 'a2', 'f2', 'bc2', 'de2', 'hl2', 'ix', 'iy', 'sp', 'i', 'r', 'pc', 'border', 'iff1', 'iff2', 'im',
               'tstates', 'out7ffd', 'outfffd', 'outfe')


def opt_args(o):
    a = []
    for k, v in o.items():
        if v != OPT_DEFAULT[k]:
            a += ['-c', '{}={}'.format(OPT_NAMES[k], v)]
    return a


def optid(o):
    return ','.join('{}={}'.format(k, v) for k, v in o.items() if v != OPT_DEFAULT[k]) or 'default'


def load_tape(t, o, d):
    """tap2sna.main on tape t with options o.  Returns (snapshot dict or None, stdout / message, argv)."""
    import skoolkit.tap2sna as t2s
    from skoolkit.snapshot import Snapshot
    out = os.path.join(d, 'o.szx')
    if os.path.exists(out):
        os.remove(out)
    a = ['--start', t['start'], '-c', 'timeout=600']
    if t['machine'] == '128':
        a += ['-c', 'machine=128']
    a += opt_args(o) + [t['tape'], out]
    jumps = []
    spy_fl = 'dawdle' in t and o['python'] and o['fast_load']
    if spy_fl:
        # vacuity evidence only: how far the clock jumps when the Python LoadTracer fast-loads a non-final block
        from skoolkit.loadtracer import LoadTracer
        orig_fl = LoadTracer.fast_load

        def fl(self, simulator):
            t0 = int(simulator.registers[25])
            ok = orig_fl(self, simulator)
            if ok and self.state[3] < self.max_index:
                jumps.append(self.edges[self.state[3]] - t0)
            return ok
        LoadTracer.fast_load = fl
    # tap2sna does not store the simulator's clock in the snapshot (get_state(simulator, False)); the
    # property speaks of the T-state position, so it is read off the simulator by a harness-side wrapper
    cap = {}
    orig = t2s.get_state

    def spy(simulator, *args):
        cap['T'] = int(simulator.registers[25])
        return orig(simulator, *args)
    t2s.get_state = spy
    try:
        with core.watchdog(1200, 'tap2sna ' + ' '.join(str(x) for x in a)):
            r = tools.run_tool('tap2sna', a)
    finally:
        t2s.get_state = orig
        if spy_fl:
            LoadTracer.fast_load = orig_fl
    if r.rc or not os.path.isfile(out):
        return None, 'tap2sna failed: {} {}'.format(r.exc, r.err[-200:]), a
    s = Snapshot.get(out)
    snap = {f: getattr(s, f) for f in SNAP_FIELDS}
    snap['memptr'] = s.memptr
    snap['ay'] = tuple(s.ay)
    snap['simulator_T'] = cap.get('T')
    snap['ram'] = bytes(s.ram(-1))
    snap['stopped_at_start'] = 'Simulation stopped (PC at start address)' in r.out
    if jumps:
        snap['clock_jump'] = jumps[-1]      # the headerless block's (never a key of a reference snapshot: not compared)
    return snap, r.out, a


def loaded_regions(t):
    """[(what, offset into ram(-1), expected bytes, indexes to compare or None)] - the bytes that come
    from the tape's data blocks."""
    if 'regions' in t:
        return t['regions']
    if t['plan'] is None:
        return [('turbo block', TURBO_DEST - 16384, t['payload'], None), ('relocated loader', ENTRY - 16384, t['prog'], None)]
    plan = t['plan']
    out = []
    for what, bank, base, want, exempt in c12.expected_memory(plan, t['seed']):
        if bank is None:
            if plan['machine'] == '48':
                off = base - 16384
            else:
                off = (5 if base < 32768 else 2) * 16384 + (base & 0x3FFF)
            out.append((what, off, want, [i for i in range(len(want)) if base + i not in exempt]))
        else:
            out.append((what, bank * 16384, want, None))
    return out


def full_product():
    import itertools
    names = list(OPT_DEFAULT)
    vals = [[OPT_DEFAULT[n]] + OPT_ALTS[n] for n in names]
    for combo in itertools.product(*vals):
        o = dict(zip(names, combo))
        yield sum(1 for n in names if o[n] != OPT_DEFAULT[n]), o


def tape_plan(tier, seed=0):
    """[(tape name, deviation bound)]"""
    if tier == 'quick':
        return [(t, 2) for t in ('k48', 'k48clear', 'turbo', 'k128')] + [(t, 2) for t in dawdle_names(tier, seed)] + [(t, 2) for t in stack_names()]
    return [('turbo', 8), ('k48', 3), ('k48clear', 2), ('k128', 2)] + [(t, 4) for t in dawdle_names(tier, seed)] + [(t, 3) for t in stack_names()]


def tape_configs(d, tname=''):
    if tname.startswith('dw-'):
        return [o for k, o in core.deviations(OPT_DEFAULT, DW_ALTS, d)]
    if tname.startswith('st-'):
        return [o for k, o in core.deviations(OPT_DEFAULT, ST_ALTS, d)]
    if d >= len(OPT_DEFAULT):
        return [o for k, o in sorted(full_product(), key=lambda x: x[0])]
    return [o for k, o in core.deviations(OPT_DEFAULT, OPT_ALTS, d)]


def tape_work(tier, seed=0):
    """Work items (tape, reference options, options to compare with it): configurations are grouped by
    the options that may legitimately change scratch state; the group's member with default
    accelerator / dec-a / pause / python is its reference.  Big groups are cut into chunks."""
    work = []
    for tname, d in tape_plan(tier, seed):
        groups = {}
        for o in tape_configs(d, tname):
            groups.setdefault(tuple(o[k] for k in SCRATCH), []).append(o)
        for key, members in groups.items():
            ref = dict(OPT_DEFAULT, **dict(zip(SCRATCH, key)))
            rest = [o for o in members if o != ref]
            if ref not in members:
                members = [ref] + members
            if not rest:
                work.append((tname, ref, [], True))
            for j in range(0, len(rest), 5):
                work.append((tname, ref, rest[j:j + 5], j == 0))
    return work


def cmp_full(ref, got):
    out = []
    for k in ref:
        if k == 'stopped_at_start':
            continue
        if k == 'ram':
            if ref[k] != got[k]:
                bad = [i for i in range(len(ref[k])) if ref[k][i] != got[k][i]]
                out.append('ram differs in {} byte(s), first at offset {} ({} / reference {})'.format(len(bad), bad[0], got[k][bad[0]], ref[k][bad[0]]))
        elif ref[k] != got[k]:
            out.append('{}={} (reference {})'.format(k, got[k], ref[k]))
    return out


def check_loaded(t, snap, base):
    out = []
    if not snap['stopped_at_start']:
        out.append('did not stop at the start address')
    if snap['pc'] != t['start']:
        out.append('PC={} expected {}'.format(snap['pc'], t['start']))
    if base is not None and snap['sp'] != base['sp']:
        out.append('SP={} but {} under the default configuration'.format(snap['sp'], base['sp']))
    for what, off, want, idx in loaded_regions(t):
        got = snap['ram'][off:off + len(want)]
        bad = [i for i in (idx if idx is not None else range(len(want))) if got[i] != want[i]]
        if bad:
            out.append('{}: {} loaded byte(s) differ, first at offset {}'.format(what, len(bad), off + bad[0]))
    return out


def run_item(tname, ref_o, others, seed, stats=None, check_ref=True):
    """Returns list of (options, kind, details)."""
    d = tools.workdir()
    t = build_tape(tname, seed, d)
    bad = []

    def load(o):
        snap, msg, argv = load_tape(t, o, d)
        if stats is not None:
            stats.transitions += 1
            stats.counters['tape_' + tname.split('-')[0]] += 1
            if 'stackpos' in t:
                stats.counters['st_block_' + t['stackpos']] += 1
            if 'dawdle' in t:
                pre, post, k = t['dawdle']
                stats.counters['dw_wait_{}_after_{}'.format(pre, post)] += 1
                if snap is not None and 'clock_jump' in snap:
                    j = snap['clock_jump']
                    stats.counters['dw_fast_load_clock_jump_' + ('forwards' if j > 0 else 'backwards_within_a_frame' if j > -FRAME else
                                                                 'backwards_beyond_a_frame')] += 1
            for k in o:
                if o[k] != OPT_DEFAULT[k]:
                    stats.counters['opt_{}'.format(k)] += 1
            if snap is not None:
                stats.state((tname, snap['simulator_T'], snap['r'], snap['pc'], snap['sp'], core.h64(snap['ram'])))
        if snap is None:
            bad.append((o, 'load', [msg]))
        return snap
    base = load(OPT_DEFAULT)        # gives the SP every configuration must end with
    if base is None:
        return bad
    ref = base if ref_o == OPT_DEFAULT else load(ref_o)
    todo = list(others)
    if check_ref:
        det = [] if ref is None else check_loaded(t, ref, base)
        if det:
            bad.append((ref_o, 'loaded-data', det))
        if stats is not None:
            stats.evaluations += 1
            stats.traces += 1
            stats.nontriv((tname, optid(ref_o)))
    for o in todo:
        snap = load(o)
        if stats is not None:
            stats.evaluations += 1
            stats.traces += 1
            stats.nontriv((tname, optid(o)))
        if snap is None:
            continue
        det = check_loaded(t, snap, base)
        if det:
            bad.append((o, 'loaded-data', det))
        if ref is not None:
            det = cmp_full(ref, snap)
            if det:
                bad.append((o, 'neutral-option', ['differs from {}: {}'.format(optid(ref_o), x) for x in det]))
    return bad


def _tape_shard(stats, shard, nshards, tier, seed):
    for i, (tname, ref_o, others, first) in core.shard_iter(tape_work(tier, seed), shard, nshards):
        for o, kind, det in run_item(tname, ref_o, others, seed, stats, first):
            tags = {'level': 'tape', 'tape': tname, 'kind': kind, 'fields': sorted({x.split(': ')[-1].split('=')[0].split(' ')[0] for x in det})}
            tags.update(o)
            stats.violation('tape/{}/{}'.format(tname, optid(o)), {'level': 'tape', 'tape': tname, 'ref': ref_o, 'opts': o, 'seed': seed},
                            '; '.join(det[:4]), tags=tags, order=2 * 10 ** 9 + i)
        if i % 9 == 0:
            stats.sample({'level': 'tape', 'tape': tname, 'reference': optid(ref_o), 'compared': [optid(o) for o in others]})
    return stats


# =========================================================================== driver
def _shard(shard, nshards, tier, seed):
    stats = core.Stats(PROPERTY)
    old = sys.stdout
    sys.stdout = _Null()
    try:
        _loop_shard(stats, shard, nshards, tier)
        _dec_a_shard(stats, shard, nshards)
    finally:
        sys.stdout = old
    _tape_shard(stats, shard, nshards, tier, seed)
    return stats


def run(tier, seed):
    from skoolkit.loadsample import ACCELERATORS
    stats = core.run_shards(_shard, tier, seed, prop=PROPERTY)
    meta = dict(
        rule='loop level: each of the {} ACCELERATORS rows x counter 0..255 x next-edge distance ({}) x EAR register bit x tape polarity x carry, '
             'each run 4 ways (Python/C x accelerator on/off); DEC A: 256 A x carry x accelerate-dec-a 0..3 x JR/JP form x IFF 0/1, Python and C; '
             'tape level: tapes {} x simulated-LOAD options ({}) over accelerator {{auto,none,rom,speedlock,"alkatraz,rom"}}, '
             'accelerate-dec-a 0..3, pause, fast-load, cmio, python, polarity, first-edge {{0,1000}}; dawdle tapes (bin2tap loader + program that '
             'waits k frames in a delay loop, loads a 16-byte headerless ROM-timed block with CALL $0556 - not the last block on the tape - and runs 3.5 '
             'more frames): wait k in {} frames (block + gap last {} frames) x interrupts enabled/disabled during the wait x enabled/disabled '
             'after the load, each under {} over python, fast-load, accelerator {{auto,none}}, cmio; stack tapes (bin2tap loader + machine-code '
             'loader that reads a 16-byte headerless block with LD-BYTES, SP = S on entry): first byte of the block at S+n for n in {} (below the '
             'stack; last byte at S-7, S-5, S-3, S-2, S-1; over the whole frame; first byte at S-2, S-1, S), each under {} over fast-load, python, '
             'accelerator {{auto,none}}.  states = distinct final (PC, counter, T, '
             'edge index) per row / distinct final snapshots; non-trivial = loop case in which the accelerator fired for at least one counter value, '
             'every DEC A case, every tape load'.format(
                 len(ACCELERATORS), '{k*loop_time+e: k 0..3, e -1,0,1}, far; EAR phase = register bit, or tape polarity for the loops without one' if tier == 'quick' else
                 'every value -1..2*loop_time+1, {3*loop_time+e}, far; EAR register bit x tape polarity',
                 [t for t, d in tape_plan(tier) if not t.startswith(('dw-', 'st-'))], 'deviations d <= 2 from the defaults' if tier == 'quick' else
                 'full product on turbo, deviations d <= 3 on k48, d <= 2 on k48clear and k128',
                 dawdle_waits(tier, seed), dawdle_block_frames(seed), 'option deviations d <= 2' if tier == 'quick' else 'the full option product',
                 sorted(ST_POS.values()), 'option deviations d <= 2' if tier == 'quick' else 'all 8 option combinations'),
        exhaustive=True,
        bound='loop level: complete product (finite); tape level: ' + ('option deviations d <= 2 on 4 tapes' if tier == 'quick' else
                                                                         'full option product (1280 configurations) on the turbo tape, d <= 3 on k48, d <= 2 on k48clear and k128') +
              '; {} dawdle tapes (complete product wait x interrupts during x interrupts after) x '.format(len(dawdle_names(tier, seed))) +
              ('option deviations d <= 2 over 4 options' if tier == 'quick' else 'all 16 combinations of 4 options') +
              '; {} stack tapes (every listed block position) x '.format(len(ST_POS)) +
              ('option deviations d <= 2 over 3 options' if tier == 'quick' else 'all 8 combinations of 3 options'),
        assumptions=[
            'loops are entered at their first instruction only, with the exit paths (wild-card bytes, RET targets) leading to the stop address - the phase real loaders are in',
            'every loop-level run has a horizon of {} T-states (LoadTracer timeout) and a 20 s watchdog'.format(HORIZON_T),
            'tape level always passes --start (documented stop rule) and the same finish-tape setting',
            'IN r,(C) is traced at loop level (tap2sna does this only with in-flags=4), otherwise the activision row could never fire',
            'dawdle tapes are not run with pause=0: a loader that is not listening when the next block begins only loads from a tape that waits for it '
            '(outside "any tape that loads"); accelerate-dec-a, polarity and first-edge are not varied on them',
            'stack tapes: the four bytes at S-6..S-3 (S = SP on entry to LD-BYTES) are exempt from the loaded-bytes comparison: the ROM\'s own CALLs of LD-EDGE-2 and LD-EDGE-1 '
            'put return addresses there after a byte stored there has been read, so on a real machine they hold stack residue (scratch state); every other '
            'byte of the block, including those over the pushed $053F and the caller\'s return address, must be what is on the tape',
        ],
        required_guards=['acc_' + n for n in sorted(ACCELERATORS)] + ['dec_a_jr', 'dec_a_jp', 'dec_a_interrupt_inside_loop'] +
                        ['tape_k48', 'tape_k48clear', 'tape_turbo', 'tape_k128', 'opt_accelerator', 'opt_dec_a', 'opt_pause', 'opt_fast_load', 'opt_cmio',
                         'opt_python', 'opt_polarity', 'opt_first_edge', 'tape_dw', 'dw_wait_ei_after_ei', 'dw_wait_ei_after_di', 'dw_wait_di_after_ei',
                         'dw_wait_di_after_di', 'dw_fast_load_clock_jump_forwards', 'dw_fast_load_clock_jump_backwards_within_a_frame',
                         'dw_fast_load_clock_jump_backwards_beyond_a_frame', 'tape_st'] + ['st_block_' + p for p in ST_POS],
    )
    return stats, meta


def replay(case):
    old = sys.stdout
    if case['level'] == 'loop':
        from skoolkit.loadsample import ACCELERATORS
        out = []
        sys.stdout = _Null()
        try:
            for kinds in (('py', 'c'), ('py',), ('c',)):
                st, res = isolated(loop_violations, case['acc'], case['counter'], case['dist'], case['ear'], case['pol'], case['carry'], kinds)
                if st == 'ok':
                    out += ['{} accel={}: {}'.format(k, a, d) for k, a, d in res[0]]
                    if len(kinds) == 2:
                        break
                elif len(kinds) == 1:
                    out.append('{} accel=1: process killed by {} {} while running the C simulator'.format(kinds[0], st, res))
        finally:
            sys.stdout = old
        return out
    if case['level'] == 'dec-a':
        mem, stop = dec_a_image(case['form'])
        sys.stdout = _Null()
        try:
            bad, ref = dec_a_case(Rig(mem), stop, case['a'], case['carry'], case['iff'])
        finally:
            sys.stdout = old
        return ['{} accelerate-dec-a={}: {}'.format(k, a, d) for k, a, d in bad]
    bad = run_item(case['tape'], case['ref'], [case['opts']] if case['opts'] != case['ref'] else [], case.get('seed', 0))
    return ['{} [{}]: {}'.format(optid(o), kind, '; '.join(det)) for o, kind, det in bad if o == case['opts']]
