"""C10 - saving a snapshot mid-run and resuming from it is transparent.

Seam: trace.main only.  For a program P (fixed prologue + letters of a stateful
alphabet + epilogue: IM 2 with a vector table in RAM, EI, HALT wait for the frame
interrupt, a DD FD DD prefix chain, LDIR with BC=5, OUT 0xFE, and on 128K OUT 0x7FFD /
AY select / AY write), for EVERY split point n1 in 1..N-1 (every instruction boundary is
a crash/save point: inside the HALT wait, directly after EI, inside the prefix chain,
inside LDIR, either side of the interrupt):

    trace -m N  init -> full.szx           (once)
    trace -m n1 init -> mid.{szx|z80} ; trace -m N-n1 mid -> split.szx

and full.szx must equal split.szx field by field (registers incl. R and MEMPTR for
SZX; RAM in every bank; border, fe, 7ffd, fffd, AY, iff, im, T mod frame).
Configurations (format x machine x {plain,--cmio} x {C,--python} x start T) are
explored as deviations from the default (d <= 1 quick, d <= 2 thorough).
"""
import itertools
import os

from .. import core, tools, skbuild

PROPERTY = 'C10'
NEEDS_C = True

ORG = 0x8000
ISR = 0x7C00
COUNTER = 0x7B00


def letters():
    L = [
        ('none', ()),
        ('EI', (0xFB,)),
        ('DI;EI', (0xF3, 0xFB)),
        ('DD', (0xDD,)),
        ('FD FD', (0xFD, 0xFD)),
        ('EDnop', (0xED, 0x00)),
        ('LD A,I', (0xED, 0x57)),
        ('LD A,R', (0xED, 0x5F)),
        ('LD R,A', (0xED, 0x4F)),
        ("EX AF,AF'", (0x08,)),
        ('EXX', (0xD9,)),
        ('SCF', (0x37,)),
        ('CCF', (0x3F,)),
        ('PUSH HL;POP DE', (0xE5, 0xD1)),
        ('CALL;RET', None),
        ('BIT 7,(HL)', (0xCB, 0x7E)),
        ('BIT 0,(IX+1)', (0xDD, 0xCB, 0x01, 0x46)),
        ('LD BC,3;CPIR', (0x01, 0x03, 0x00, 0xED, 0xB1)),
        ('IN A,(FE)', (0xDB, 0xFE)),
        ('OUT (FE),A', (0x3E, 0x02, 0xD3, 0xFE)),       # LD A,2 first: a colour different from the one the epilogue writes in the next frame
        ('LD B,3;DJNZ', (0x06, 0x03, 0x10, 0xFE)),
        ('SMC', None),
        ('RLD', (0xED, 0x6F)),
        ('ADD HL,HL;ADC HL,DE', (0x29, 0xED, 0x5A)),
        ('IM1;IM2', (0xED, 0x56, 0xED, 0x5E)),
        # paging through aliases of port 0x7FFD (A15 = 0, A1 = 0), then a store to and a load from the paged area
        ('page via 3FFD', (0x01, 0xFD, 0x3F, 0x3E, 0x13, 0xED, 0x79, 0x32, 0x02, 0xC0, 0x3A, 0x01, 0xC0)),
        ('page via OUT (FD),A', (0x3E, 0x16, 0xD3, 0xFD, 0x32, 0x03, 0xC0, 0x3A, 0x01, 0xC0)),
        # paging with block OUT instructions: B is decremented before the port is addressed, so B = 0x80 gives port 0x7FFD
        # (the byte at 0x9000 is 3: bank 3) and B = 0x00 with C = 0xFD gives port 0xFFFD (no paging)
        ('page via OUTI', (0x01, 0xFD, 0x80, 0x21, 0x00, 0x90, 0xED, 0xA3, 0x32, 0x04, 0xC0, 0x3A, 0x01, 0xC0)),
        ('OUTD to FFFD', (0x01, 0xFD, 0x00, 0x21, 0x00, 0x90, 0xED, 0xAB, 0x32, 0x05, 0xC0, 0x3A, 0x01, 0xC0)),
        # AY: select a register number >= 16 (no register), read the data port, write it, select register 3, write, read
        ('AY select 1F', (0x01, 0xFD, 0xFF, 0x3E, 0x1F, 0xED, 0x79, 0xED, 0x78, 0x06, 0xBF, 0x3E, 0x55, 0xED, 0x79, 0x06, 0xFF, 0xED, 0x50)),
        ('AY select 3', (0x01, 0xFD, 0xFF, 0x3E, 0x03, 0xED, 0x79, 0x06, 0xBF, 0x3E, 0x5A, 0xED, 0x79, 0x06, 0xFF, 0xED, 0x58)),
    ]
    return L


HALT_EDGE = 0x7FFF       # last byte of contended memory: PC is contended, PC+1 is not
HALT_EDGE_PROLOGUE = 9   # instructions executed before the HALT at HALT_EDGE is first reached


def build_program(seq, machine, halt=True, prog='std'):
    """prog='halt7fff': prologue + letters, then JP 7FFF where a HALT waits (run in the display period under --cmio: the
    fetches of the HALT wait are contended at one address and not at the next one).
    Returns (bytes from ORG, number N of instructions to execute).  halt=False: no EI;HALT wait for the frame
    interrupt (used when the run is placed in the middle of the display period, where memory is contended)."""
    L = letters()
    code = []

    def emit(*b):
        code.extend(b)
    emit(0xF3)                              # DI
    emit(0x31, 0x00, 0x7A)                  # LD SP,7A00
    emit(0x3E, 0x7D, 0xED, 0x47)            # LD A,7D ; LD I,A      (vector at 7DFF/7E00)
    emit(0xED, 0x5E)                        # IM 2
    emit(0x21, 0x00, 0x90)                  # LD HL,9000
    emit(0xDD, 0x21, 0x00, 0x91)            # LD IX,9100
    emit(0xFB)                              # EI
    for i in seq:
        name, b = L[i]
        if name == 'CALL;RET':
            here = ORG + len(code)
            emit(0xCD, (here + 4) & 0xFF, (here + 4) >> 8, 0x00, 0xC9)      # CALL here+4 ; NOP ; (here+4:) RET -> back to NOP
        elif name == 'SMC':
            here = ORG + len(code)
            emit(0x3E, 0x3C, 0x32, (here + 5) & 0xFF, (here + 5) >> 8, 0x00)    # LD A,3C ; LD (next),A ; NOP -> INC A
        else:
            emit(*b)
    if prog == 'halt7fff':
        emit(0xC3, HALT_EDGE & 0xFF, HALT_EDGE >> 8)
        return bytes(code)
    if halt:
        emit(0xFB, 0x76)                    # EI ; HALT   (wait for the frame interrupt)
    emit(0x01, 0x05, 0x00, 0x11, 0x00, 0x92, 0xED, 0xB0)    # LD BC,5 ; LD DE,9200 ; LDIR
    emit(0xDD, 0xFD, 0xDD, 0x21, 0x34, 0x12)                # DD FD DD: LD IX,1234
    emit(0x3E, 0x05, 0xD3, 0xFE)                            # LD A,5 ; OUT (FE),A
    if machine == '128K':
        emit(0x01, 0xFD, 0x7F, 0x3E, 0x11, 0xED, 0x79)      # LD BC,7FFD ; LD A,11 ; OUT (C),A
        emit(0x32, 0x00, 0xC0)                              # LD (C000),A
        emit(0x01, 0xFD, 0xFF, 0x3E, 0x07, 0xED, 0x79)      # LD BC,FFFD ; LD A,7 ; OUT (C),A   (AY register select)
        emit(0x06, 0xBF, 0x3E, 0x38, 0xED, 0x79)            # LD B,BF ; LD A,38 ; OUT (C),A     (AY register write)
    emit(0xCB, 0x7E)                        # BIT 7,(HL)     (F bits 3/5 from MEMPTR)
    emit(0x23, 0x18, 0xFD)                  # loop: INC HL ; JR loop
    return bytes(code)


ISR_CODE = bytes((0xF5, 0x3A, COUNTER & 0xFF, COUNTER >> 8, 0x3C, 0x32, COUNTER & 0xFF, COUNTER >> 8, 0xF1, 0xFB, 0xED, 0x4D))
# a very short routine: EI ; INC (HL)-free 'NOP' ; RETI - interrupts are enabled again while the interrupt is still active
# (first 32/36 T-states of the frame), so it is accepted a second time; save points then fall *inside* the active window
ISR_SHORT = bytes((0xFB, 0x00, 0xED, 0x4D))

DEFAULT = dict(fmt='szx', machine='48K', cmio=0, python=0, t0='near', isr='long', verbose=0, prog='std', audio=0)
ALTS = dict(fmt=['z80'], machine=['128K'], cmio=[1], python=[1], t0=['zero', 'late', 'big', 'display', 'huge'], isr=['short'], verbose=[1], audio=[1])


def t0_value(name, machine, seq_len):
    fd = 69888 if machine == '48K' else 70908
    if name == 'near':
        return fd - 180
    if name == 'late':
        return fd - 60         # the interrupt arrives while the letters are executing (IFF may be 0: then it is missed)
    if name == 'display':
        return 20000           # inside the display period: the stack (0x79xx), the counter and, on a 128K with an odd
                               # bank paged in, 0xC000-0xFFFF are contended (the program then has no HALT wait)
    if name == 'huge':
        return (2 ** 32 // fd + 1) * fd - 180      # the clock is beyond 2^32 (about 20 minutes of Spectrum time)
    if name == 'zero':
        return 3 * fd - 170    # a later frame
    return 16777216 - 170      # the counter passes 2^24 during the run


def write_init(cfg, seq, d):
    from skoolkit.snapshot import write_snapshot
    machine = cfg['machine']
    prog = build_program(seq, machine, halt=cfg['t0'] != 'display', prog=cfg.get('prog', 'std'))
    if machine == '48K':
        ram = [(a * 7 + 3) & 0xFF for a in range(0x4000, 0x10000)]

        def poke(addr, data):
            ram[addr - 0x4000:addr - 0x4000 + len(data)] = data
    else:
        banks = [[(a * 7 + 3 + 16 * b) & 0xFF for a in range(0x4000)] for b in range(8)]

        def poke(addr, data):
            bank = {1: 5, 2: 2, 3: 0}[addr >> 14]
            off = addr & 0x3FFF
            banks[bank][off:off + len(data)] = data
        ram = None
    poke(ORG, list(prog))
    poke(ISR, list(ISR_SHORT if cfg.get('isr') == 'short' else ISR_CODE))
    poke(COUNTER, [0])
    if cfg.get('prog') == 'halt7fff':
        poke(HALT_EDGE, [0x76])
    poke(0x7DFF, [ISR & 0xFF, ISR >> 8])
    poke(0x9000, [0x81, 0x7F, 0x00, 0x3C, 0xFF, 0x10])
    if machine != '48K':
        ram = [list(b) for b in banks]      # write_snapshot takes a list of 8 banks for a 128K machine
    t0 = t0_value(cfg['t0'], machine, len(seq))
    regs = ['a=90', 'f=1', 'bc=4660', 'de=22136', 'hl=36864', 'ix=37120', 'iy=23610', 'sp=31232', 'i=63', 'r=200',
            '^a=1', '^f=2', '^bc=772', '^de=1286', '^hl=1800', 'pc={}'.format(ORG)]
    state = ['iff=0', 'im=1', 'tstates={}'.format(t0), 'border=2']
    if machine != '48K':
        state += ['7ffd=0', 'fffd=3', 'ay[3]=77']
    # the initial snapshot is written in the format that is NOT under test in this configuration,
    # so that a defect of the mid-run format's writer cannot shift both legs in the same way
    fname = os.path.join(d, 'init.z80' if cfg['fmt'] == 'szx' else 'init.szx')
    write_snapshot(fname, ram, regs, state, machine)
    from skoolkit.snapshot import Snapshot
    if Snapshot.get(fname).machine != machine:
        raise skbuild.BrokenCheck('initial snapshot is not a {} snapshot'.format(machine))
    return fname, prog


FIELDS = ('a', 'f', 'bc', 'de', 'hl', 'a2', 'f2', 'bc2', 'de2', 'hl2', 'ix', 'iy', 'sp', 'i', 'r', 'pc', 'border', 'iff1', 'iff2', 'im',
          'memptr', 'out7ffd', 'outfffd', 'ay', 'outfe', 'machine')


def snap_state(fname, frame):
    from skoolkit.snapshot import Snapshot
    s = Snapshot.get(fname)
    d = {f: getattr(s, f) for f in FIELDS}
    d['ay'] = tuple(d['ay'])
    d['tstates_mod_frame'] = s.tstates % frame
    d['ram'] = bytes(s.ram(-1))
    return d


def trace_args(cfg, src, n, dst):
    a = ['-m', str(n), src, dst]
    if cfg['cmio']:
        a.insert(0, '--cmio')
    if cfg['python']:
        a.insert(0, '--python')
    if cfg.get('audio'):
        # --audio installs the port-logging tracer (border changes and speaker moves are kept as time-stamped lists, and the
        # border colour written to the snapshot is taken from that list); on all three runs
        a.insert(0, '--audio')
    if cfg.get('verbose') and dst.endswith(('mid.szx', 'mid.z80', 'split.szx')):
        # both legs of the split run log every instruction (-v: the simulators call back into Python for the disassembly
        # and the trace line after each instruction); the uninterrupted reference run stays silent
        a.insert(0, '-v')
    return a


def _log_lines(text):
    return [l.rstrip() for l in text.splitlines() if len(l) > 6 and l[0] == '$' and l[5] == ' ']


def run_case(cfg, seq, n_total, splits=None):
    """Returns list of (n1, details) for every split point that breaks the property."""
    d = tools.workdir()
    frame = 69888 if cfg['machine'] == '48K' else 70908
    init, prog = write_init(cfg, seq, d)
    full = os.path.join(d, 'full.szx')
    # a snapshot file holds the frame position only: a clock beyond 2^24 / 2^32 is set on the command line of the
    # runs that start from the initial snapshot (the resumed leg starts from whatever the mid-run file holds)
    first = []
    if cfg['t0'] in ('big', 'huge'):
        first = ['--state', 'tstates={}'.format(t0_value(cfg['t0'], cfg['machine'], len(seq)))]
    r = tools.run_tool('trace', first + trace_args(cfg, init, n_total, full))
    if r.rc:
        return [(0, ['uninterrupted run failed: {} {}'.format(r.exc, r.err[-200:])])], 1
    want = snap_state(full, frame)
    out = []
    legs = 1
    want_log = None
    if cfg.get('verbose'):
        # second oracle for the logging path: the instructions logged by the two legs, one after the other, are the
        # instructions logged by one uninterrupted run
        rv = tools.run_tool('trace', ['-v'] + first + trace_args(cfg, init, n_total, os.path.join(d, 'full-v.szx')))
        legs += 1
        want_log = _log_lines(rv.out)
        if rv.rc or len(want_log) != n_total:
            return [(0, ['uninterrupted -v run: rc {} {}, {} instructions logged, {} expected'.format(rv.rc, rv.exc, len(want_log), n_total)])], legs
    mid = os.path.join(d, 'mid.' + cfg['fmt'])
    split = os.path.join(d, 'split.szx')
    for n1 in (splits if splits is not None else range(1, n_total)):
        r1 = tools.run_tool('trace', first + trace_args(cfg, init, n1, mid))
        r2 = tools.run_tool('trace', trace_args(cfg, mid, n_total - n1, split))
        legs += 2
        if r1.rc or r2.rc:
            out.append((n1, ['leg failed: {} / {}'.format(r1.exc or r1.err[-100:], r2.exc or r2.err[-100:])]))
            continue
        got = snap_state(split, frame)
        diffs = []
        if want_log is not None:
            got_log = _log_lines(r1.out) + _log_lines(r2.out)
            if got_log != want_log:
                i = next((i for i, (x, y) in enumerate(zip(got_log, want_log)) if x != y), min(len(got_log), len(want_log)))
                diffs.append('log: instruction {} is {!r} in the split run, {!r} in the uninterrupted run ({} / {} lines)'.format(
                    i + 1, got_log[i] if i < len(got_log) else None, want_log[i] if i < len(want_log) else None, len(got_log), len(want_log)))
        for k in want:
            if k == 'memptr' and cfg['fmt'] == 'z80':
                continue        # Z80 files carry no MEMPTR (exempt in the property)
            if k == 'outfe' and cfg['fmt'] == 'z80':
                # the Z80 format has no field for the last value written to port 0xFE beyond
                # the border colour (compared separately); the property lists 'border' only
                continue
            if want[k] != got[k]:
                if k == 'ram':
                    bad = [i for i in range(len(want[k])) if want[k][i] != got[k][i]][:4]
                    diffs.append('ram differs at offsets {}'.format(bad))
                elif k == 'f' and cfg['fmt'] == 'z80' and cfg['cmio'] and (want[k] ^ got[k]) & 0xD7 == 0:
                    continue    # BIT n,(HL) takes F bits 3/5 from MEMPTR, which a Z80 file cannot carry
                else:
                    diffs.append('{}: uninterrupted {} / resumed {}'.format(k, want[k], got[k]))
        if diffs:
            out.append((n1, diffs))
    return out, legs


def configs(d):
    seen = []
    for k, cfg in core.deviations(DEFAULT, ALTS, d):
        if cfg not in seen:
            seen.append(cfg)
    # save points inside the interrupt-active window matter to each simulator/loop separately
    for py, cmio in ((1, 0), (0, 1), (1, 1)):
        cfg = dict(DEFAULT, python=py, cmio=cmio, isr='short')
        if cfg not in seen:
            seen.append(cfg)
    # a clock beyond 2^32 on every simulator
    for py, cmio in ((1, 0), (0, 1), (1, 1)):
        cfg = dict(DEFAULT, python=py, cmio=cmio, t0='huge')
        if cfg not in seen:
            seen.append(cfg)
    # contention: the run placed inside the display period, on every simulator
    for machine in ('48K', '128K'):
        for py in (0, 1):
            for fmt in ('szx', 'z80') if machine == '128K' and py else ('szx',):
                cfg = dict(DEFAULT, machine=machine, cmio=1, python=py, fmt=fmt, t0='display')
                if cfg not in seen:
                    seen.append(cfg)
    # a HALT wait at the last byte of contended memory, in the display period (save points inside the wait)
    for machine in ('48K', '128K'):
        for py in (0, 1):
            for fmt in ('szx', 'z80'):
                seen.append(dict(DEFAULT, machine=machine, cmio=1, python=py, fmt=fmt, t0='display', prog='halt7fff'))
    # the port-logging tracer (--audio) on each simulator, on 128K and late in the frame (border writes either side of the
    # frame boundary)
    for kw in (dict(python=1), dict(cmio=1), dict(machine='128K'), dict(fmt='z80'), dict(t0='late'), dict(t0='late', python=1)):
        cfg = dict(DEFAULT, audio=1, **kw)
        if cfg not in seen:
            seen.append(cfg)
    # instruction logging on the split legs, on each simulator and machine
    for kw in (dict(python=1), dict(cmio=1), dict(machine='128K'), dict(machine='128K', python=1), dict(fmt='z80')):
        cfg = dict(DEFAULT, verbose=1, **kw)
        if cfg not in seen:
            seen.append(cfg)
    # the 128K machine with each other choice (the paging and AY fields exist only there)
    for k, v in (('fmt', 'z80'), ('python', 1), ('cmio', 1)):
        cfg = dict(DEFAULT, machine='128K', **{k: v})
        if cfg not in seen:
            seen.append(cfg)
    return seen


def programs(tier):
    L = letters()
    seqs = [(i,) for i in range(len(L))]
    if tier == 'thorough':
        core_letters = [i for i, (n, _) in enumerate(L) if n in ('EI', 'DI;EI', 'DD', 'LD A,R', "EX AF,AF'", 'BIT 7,(HL)', 'LD BC,3;CPIR', 'SMC', 'CALL;RET')]
        seqs += [p for p in itertools.product(core_letters, repeat=2)]
    return seqs


def n_for(seq, cfg):
    # long enough to pass the HALT wait (<= ~45 HALT steps from 'near'), the interrupt routine and the epilogue
    return 100 if cfg['machine'] == '48K' else 112


def _shard(shard, nshards, tier, seed):
    stats = core.Stats(PROPERTY)
    cfgs = configs(1 if tier == 'quick' else 2)
    progs = programs(tier)
    L = letters()
    work = [(cfg, seq) for cfg in cfgs for seq in progs if cfg.get('prog', 'std') == 'std' or seq == (0,)]
    # A Z80 file cannot carry MEMPTR (exempt in the property).  Under --cmio, BIT n,(HL) copies MEMPTR bits into
    # F; if an interrupt routine then pushes AF those bits reach RAM.  Letters with BIT n,(HL) are therefore not
    # combined with (.z80, --cmio); the final BIT 7,(HL) of the epilogue is covered by the F-bit mask.
    bit_hl = [i for i, (n, _) in enumerate(L) if n == 'BIT 7,(HL)']
    work = [(cfg, seq) for cfg, seq in work if not (cfg['fmt'] == 'z80' and cfg['cmio'] and any(i in bit_hl for i in seq))]
    # The AY chip belongs to the 128K machine: a 48K snapshot has no field for the selected register or the register
    # contents (trace.py answers the AY ports on any machine), so the AY letters run on 128K configurations only.
    ay = [i for i, (n, _) in enumerate(L) if n.startswith('AY ')]
    work = [(cfg, seq) for cfg, seq in work if not (cfg['machine'] == '48K' and any(i in ay for i in seq))]
    for wi, (cfg, seq) in core.shard_iter(work, shard, nshards):
        n_total = n_for(seq, cfg)
        bad, legs = run_case(cfg, seq, n_total)
        stats.evaluations += n_total - 1
        stats.transitions += legs
        stats.traces += n_total - 1
        names = '>'.join(L[i][0] for i in seq)
        ctag = '{fmt}/{machine}/cmio{cmio}/py{python}/t0-{t0}/isr-{isr}'.format(**cfg) + ('/v' if cfg.get('verbose') else '') + ('/audio' if cfg.get('audio') else '') + ('/halt7fff' if cfg.get('prog') == 'halt7fff' else '')
        stats.state((ctag, names))
        stats.nontriv((ctag, names))
        stats.counters['cfg_' + ctag] += 1
        for n1, diffs in bad:
            stats.violation('{}/{}/n1={}'.format(ctag, names, n1), {'cfg': cfg, 'seq': list(seq), 'n_total': n_total, 'n1': n1},
                            '; '.join(diffs[:4]),
                            tags={'fmt': cfg['fmt'], 'machine': cfg['machine'], 't0': cfg['t0'], 'cmio': cfg['cmio'], 'python': cfg['python'],
                                  'fields': sorted({x.split(':')[0].split(' ')[0] for x in diffs}),
                                  'fields_str': ','.join(sorted({x.split(':')[0].split(' ')[0] for x in diffs})),
                                  'prog': cfg.get('prog', 'std'),
                                  'resumed_inside_halt_wait': cfg.get('prog') == 'halt7fff' and n1 > HALT_EDGE_PROLOGUE},
                            order=wi * 1000 + n1)
        if wi % 40 == 0:
            stats.sample({'config': cfg, 'program_letters': names, 'instructions': n_total, 'split_points': n_total - 1})
    return stats


def run(tier, seed):
    stats = core.run_shards(_shard, tier, seed, prop=PROPERTY)
    meta = dict(
        rule='programs = prologue + every letter ({}) + epilogue; EVERY split point n1 = 1..N-1 (N = 100/112 instructions: prologue, letters, HALT '
             'wait, IM 2 interrupt routine, LDIR, prefix chain, port writes, loop); configurations = deviations <= {} from (szx, 48K, C, plain, '
             'start T = frame-180) over fmt z80, 128K, --cmio, --python, start T in {{3 frames later, frame-60, 2^24-170}}, -v on both legs of the split run (the per-instruction logging path of each simulator; the uninterrupted run stays silent); --audio (the port-logging tracer) on all three runs; plus, under --cmio in the display period on every (machine, simulator, format), a HALT wait at 0x7FFF (PC contended, PC+1 not) with every save point inside the wait; evaluations = split points; transitions = trace.main executions'.format(
                 'single letters' if tier == 'quick' else 'single letters + all pairs of 9 core letters', 1 if tier == 'quick' else 2),
        exhaustive=True,
        bound='all split points of every generated program; configuration deviations d <= {}'.format(1 if tier == 'quick' else 2),
        assumptions=['both legs start from the same initial SZX file written by skoolkit.snapshot.write_snapshot (common mode)',
                     'for .z80 mid-run files MEMPTR (and under --cmio the F bits 3/5 that BIT n,(HL) derives from it) is exempt, as in the property; letters with BIT n,(HL) are not combined with (.z80, --cmio) because an interrupt routine pushing AF would carry those bits into RAM'],
        required_guards=[],
    )
    return stats, meta


def replay(case):
    bad, _ = run_case(case['cfg'], tuple(case['seq']), case['n_total'], splits=[case['n1']])
    return ['n1={}: {}'.format(n1, '; '.join(d)) for n1, d in bad]
