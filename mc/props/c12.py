"""C12 - a program converted to tape by bin2tap loads back to the same memory via tap2sna.

Seam: bin2tap.main(args) -> TAP/PZX file -> tap2sna.main(--start START ...) -> SZX or Z80
file, decoded with the independent snapshot decoders of mc/refs/snapfmt.py (written from the
published format descriptions), not with skoolkit's own reader.

Space: every configuration that differs from a *default tape* in at most d dimensions
(core.deviations; quick: d = 3 for the 48K tape, 2 for the 128K tape; thorough: 4 and 3),
for two default tapes:

  48K  : 15-byte binary at ORG 32768, no START/STACK/CLEAR/--begin/--end, TAP, no screen
         dimensions: length, org, start, stack, clear, begin, end, fmt, screen, input
  128K : 128K image, --begin 32768 --clear BEGIN-50 --7ffd 16, all six banks, TAP
         dimensions: begin, end, clear, loader, banks (every subset of size <= 2, the full
         set given explicitly, the empty selection ','), 7ffd, start, fmt, screen, input

and for two *I/O families* that vary what surrounds the tape - the simulated-LOAD configuration
tap2sna is given, the format of the snapshot it writes and the kind of content loaded - together
with the dimensions that decide which blocks are on the tape (quick: d = 3 / 2; thorough: 4 / 3):

  48K-io  : the default 48K tape
            dimensions: fastload (-c fast-load=0: the ROM's LD-BYTES routine really runs), python
            (-c python=1), cmio (-c cmio=1), out (z80 instead of szx), content ('runs': see
            content_byte), screen, fmt, clear, input, length (256)
  128K-io : the 128K tape --begin 32768 --end 32783 --clear BEGIN-50 --7ffd 16 --banks 3
            dimensions: fastload, python, cmio, out, content, screen, fmt, banks (default six, none),
            end (49152), input

and for the *bank loader address family* (128K-loader): the 128K-io base tape with the bank loader
placed at every address of one 256-byte page (LOADER_PAGE: every low byte 0..255, so every position
of the 38 bytes of loader code and of the bank table that follows them relative to a page boundary),
both ways the man page offers: --loader ADDR (CLEAR fixed below the page) and by default at
CLEAR+1 (CLEAR = ADDR-1).  quick: these 512 tapes; thorough: each also with one further deviation
(banks none / two banks, pzx, START, SZX input).

Alternatives are symbolic ('end+2' = address of the first byte after the program + 2,
'org+1' ...) and are resolved against the other dimensions, so that e.g. "STACK lies one
byte inside the data" means that for every length/ORG it is combined with.

Oracle (written from the bin2tap man page, not from the code): original bytes at
original addresses (minus STACK-14..STACK-1 when no CLEAR is used), PC == START, SP ==
STACK (no CLEAR) or just below the CLEAR address (CLEAR: "leaves the stack pointer
alone"), every requested 128K bank holds its bytes, port 0x7FFD holds the requested
value; tap2sna must report that it stopped at the start address; the snapshot file must be
decodable.
"""
import os

import zlib

from .. import core, tools
from ..refs import snapfmt

PROPERTY = 'C12'
NEEDS_C = True          # tap2sna uses the C simulator by default: bind the fresh build

BANKS = (0, 1, 3, 4, 6, 7)


def horizon(plan):
    """Simulated-LOAD horizon in seconds of Z80 time, passed to tap2sna as -c timeout=N: an upper bound
    on the playing time of the tape (the simulator's clock follows the tape even when blocks are
    fast-loaded) plus a minute.  The default of 900 s would only make failing loads slow (4 s CPU each)."""
    nbytes = plan['E'] - plan['B'] + 400 + (6912 if plan['screen'] else 0)
    nblocks = 8
    if plan['machine'] == '128':
        n = 6 if plan['banks'] is None else len(plan['banks'])
        nbytes += 16386 * n
        nblocks += 2 + n
    t = nbytes * 8 * 3420 + nblocks * (8063 * 2168 + 3500000 + 2000)
    return t // 3500000 + 60


# --------------------------------------------------------------------------- content
def tag(a, seed, bank=None):
    """Address-tagged content (a fixed formula; `seed` only rotates the formula)."""
    k = (37, 91, 149)[seed % 3]
    x = (a * k + 11 + 7 * seed) ^ (a >> 8)
    if bank is not None:
        x ^= bank * 0x1D + 5
    return x & 255


def _runs_pattern():
    """The 'runs' content: for each of the two byte values that the Z80 snapshot format's run-length
    coding distinguishes (0xED, its escape byte, coded as a block from 2 repetitions; 0x00, an ordinary
    byte, coded from 5) every run length 1..6 (both thresholds +-1 and beyond), each run followed by a
    separator (None); then a lone 0xED followed by a run of 1..6 zeros (the byte after a lone 0xED may
    not start a block)."""
    p = []
    for v in (0xED, 0x00):
        for n in range(1, 7):
            p += [v] * n + [None]
    for n in range(1, 7):
        p += [0xED] + [0x00] * n + [None]
    return p


RUNS = _runs_pattern()      # 87 bytes; the first 15 are ED s ED ED s ED ED ED s ED ED ED ED s ED


def content_byte(kind, i, t):
    """Byte number i (counted from the first byte of the binary file / of a 128K bank / of the loading
    screen) of content `kind`; t is the address tag.  'tag': the tag itself.  'runs': RUNS tiled, the
    separators being the tags (moved off the two run values)."""
    if kind == 'tag':
        return t
    v = RUNS[i % len(RUNS)]
    if v is None:
        return 0xA5 if t in (0xED, 0x00) else t
    return v


def scr_bytes(seed, kind='tag'):
    return bytes(content_byte(kind, i, (i * 13 + 5 + seed) & 255 ^ (i >> 8)) for i in range(6912))


# --------------------------------------------------------------------------- space
# dimensions of the I/O families (no alternatives in the two tape families): simulated-LOAD parameters
# passed to tap2sna with -c, the snapshot format it is asked to write, the content kind
IO_DEFAULTS = dict(fastload=1, python=0, cmio=0, out='szx', content='tag')

DEF48 = dict(machine='48', length=15, org='32768', start='default', stack='default', clear='none', begin='none',
             end='none', fmt='tap', screen=0, input='bin', family='48K', **IO_DEFAULTS)


def alts48(tier):
    return dict(
        length=[1, 2, 3, 256, 4097] + ([41000] if tier == 'thorough' else []),
        org=['23952', '24000', '49152', 'top'],        # 'top' = no -o option: ORG defaults to 65536-length
        start=['begin+1', 'last'],
        stack=['end-1', 'end+0', 'end+1', 'end+2', 'end+3', 'end+4', 'end+14', 'begin+1', 'begin+2', 'begin+3', '65535'],
        clear=['begin-1', '24999', '23952', '23972'],           # 23952 = the lowest usable address the man page gives for a 48K Spectrum
        begin=['org+1', 'mid'],
        end=['last', 'mid+1'],
        fmt=['pzx'],
        screen=[1],
        input=['z80'],
    )


DEF128 = dict(machine='128', begin='32768', end='none', clear='begin-50', loader='default', banks='default', o7ffd=16,
              start='default', fmt='tap', screen=0, input='bin', family='128K', **IO_DEFAULTS)


def bank_subsets():
    out = [',']
    out += [str(b) for b in BANKS]
    out += ['{},{}'.format(a, b) for i, a in enumerate(BANKS) for b in BANKS[i + 1:]]
    out.append(','.join(str(b) for b in BANKS))
    return out


def alts128(tier):
    return dict(
        begin=['24200', '49000'],
        end=['begin+15'],
        clear=['begin-1', 'lowest'],
        loader=['explicit'],
        banks=bank_subsets(),
        o7ffd=[0, 1, 7, 17, 23],
        start=['begin+1', 'last'],
        fmt=['pzx'],
        screen=[1],
        input=['szx'],
    )


# I/O families.  The 48K one starts from the default 48K tape; the 128K one from a tape with one 16K
# bank and a 15-byte program (the tape C13 uses), because with fast-load=0 every byte on the tape is
# really read by the ROM (python=1: about 5 s of CPU per 16K block).
DEF48IO = dict(DEF48, family='48K-io')
DEF128IO = dict(DEF128, family='128K-io', end='begin+15', banks='3')
BASES = {'48K': DEF48, '128K': DEF128, '48K-io': DEF48IO, '128K-io': DEF128IO}


def alts_io(machine):
    a = dict(fastload=[0], python=[1], cmio=[1], out=['z80'], content=['runs'], screen=[1], fmt=['pzx'])
    if machine == '48':
        a.update(clear=['begin-1'], input=['z80'], length=[256])
    else:
        a.update(banks=['default', ','], end=['none'], input=['szx'])
    return a


# Bank loader address family.  'L:ADDR' = --loader ADDR with --clear LOADER_CLEAR; 'C:ADDR' = --clear ADDR-1 and
# no --loader option (the loader goes to CLEAR+1 = ADDR).  The page lies between the lowest usable CLEAR address
# and the program at 32768, and the last loader (ADDR = page + 255, 39 + banks bytes) ends below the program.
LOADER_PAGE = 0x7E00
LOADER_CLEAR = 32000
DEF128LD = dict(DEF128IO, family='128K-loader', ldaddr='none')
BASES['128K-loader'] = DEF128LD


def alts_loader(tier):
    a = dict(ldaddr=['{}:{}'.format(how, LOADER_PAGE + lo) for how in 'LC' for lo in range(256)])
    if tier == 'thorough':
        a.update(banks=[',', '1,3'], fmt=['pzx'], start=['last'], input=['szx'])
    return a


def depth(tier):
    """(48K, 128K) deviation bounds; the same for the tape families and the I/O families."""
    return (3, 2) if tier == 'quick' else (4, 3)


def configs(tier):
    d48, d128 = depth(tier)
    for k, cfg in core.deviations(DEF48, alts48(tier), d48):
        yield k, cfg
    for k, cfg in core.deviations(DEF128, alts128(tier), d128):
        yield k, cfg
    for k, cfg in core.deviations(DEF48IO, alts_io('48'), d48):
        yield k, cfg
    for k, cfg in core.deviations(DEF128IO, alts_io('128'), d128):
        yield k, cfg
    for k, cfg in core.deviations(DEF128LD, alts_loader(tier), d128 - 1):
        yield k, cfg


# --------------------------------------------------------------------------- resolution
def _rel(spec, names):
    """'end+2' / 'begin-1' / '32768' -> int."""
    for n, v in names.items():
        if spec.startswith(n):
            rest = spec[len(n):]
            return v + (int(rest) if rest else 0)
    return int(spec)


def resolve(cfg):
    """Concrete plan for one configuration, or (None, reason) if the documentation excludes it."""
    plan, why = _resolve48(cfg) if cfg['machine'] == '48' else _resolve128(cfg)
    if plan is not None:
        io = {k: cfg.get(k, v) for k, v in IO_DEFAULTS.items()}
        sim = []
        if not io['fastload']:
            sim.append('fast-load=0')
        if io['python']:
            sim.append('python=1')
        if io['cmio']:
            sim.append('cmio=1')
        plan.update(sim=sim, out=io['out'], content=io['content'])
    return plan, why


def _resolve48(cfg):
    L = cfg['length']
    ORG = 65536 - L if cfg['org'] == 'top' else int(cfg['org'])
    if ORG + L > 65536:
        return None, 'program does not fit below 65536'
    B = {'none': ORG, 'org+1': ORG + 1, 'mid': ORG + L // 2}[cfg['begin']]
    E = {'none': ORG + L, 'last': ORG + L - 1, 'mid+1': ORG + L // 2 + 1}[cfg['end']]
    if not (ORG <= B < E <= ORG + L):
        return None, 'empty --begin/--end range'
    if cfg['begin'] != 'none' and B == ORG:
        return None, 'degenerate --begin (== ORG)'
    names = {'begin': B, 'end': E, 'last': E - 1}
    START = None if cfg['start'] == 'default' else _rel(cfg['start'], names)
    if START is not None and not B <= START < E:
        return None, 'START outside the program'
    STACK = None if cfg['stack'] == 'default' else _rel(cfg['stack'], names)
    if STACK is not None and not 16398 <= STACK <= 65535:
        # man page: STACK must be at least 16384+14; it is a 16-bit register
        return None, 'STACK outside 16398..65535'
    CLEAR = None if cfg['clear'] == 'none' else _rel(cfg['clear'], names)
    if CLEAR is not None:
        if CLEAR < 23952:
            return None, 'CLEAR below 23952 (documented lowest usable address on a 48K Spectrum)'
        if cfg['screen'] and CLEAR < 23972:
            # commands.rst: "the lowest usable address ... on a bare 48K Spectrum is 23972 if a loading
            # screen is used, or 23952 otherwise"
            return None, 'CLEAR below 23972 with a loading screen (documented limit)'
        if CLEAR >= B:
            return None, 'CLEAR not below the program'
    plan = dict(machine='48', L=L, ORG=ORG, B=B, E=E, START=START, STACK=STACK, CLEAR=CLEAR, fmt=cfg['fmt'],
                screen=cfg['screen'], input=cfg['input'], pass_org=cfg['org'] != 'top',
                pass_begin=cfg['begin'] != 'none', pass_end=cfg['end'] != 'none')
    plan['eff_start'] = B if START is None else START
    plan['eff_stack'] = B if STACK is None else STACK
    if CLEAR is None and plan['eff_stack'] < 16398:
        return None, 'STACK outside 16398..65535'
    return plan, None


def _resolve128(cfg):
    B = int(cfg['begin'])
    E = 49152 if cfg['end'] == 'none' else _rel(cfg['end'], {'begin': B})
    if not B < E <= 49152:
        return None, 'empty --begin/--end range'
    lowest = 23977 if cfg['screen'] else 23957          # man page, section 128K TAPES
    names = {'begin': B, 'lowest': lowest}
    CLEAR = _rel(cfg['clear'], names)
    ldaddr = cfg.get('ldaddr', 'none')
    if ldaddr != 'none':
        # bank loader address family: the address decides CLEAR (the 'clear' and 'loader' dimensions are not used)
        CLEAR = LOADER_CLEAR if ldaddr[0] == 'L' else int(ldaddr[2:]) - 1
    if CLEAR < lowest:
        return None, 'CLEAR below the lowest usable address on a 128K Spectrum'
    if CLEAR >= B:
        return None, 'CLEAR not below the program'
    banks = None if cfg['banks'] == 'default' else [int(b) for b in cfg['banks'].split(',') if b]
    nbanks = 6 if banks is None else len(banks)
    llen = 39 + nbanks
    if ldaddr != 'none':
        LOADER = int(ldaddr[2:]) if ldaddr[0] == 'L' else None
        eff_loader = int(ldaddr[2:])
    elif cfg['loader'] == 'default':
        LOADER = None
        eff_loader = CLEAR + 1
    else:
        LOADER = 49152 - 45 if E <= 49152 - 45 else B - 47
        eff_loader = LOADER
        if LOADER == CLEAR + 1:
            return None, 'degenerate --loader (== CLEAR+1)'
    if eff_loader <= CLEAR or eff_loader + llen > 49152:
        return None, 'bank loader not between CLEAR and 49152'
    names['last'] = E - 1
    START = None if cfg['start'] == 'default' else _rel(cfg['start'], names)
    if START is not None and not B <= START < E:
        return None, 'START outside the program'
    eff_start = B if START is None else START
    if eff_loader <= eff_start < eff_loader + llen:
        # the bank loader is placed over these program bytes at the user's request; a START inside it
        # is the loader's own code, not the program's (tap2sna would stop on entering the loader)
        return None, 'START inside the bank loader'
    plan = dict(machine='128', B=B, E=E, START=START, STACK=None, CLEAR=CLEAR, LOADER=LOADER, eff_loader=eff_loader,
                loader_len=llen, banks=banks, o7ffd=cfg['o7ffd'], fmt=cfg['fmt'], screen=cfg['screen'], input=cfg['input'],
                eff_start=eff_start, eff_stack=None)
    return plan, None


# --------------------------------------------------------------------------- building the tape
_bank_cache = {}


def bank_bytes(plan, seed, b):
    """Content of RAM bank b of the 128K input image."""
    key = (plan['content'], seed, b)
    if key not in _bank_cache:
        _bank_cache[key] = bytes(content_byte(plan['content'], o, tag(o, seed, b)) for o in range(16384))
    return _bank_cache[key]


def build_tape(plan, seed, d, stem='p'):
    """Run bin2tap.main for `plan`.  Returns (ToolResult, tape path, bin2tap argv)."""
    args = []
    if plan['machine'] == '48':
        L, ORG = plan['L'], plan['ORG']
        data = bytes(content_byte(plan['content'], a - ORG, tag(a, seed)) for a in range(ORG, ORG + L))
        if plan['input'] == 'bin':
            infile = tools.write_file(stem + '.bin', data, d)
            if plan['pass_org']:
                args += ['-o', ORG]
            if plan['pass_begin']:
                args += ['-b', plan['B']]
            if plan['pass_end']:
                args += ['-e', plan['E']]
        else:
            # a 48K snapshot as input: the program is cut out with --begin/--end (always given)
            ram = [tag(a, seed + 1) ^ 0x5A for a in range(16384, 65536)]
            ram[ORG - 16384:ORG - 16384 + L] = data
            # written by the reference writer (plain, uncompressed v3 file), not by skoolkit's own snapshot
            # writer: a fault there must not masquerade as a bin2tap failure
            infile = tools.write_file(stem + '-in.z80', snapfmt.build_z80(
                3, dict(sp=23552, i=63, iy=23610, iff1=1, iff2=1, im=1), {5: ram[:16384], 2: ram[16384:32768], 0: ram[32768:]}), d)
            args += ['-b', plan['B'], '-e', plan['E']]
        if plan['START'] is not None:
            args += ['-s', plan['START']]
        if plan['STACK'] is not None:
            args += ['-p', plan['STACK']]
        if plan['CLEAR'] is not None:
            args += ['-c', plan['CLEAR']]
    else:
        image = b''.join(bank_bytes(plan, seed, b) for b in range(8))
        if plan['input'] == 'bin':
            infile = tools.write_file(stem + '.bin', image, d)
        else:
            infile = tools.write_file(stem + '-in.szx', snapfmt.build_szx(
                dict(sp=23552, i=63, iy=23610, iff1=1, iff2=1, im=1, out7ffd=0), [image[b * 16384:(b + 1) * 16384] for b in range(8)]), d)
        args += ['--7ffd', plan['o7ffd'], '-b', plan['B'], '-c', plan['CLEAR']]
        if plan['E'] != 49152:
            args += ['-e', plan['E']]
        if plan['LOADER'] is not None:
            args += ['--loader', plan['LOADER']]
        if plan['banks'] is not None:
            args += ['--banks', ','.join(str(b) for b in plan['banks']) or ',']
        if plan['START'] is not None:
            args += ['-s', plan['START']]
    if plan['screen']:
        scr = tools.write_file(stem + '.scr', scr_bytes(seed, plan['content']), d)
        args += ['-S', scr]
    tape = os.path.join(d, stem + '.' + plan['fmt'])
    if os.path.exists(tape):
        os.remove(tape)
    args += [infile, tape]
    r = tools.run_tool('bin2tap', args)
    return r, tape, [str(a) for a in args]


def tap2sna_args(plan, tape, out, extra=()):
    a = ['--start', plan['eff_start'], '-c', 'timeout={}'.format(horizon(plan))]
    if plan['machine'] == '128':
        a += ['-c', 'machine=128']
    for p in plan['sim']:
        a += ['-c', p]
    a += list(extra)
    a += [tape, out]
    return a


def expected_memory(plan, seed):
    """List of (what, bank or None, offset-or-address, expected bytes, exempt address set)."""
    out = []
    B, E = plan['B'], plan['E']
    exempt = set()
    if plan['machine'] == '48':
        want = bytes(content_byte(plan['content'], a - plan['ORG'], tag(a, seed)) for a in range(B, E))
        if plan['CLEAR'] is None:
            # man page, STACK POINTER: "Stack operations will overwrite the bytes in the address range
            # STACK-14 to STACK-1 inclusive"
            S = plan['eff_stack']
            exempt = set(range(S - 14, S))
        out.append(('program', None, B, want, exempt))
    else:
        want = bytes(bank_bytes(plan, seed, 5 if a < 32768 else 2)[a & 0x3FFF] for a in range(B, E))
        # man page, 128K TAPES: the bank loader (39-45 bytes) is placed at CLEAR+1 / --loader
        exempt = set(range(plan['eff_loader'], plan['eff_loader'] + plan['loader_len']))
        out.append(('program', None, B, want, exempt))
        for b in (BANKS if plan['banks'] is None else plan['banks']):
            out.append(('bank {}'.format(b), b, 0, bank_bytes(plan, seed, b), set()))
    return out


def check_snapshot(plan, seed, path, stdout):
    """Oracle.  Returns list of (kind, detail)."""
    bad = []
    with open(path, 'rb') as f:
        data = f.read()
    try:
        s = snapfmt.read(data, plan['out'])
    except (snapfmt.FormatError, IndexError, ValueError, zlib.error) as e:
        # the file tap2sna wrote does not follow the published format: no emulator can restore the memory
        return [('snapshot', 'the {} snapshot written by tap2sna cannot be decoded: {}: {}'.format(plan['out'], type(e).__name__, e))]
    is128 = s.is128
    if is128 != (plan['machine'] == '128'):
        return [('machine', 'snapshot is for machine {}'.format(s.machine))]

    def peek(a):
        # the program of a 128K tape lies below 49152 (banks 5 and 2); 48K: banks 5, 2, 0 hold 16384-65535
        return s.banks[(None, 5, 2, 0)[a >> 14]][a & 0x3FFF]
    if s.pc != plan['eff_start']:
        bad.append(('pc', 'PC={} expected START={}'.format(s.pc, plan['eff_start'])))
    if 'Simulation stopped (PC at start address)' not in stdout:
        lines = [x for x in stdout.splitlines() if x.startswith('Simulation stopped')]
        bad.append(('stop', 'tap2sna did not stop at the start address: {}'.format(lines[-1] if lines else stdout[-120:])))
    if plan['CLEAR'] is None:
        if s.sp != plan['eff_stack']:
            bad.append(('sp', 'SP={} expected STACK={}'.format(s.sp, plan['eff_stack'])))
    elif not plan['CLEAR'] - 64 < s.sp <= plan['CLEAR']:
        bad.append(('sp', 'SP={} not just below CLEAR address {}'.format(s.sp, plan['CLEAR'])))
    for what, bank, base, want, exempt in expected_memory(plan, seed):
        if bank is None:
            got = bytes(peek(a) for a in range(base, base + len(want)))
            diff = [base + i for i in range(len(want)) if got[i] != want[i] and base + i not in exempt]
        else:
            got = bytes(s.banks[bank])
            diff = [i for i in range(16384) if got[i] != want[i]]
        if diff:
            a = diff[0]
            i = a - base
            bad.append(('memory', '{}: {} byte(s) differ, first at {}: {} expected {}'.format(what, len(diff), a, got[i], want[i])))
    if is128 and s.out7ffd != plan['o7ffd']:
        bad.append(('7ffd', 'port 0x7FFD holds {} expected {}'.format(s.out7ffd, plan['o7ffd'])))
    if plan['screen']:
        # -S: "Add a loading screen to the tape file": the display file must hold it when START is reached
        want = scr_bytes(seed, plan['content'])
        got = bytes(peek(a) for a in range(16384, 23296))
        if got != want:
            diff = [i for i in range(6912) if got[i] != want[i]]
            bad.append(('screen', 'loading screen: {} byte(s) differ, first at {}: {} expected {}'.format(
                len(diff), 16384 + diff[0], got[diff[0]], want[diff[0]])))
    return bad


def run_case(cfg, seed):
    """Returns (status, details, info).  status: 'excluded' | 'ok' | 'bad'."""
    plan, why = resolve(cfg)
    if plan is None:
        return 'excluded', [why], {}
    d = tools.workdir()
    r, tape, bargs = build_tape(plan, seed, d)
    info = {'plan': plan, 'bin2tap': bargs}
    if r.rc or not os.path.isfile(tape):
        return 'bad', [('bin2tap', 'bin2tap failed: {} {}'.format(r.exc, r.err[-200:]))], info
    out = os.path.join(d, 'p.' + plan['out'])
    if os.path.exists(out):
        os.remove(out)
    targs = tap2sna_args(plan, tape, out)
    info['tap2sna'] = [str(a) for a in targs]
    # wall-clock guard against a hang only (the T-state horizon is tap2sna's timeout parameter); the Python
    # simulator reading every bit of a six-bank tape takes about a minute of CPU on an idle machine
    with core.watchdog(900 if plan['sim'] else 120, 'tap2sna ' + ' '.join(info['tap2sna'])):
        t = tools.run_tool('tap2sna', targs)
    info['stdout'] = t.out
    if t.rc or not os.path.isfile(out):
        return 'bad', [('tap2sna', 'tap2sna failed: {} {}'.format(t.exc, t.err[-200:]))], info
    bad = check_snapshot(plan, seed, out, t.out)
    return ('bad' if bad else 'ok'), bad, info


def case_key(cfg):
    plan, why = resolve(cfg)
    if plan is None:
        return None
    return repr(sorted((k, v) for k, v in plan.items()))


def tags_for(cfg, plan, bad):
    t = {'machine': cfg['machine'], 'kinds': sorted({k for k, _ in bad}), 'clear': plan['CLEAR'] is not None,
         'clear_addr': plan['CLEAR'], 'fmt': plan['fmt'], 'screen': plan['screen'], 'input': plan['input'],
         'family': family(cfg), 'sim': ','.join(plan['sim']) or 'default', 'out': plan['out'], 'content': plan['content']}
    if cfg['machine'] == '48':
        t['length'] = plan['E'] - plan['B']
        # STACK relative to the first address of the data block on the tape (bin2tap.run's `org`)
        t['stack_minus_org'] = plan['eff_stack'] - plan['B']
        t['stack_minus_end'] = plan['eff_stack'] - plan['E']
    else:
        t['banks'] = 'default' if plan['banks'] is None else ','.join(str(b) for b in plan['banks'])
        t['o7ffd'] = plan['o7ffd']
        t['loader_addr'] = plan['eff_loader']
        t['loader_option'] = plan['LOADER'] is not None
    return t


def family(cfg):
    return cfg.get('family') or cfg['machine'] + 'K'


def cfg_id(cfg):
    base = BASES[family(cfg)]
    dev = ['{}={}'.format(k, v) for k, v in cfg.items() if k in base and base[k] != v]
    return family(cfg) + '/' + (','.join(dev) or 'default')


def _shard(shard, nshards, tier, seed):
    stats = core.Stats(PROPERTY)
    seen = set()
    work = []
    for k, cfg in configs(tier):
        key = case_key(cfg)
        if key is None:
            work.append((k, cfg, False))
            continue
        if key in seen:
            continue                # a symbolic alternative that resolves to an already generated tape
        seen.add(key)
        work.append((k, cfg, True))
    for i, (k, cfg, valid) in core.shard_iter(work, shard, nshards):
        if not valid:
            stats.counters['excluded_by_documentation'] += 1
            continue
        status, bad, info = run_case(cfg, seed)
        stats.evaluations += 1
        stats.transitions += 2
        stats.traces += 1
        plan = info['plan']
        stats.state((plan['machine'], plan['B'], plan['E'], plan['eff_start'], plan['eff_stack'], plan['CLEAR'], plan['fmt'],
                     plan['screen'], plan.get('banks') and tuple(plan['banks']), plan.get('o7ffd'), tuple(plan['sim']),
                     plan['out'], plan['content']))
        if k:
            stats.nontriv(cfg_id(cfg))
        stats.counters['machine_' + cfg['machine']] += 1
        stats.counters['fmt_' + plan['fmt']] += 1
        if plan['screen']:
            stats.counters['screen'] += 1
        if plan['CLEAR'] is not None:
            stats.counters['clear'] += 1
        elif plan['eff_stack'] - 14 < plan['E'] and plan['eff_stack'] > plan['B']:
            stats.counters['stack_window_overlaps_data'] += 1
            if plan['eff_stack'] - 4 < plan['E']:
                stats.counters['prefilled_stack_bytes_inside_data'] += 1
            if plan['eff_stack'] - 4 < plan['B']:
                stats.counters['prefilled_stack_bytes_begin_below_data'] += 1
        if plan['input'] != 'bin':
            stats.counters['snapshot_input'] += 1
        stats.counters['family_' + family(cfg)] += 1
        for p in plan['sim']:
            stats.counters['sim_' + p] += 1
        if 'fast-load=0' in plan['sim'] and 'python=1' not in plan['sim'] and plan['screen']:
            # the ROM's LD-BYTES, run by a C simulator, stores a non-zero byte at 16384, the first byte of RAM
            stats.counters['c_simulator_loads_byte_by_byte_from_16384'] += 1
        stats.counters['out_' + plan['out']] += 1
        stats.counters['content_' + plan['content']] += 1
        if plan['out'] == 'z80' and plan['content'] == 'runs':
            stats.counters['z80_out_of_ed_runs'] += 1
        if plan['machine'] == '128':
            stats.counters['banks_{}'.format(6 if plan['banks'] is None else len(plan['banks']))] += 1
            if plan['LOADER'] is not None:
                stats.counters['explicit_loader'] += 1
            if family(cfg) == '128K-loader' and k:
                stats.counters['loader_address_' + ('option' if plan['LOADER'] is not None else 'clear+1')] += 1
            if (plan['eff_loader'] & 255) + 38 > 255:
                # the bank table that follows the 38 bytes of loader code starts in the next 256-byte page
                stats.counters['bank_table_in_next_page_' + ('option' if plan['LOADER'] is not None else 'clear+1')] += 1
            if (plan['eff_loader'] & 255) + 38 <= 255 < (plan['eff_loader'] & 255) + plan['loader_len'] - 1:
                stats.counters['bank_table_crosses_page'] += 1
        if status == 'bad':
            stats.violation(cfg_id(cfg), {'cfg': cfg, 'seed': seed}, '; '.join(d for _, d in bad[:4]) +
                            ' [bin2tap {} ; tap2sna {}]'.format(' '.join(info['bin2tap'][:-2]), ' '.join(info.get('tap2sna', [])[:-2])),
                            tags=tags_for(cfg, plan, bad), order=i)
        if i % 97 == 0:
            stats.sample({'config': cfg_id(cfg), 'bin2tap': ' '.join(info['bin2tap'][:-2]), 'tap2sna': ' '.join(info.get('tap2sna', [])[:-2])})
    return stats


def run(tier, seed):
    stats = core.run_shards(_shard, tier, seed, prop=PROPERTY)
    d48, d128 = depth(tier)
    meta = dict(
        rule='every configuration within {} deviations of the default 48K tape (15 bytes at 32768) over length {{1,2,3,15,256,4097{}}}, ORG '
             '{{23952,24000,32768,49152,65536-len}}, START {{BEGIN,BEGIN+1,last}}, STACK {{default, END+k for k in -1,0,1,2,3,4,14, BEGIN+1..3, 65535}}, '
             'CLEAR {{none,BEGIN-1,24999,23952}}, --begin {{none,ORG+1,mid}}, --end {{none,last,mid+1}}, tap/pzx, screen, binary/Z80 input; and of the default '
             '128K tape (--begin 32768 --clear BEGIN-50 --7ffd 16, six banks) over --begin {{24200,32768,49000}}, --end {{49152,BEGIN+15}}, CLEAR '
             '{{BEGIN-50,BEGIN-1,lowest usable}}, --loader, --banks (every subset of size <= 2, the full set, the empty selection), --7ffd '
             '{{0,1,7,16,17,23}}, START, tap/pzx, screen, binary/SZX input.  I/O families: every configuration within {} deviations of the default '
             '48K tape over simulated-LOAD parameters fast-load {{1,0}}, python {{0,1}}, cmio {{0,1}}, snapshot format written by tap2sna {{szx,z80}}, '
             'content {{address tags, runs}}, screen, tap/pzx, CLEAR {{none,BEGIN-1}}, binary/Z80 input, length {{15,256}}; and within {} deviations of '
             'the 128K tape --begin 32768 --end 32783 --clear BEGIN-50 --7ffd 16 --banks 3 over the same fast-load, python, cmio, snapshot format '
             'and content dimensions, screen, tap/pzx, --banks {{3, default six, none}}, --end {{BEGIN+15,49152}}, binary/SZX input.  Content '
             '"runs" fills the binary (from its first byte), every 128K bank and the loading screen with an 87-byte pattern tiled: runs of 1..6 '
             'bytes 0xED and of 1..6 bytes 0x00, each followed by one address-tag byte, then 0xED followed by 1..6 zeros and a tag byte (the '
             'alphabet of the Z80 format\'s run-length coding: escape byte from 2 repetitions, other bytes from 5).  Bank loader address family: the same 128K base tape with the bank '
             'loader at every address {}+lo, lo = 0..255 (every position of the loader code and its bank table relative to a 256-byte page '
             'boundary), placed with --loader ADDR (--clear {}) and by default at CLEAR+1 (--clear ADDR-1): 512 tapes{}.  One evaluation = '
             'bin2tap.main + tap2sna.main + oracle; non-trivial = any non-default configuration; content seed {} only rotates the byte-tag '
             'formula'.format(d48, ',41000' if tier == 'thorough' else '', d128, d48, d128, LOADER_PAGE, LOADER_CLEAR,
                              ', each also with one further deviation over --banks {3, none, 1+3}, tap/pzx, START {BEGIN,last}, binary/SZX input'
                              if tier == 'thorough' else '', seed),
        exhaustive=True,
        bound='configuration deviations d <= {} from the default 48K tape and d <= {} from the default 128K tape, in the tape families and '
              'in the I/O families; bank loader address family: all 2 x 256 addresses with d <= {} further deviations (complete)'.format(d48, d128, d128 - 2),
        assumptions=[
            'option combinations the bin2tap man page excludes are not generated: STACK < 16398, CLEAR < 23952 (48K) / 23957 / 23977 with a '
            'screen (128K), CLEAR at or above the program, empty --begin/--end ranges, programs that do not fit below 65536',
            'STACK-14..STACK-1 is exempt from the byte comparison when no CLEAR is used (documented stack use)',
            '128K: program bytes covered by the bank loader (CLEAR+1 or --loader, 39+banks bytes) are exempt, and START is never placed inside the loader',
            'with CLEAR the man page says the stack pointer is left alone: the oracle requires CLEAR-64 < SP <= CLEAR',
            'tap2sna is always given --start START (documented stop rule) and -c timeout=N (N = upper bound of the tape\'s playing time + 60 s) as the horizon; '
            'otherwise the default simulated-LOAD configuration in the tape families, and the default plus the stated fast-load/python/cmio deviations in the I/O families '
            '(accelerator, accelerate-dec-a, pause, polarity and first-edge are explored by C13 on these tapes)',
            'the snapshot is decoded with mc/refs/snapfmt.py (independent Z80/SZX decoders); a file that cannot be decoded is a violation; '
            'format-rule notes of the decoder (e.g. a repeat block shorter than the coding rules require) are C09\'s subject and ignored here',
            'with -S the loading screen must be intact in the display file when START is reached',
        ],
        required_guards=['machine_48', 'machine_128', 'fmt_pzx', 'screen', 'clear', 'stack_window_overlaps_data',
                         'prefilled_stack_bytes_inside_data', 'prefilled_stack_bytes_begin_below_data', 'snapshot_input',
                         'banks_0', 'banks_1', 'banks_2', 'banks_6', 'explicit_loader', 'excluded_by_documentation',
                         'family_48K-io', 'family_128K-io', 'sim_fast-load=0', 'sim_python=1', 'sim_cmio=1', 'out_szx', 'out_z80',
                         'content_runs', 'z80_out_of_ed_runs', 'c_simulator_loads_byte_by_byte_from_16384',
                         'family_128K-loader', 'loader_address_option', 'loader_address_clear+1', 'bank_table_in_next_page_option',
                         'bank_table_in_next_page_clear+1'],
    )
    return stats, meta


def replay(case):
    status, bad, info = run_case(case['cfg'], case.get('seed', 0))
    if status == 'excluded':
        return []
    return [d for _, d in bad]
