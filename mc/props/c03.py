"""C03 - skool -> control file -> skool round trip retains every annotation and directive.

Seam: sna2skool.main (ctl0 -> skool1), skool2ctl.main -b (-> ctl1), sna2skool.main
(ctl1 -> skool2), skool2ctl.main -b (-> ctl2); referrer comments off (ListRefs=0).
Oracle: skool2 == skool1 byte for byte, and ctl2 == ctl1 (second round trip is a
fixed point).
Space:
  S1 - every control-file layout of C01-B (blocks, sub-blocks, sublength patterns, bases,
       M and L directives) on code/text/constant fills, default options; the single-block
       layouts also under option deviations (skool2ctl -k/-h/-l, sna2skool -H/-l/-w).
  S2 - annotation layer on six representative layouts: every (annotation kind x text)
       pair - kinds: title, D x {1,2 paragraphs}, R x {plain, O: prefix}, N at start / mid,
       E, instruction comment, multi-instruction comment, M over two sub-blocks, dot and
       colon continuation lines, every kind of @ directive incl. the six @ignoreua
       positions, '>' header and footer blocks; texts: a 14-entry alphabet ('', 'x', two
       words, '.', '..', '{', '}', '{x}', 'x}', '{x', a 120-character sentence, a
       100-character unbreakable word, text with ';', text starting with '*') - every
       ordered pair of kinds with three texts, and every single under option deviations.
"""
import itertools
import os

from .. import core, tools
from . import c01

PROPERTY = 'C03'
NEEDS_C = False

TEXTS = ('', 'x', 'two words', '.', '..', '{', '}', '{x}', 'x}', '{x',
         'This sentence has about one hundred and twenty characters in it so that it must be wrapped over two lines by sna2skool ok.',
         'U' * 100, 'semi;colon here', '*star first')

A = c01.W_ORG


def ann_kinds():
    """name -> function(text, a, a2) -> (extra directive lines, title text or None).
    a = entry address, a2 = address of a later statement in the entry."""
    K = []

    def k(name, fn):
        K.append((name, fn))
    k('title', lambda t, a, a2: ([], t))
    k('D1', lambda t, a, a2: (['D {} {}'.format(a, t)], None))
    k('D2', lambda t, a, a2: (['D {} {}'.format(a, t), 'D {} Second paragraph.'.format(a)], None))
    k('R', lambda t, a, a2: (['R {} A {}'.format(a, t)], None))
    k('R-O', lambda t, a, a2: (['R {} O:BC {}'.format(a, t), 'R {} HL second'.format(a)], None))
    k('N-start', lambda t, a, a2: (['N {} {}'.format(a, t)], None))
    k('N-start2', lambda t, a, a2: (['N {} {}'.format(a, t), 'N {} para two'.format(a)], None))
    k('N-mid', lambda t, a, a2: (['N {} {}'.format(a2, t)], None))
    k('E', lambda t, a, a2: (['E {} {}'.format(a, t)], None))
    k('E2', lambda t, a, a2: (['E {} {}'.format(a, t), 'E {} the end'.format(a)], None))
    k('icomment', lambda t, a, a2: (['  {},2 {}'.format(a, t)], None))
    k('multi', lambda t, a, a2: (['B {},4,2 {}'.format(a, t)], None))
    k('M', lambda t, a, a2: (['M {},4 {}'.format(a, t), 'B {},2'.format(a), 'B {},2'.format(a + 2)], None))
    k('M-nolen', lambda t, a, a2: (['M {} {}'.format(a, t), 'B {},2 first'.format(a), 'W {},2 second'.format(a + 2)], None))
    # a comment group over instructions of mixed types (-> M directive) with comment-less statements of the
    # same type directly before and after it
    k('M-sandwich-B', lambda t, a, a2: (['B {},2'.format(a), 'M {},4 {}'.format(a + 2, t), 'B {},2'.format(a + 2), 'W {},2'.format(a + 4),
                                        'B {},2'.format(a + 6), 'B {},2,1 tail'.format(a + 8)], None))
    k('M-sandwich-C', lambda t, a, a2: (['C {},2'.format(a), 'M {},4 {}'.format(a + 2, t), 'C {},2'.format(a + 2), 'B {},2'.format(a + 4),
                                        'C {},4'.format(a + 6)], None))
    k('M-sandwich-W', lambda t, a, a2: (['W {},2'.format(a), 'M {},6 {}'.format(a + 2, t), 'W {},2'.format(a + 2), 'T {},2'.format(a + 4),
                                        'W {},2'.format(a + 6), 'W {},4'.format(a + 8)], None))
    # a mixed-type group whose last member is comment-less code, followed by comment-less code (1-byte instructions)
    k('M-tail-C', lambda t, a, a2: (['M {},2 {}'.format(a + 1, t), 'B {},1'.format(a + 1), 'C {},1'.format(a + 2), 'C {},1'.format(a + 3)], None))
    # three DEFBs and one operand-less instruction under one comment (more instructions than sub-blocks), then plain code
    k('M-tail-B3C', lambda t, a, a2: (['M {},4 {}'.format(a, t), 'B {},3,1'.format(a), 'C {},1'.format(a + 3)], None))
    k('M-tail-B2B2C', lambda t, a, a2: (['M {},5 {}'.format(a + 1, t), 'B {},2,1'.format(a + 1), 'W {},2'.format(a + 3), 'C {},1'.format(a + 5)], None))
    k('M-tail-C3', lambda t, a, a2: (['M {},3 {}'.format(a + 2, t), 'C {},1'.format(a + 2), 'B {},1'.format(a + 3), 'C {},1'.format(a + 4)], None))
    # a mixed-type group whose last code sub-block ends in an instruction without numeric operands (skool2ctl -b
    # would trim it from a comment-less sub-block), followed by comment-less code
    k('M-trim-C', lambda t, a, a2: (['M {},4 {}'.format(a, t), 'B {},1,1'.format(a), 'C {},3'.format(a + 1)], None))
    k('M-trim-C5', lambda t, a, a2: (['M {},6 {}'.format(a, t), 'B {},1,1'.format(a), 'C {},5'.format(a + 1)], None))
    k('M-trim-mid', lambda t, a, a2: (['C {},1'.format(a + 10), 'M {},5 {}'.format(a + 6, t), 'C {},4'.format(a + 6), 'B {},1'.format(a + 10)], None))
    k('dot-D', lambda t, a, a2: (['D {}'.format(a), '. {}'.format(t), '. second line'], None))
    k('dot-title', lambda t, a, a2: (['. {}'.format(t)], ''))
    k('dot-colon', lambda t, a, a2: (['B {},4,2'.format(a), '. {}'.format(t), ': forced continuation', '. third'], None))
    k('dot-colon-blank', lambda t, a, a2: (['B {},6,2'.format(a), '. {}'.format(t), ': forced continuation', '. ', '. '], None))
    k('dot-colon-blank2', lambda t, a, a2: (['B {},8,2'.format(a), '. first', ': {}'.format(t), '. ', '. last', ': and more'], None))
    # a multi-instruction comment in which a '}' comes before its matching '{' (brace balance 0, lowest depth -1)
    k('dot-revbrace', lambda t, a, a2: (['B {},4,2 }}'.format(a), '. {', '. {}'.format(t)], None))
    k('dot-header', lambda t, a, a2: (['. Title here', '.', '. {}'.format(t), '.', '.   A Input', '. O:B Output', '.', '. Start comment.'], ''))
    for d in ('label=START', 'keep', 'nowarn', 'ignoreua', 'rem=hello there', 'org', 'equ=FOO=1', 'assemble=2', 'defb=1,2', 'if({asm})(label=X)',
              'replace=/foo/bar', 'expand=#LET(x=1)', 'start', 'end', 'isub=DEFB 1', 'ofix=DEFB 2 ; fixed', 'rsub=!{}'.format(A + 1),
              'bfix=>DEFB 9', 'ssub=|DEFB 3', 'writer=foo.Bar', 'set-crlf=1', 'refs={}'.format(A), 'bytes=62,65', 'nolabel'):
        k('@' + d.split('=')[0], lambda t, a, a2, d=d: (['@ {} {}'.format(a, d)], None))
    k('@label-mid', lambda t, a, a2: (['@ {} label=MID'.format(a2)], None))
    k('@ignoreua:t', lambda t, a, a2: (['@ {} ignoreua:t'.format(a)], t or 'T'))
    k('@ignoreua:d', lambda t, a, a2: (['@ {} ignoreua:d'.format(a), 'D {} {}'.format(a, t or 'd')], None))
    k('@ignoreua:r', lambda t, a, a2: (['@ {} ignoreua:r=32768'.format(a), 'R {} A {}'.format(a, t or 'r')], None))
    k('@ignoreua:m', lambda t, a, a2: (['@ {} ignoreua:m'.format(a), 'N {} {}'.format(a, t or 'm')], None))
    k('@ignoreua:m-mid', lambda t, a, a2: (['@ {} ignoreua:m=1,2'.format(a2), 'N {} {}'.format(a2, t or 'm')], None))
    k('@ignoreua:e', lambda t, a, a2: (['@ {} ignoreua:e'.format(a), 'E {} {}'.format(a, t or 'e')], None))
    k('@ignoreua:i', lambda t, a, a2: (['@ {} ignoreua:i'.format(a), '  {},2 {}'.format(a, t or 'i')], None))
    k('>header', lambda t, a, a2: (['> {} ; {}'.format(a, t), '> {} ; second header line'.format(a)], None))
    k('>header2', lambda t, a, a2: (['> {} ; {}'.format(a, t), '> {}'.format(a), '> {} ; block two'.format(a)], None))
    k('>footer', lambda t, a, a2: (['> {},1 ; {}'.format(a, t)], None))
    return K


# sixteen 1-byte instructions (every address is a statement boundary)
c01.FILLS.setdefault('ops1', bytes((0xAF, 0x3C, 0x3D, 0x04, 0x05, 0x0C, 0x0D, 0xB7, 0xA7, 0x2F, 0x37, 0x3F, 0x00, 0xD9, 0x08, 0xC9)))

# DEFB 1 ; LD A,5 ; RET ; NOP ; NOP ; LD A,7 ; INC A ; RET ; XOR A ; NOP x4 ; RET
# four LD (IX/IY+d),n instructions (two numeric operands each, all non-zero): family S4, two-letter base prefixes
c01.FILLS.setdefault('ixn', bytes((0xDD, 0x36, 0x05, 0xFD, 0xFD, 0x36, 0xFB, 0x03, 0xDD, 0x36, 0x7F, 0x80, 0xFD, 0x36, 0x80, 0x7F)))
c01.FILLS.setdefault('mixops', bytes((0x01, 0x3E, 0x05, 0xC9, 0x00, 0x00, 0x3E, 0x07, 0x3C, 0xC9, 0xAF, 0x00, 0x00, 0x00, 0x00, 0xC9)))

BASE_LAYOUTS = (
    ('code', 'c'), ('code', 'b'), ('text', 't'), ('const', 's'), ('text', 'w'), ('code', 'g'), ('ops1', 'c'), ('code', 'i'), ('mixops', 'c'),
)


PARAGRAPH_KINDS = ('D1', 'D2', 'N-start', 'N-start2', 'N-mid', 'E', 'E2', 'dot-D', 'dot-title', 'dot-header', '@ignoreua:t', '@ignoreua:d',
                   '@ignoreua:m', '@ignoreua:m-mid', '@ignoreua:e')


def allowed(kname, text, fill, btype):
    """Domain rules of the annotation generator (what a skool file can express at all):
    in a skool file a line consisting of '.' separates paragraphs and an empty paragraph
    does not exist, so titles/paragraphs are never '' or '.' (blank and dots-only texts
    belong to instruction-level comments, where the property names them); @bytes is
    only meaningful on an instruction whose bytes it lists."""
    if btype == 'i' and (kname in ('N-mid', 'icomment', 'multi', '@label-mid', '@ignoreua:m-mid', '@ignoreua:i', '@bytes', 'dot-revbrace')
                         or kname.startswith(('M', 'dot-colon'))):
        # an 'i' entry is generated empty (no sub-blocks): it has a header, a start comment, an end comment and
        # directives on its single address, but no second statement and no instruction comments
        return False
    if kname.startswith('M-trim') != (fill == 'mixops') and (kname.startswith('M-trim') or fill == 'mixops'):
        # the mixed-operand fill is used for (and only for) the M-trim kinds and the plain header kinds
        if kname.startswith('M-trim') or kname in ('icomment', 'multi', 'M', 'M-nolen', 'dot-colon', 'M-sandwich-B', 'M-sandwich-C', 'M-sandwich-W',
                                                   '@ignoreua:i', '@bytes', 'dot-colon-blank', 'dot-colon-blank2', 'dot-revbrace') or kname.startswith('M-tail'):
            return False
    if kname in PARAGRAPH_KINDS and text in ('', '.'):
        return False
    if kname == 'title' and text == '.':
        return False
    if kname in ('R', 'R-O') and text == '':
        return False
    if kname == '@bytes' and not (fill == 'code' and btype == 'c'):
        return False
    if kname == 'M-sandwich-C' and not (fill == 'code' and btype == 'c'):
        return False
    if kname.startswith('M-tail') != (fill == 'ops1') and (kname.startswith('M-tail') or fill == 'ops1'):
        # the 1-byte-instruction fill is used for (and only for) the M-tail kinds and the plain header kinds
        if kname.startswith('M-tail') or kname in ('icomment', 'multi', 'M', 'M-nolen', 'dot-colon', 'M-sandwich-B', 'M-sandwich-C', 'M-sandwich-W', '@ignoreua:i', '@bytes', 'dot-colon-blank', 'dot-colon-blank2', 'dot-revbrace'):
            return False
    return True


def needs_keep(ctl):
    """Dot/colon directives carry explicit line breaks, which skool2ctl preserves only with -k."""
    return any(l.startswith(('. ', ': ', '.\n')) or l in ('.', ':') for l in ctl.split('\n'))


def annotated_ctl(fill, btype, kinds_texts):
    """Build ctl0 for one entry of type btype over the 16-byte window with annotations."""
    K = dict(ann_kinds())
    lines = []
    title = None
    for kname, text in kinds_texts:
        extra, t = K[kname](text, A, A + 4)
        if t is not None:
            title = t
        lines.extend(extra)
    head = '{} {}'.format(btype, A)
    if title:
        head += ' ' + title
    # '>' directives and '@' directives may come anywhere; keep the generator's order: block line first,
    # except dot-title/dot-header lines, which must follow the block directive immediately
    dots = [l for l in lines if l.startswith('.') and (lines.index(l) == 0 or True)]
    first_dots = []
    rest = []
    seen_non_dot = False
    for l in lines:
        if not seen_non_dot and l.startswith('.') and title == '':
            first_dots.append(l)
        else:
            seen_non_dot = True
            rest.append(l)
    return '\n'.join([head] + first_dots + rest + ['i {}'.format(A + 16)]) + '\n'


S2C_OPTS = ((), ('-k',), ('-h',), ('-l',), ('-k', '-h'))
S2S_OPTS = ((), ('-H',), ('-l',), ('-w', '60'), ('-w', '120'), ('-H', '-l'))


def round_trip(fill, ctl0, s2c=(), s2s=()):
    """Returns (problems, ill_formed, executions)."""
    d = tools.workdir()
    data = c01.FILLS[fill]
    binfile = os.path.join(d, 'c03_' + fill + '.bin')
    if not os.path.exists(binfile):
        tools.write_file('c03_' + fill + '.bin', data, d)
    # 'NOEND': no -e option, so the terminal 'i' directive becomes a final 'i' entry running to 65536 (the usual
    # shape of a disassembly made from a snapshot); sna2skool writes nothing for it
    noend = 'NOEND' in s2s
    s2s = [x for x in s2s if x != 'NOEND']
    common = ['-o', str(A)] + ([] if noend else ['-e', str(A + 16)]) + ['-I', 'ListRefs=0'] + list(s2s)
    ctl0f = tools.write_file('c03_0.ctl', ctl0, d)
    r1 = tools.run_tool('sna2skool', common + ['-c', ctl0f, binfile])
    if r1.rc:
        return ['sna2skool(ctl0) failed: {} {}'.format(r1.exc, r1.err[-150:])], False, 1
    if fill == 'ixn' and 'Ignoring line' in r1.err:
        # family S4: these control files are well-formed by construction (a documented base prefix of one or two letters
        # on a length); a line that the control file parser rejects is a directive that is not retained
        return ['sna2skool(ctl0) rejected a line of a well-formed control file: {}'.format(next(l for l in r1.err.splitlines() if 'Ignoring line' in l)[:200])], False, 1
    if 'WARNING' in r1.err:
        return [], True, 1
    sk1 = tools.write_file('c03_1.skool', r1.out, d)
    c1 = tools.run_tool('skool2ctl', ['-b'] + list(s2c) + [sk1])
    if c1.rc:
        return ['skool2ctl(skool1) failed: {} {}'.format(c1.exc, c1.err[-150:])], False, 2
    ctl1f = tools.write_file('c03_1.ctl', c1.out, d)
    r2 = tools.run_tool('sna2skool', common + ['-c', ctl1f, binfile])
    if r2.rc:
        return ['sna2skool(ctl1) failed: {} {}'.format(r2.exc, r2.err[-150:])], False, 3
    problems = []
    if r2.out != r1.out:
        l1, l2 = r1.out.splitlines(), r2.out.splitlines()
        for i in range(max(len(l1), len(l2))):
            x = l1[i] if i < len(l1) else '<missing>'
            y = l2[i] if i < len(l2) else '<missing>'
            if x != y:
                problems.append('skool line {}: original {!r} / regenerated {!r}'.format(i + 1, x, y))
                break
    sk2 = tools.write_file('c03_2.skool', r2.out, d)
    c2 = tools.run_tool('skool2ctl', ['-b'] + list(s2c) + [sk2])
    if c2.rc:
        problems.append('skool2ctl(skool2) failed: {}'.format(c2.exc))
    elif c2.out != c1.out:
        l1, l2 = c1.out.splitlines(), c2.out.splitlines()
        for i in range(max(len(l1), len(l2))):
            x = l1[i] if i < len(l1) else '<missing>'
            y = l2[i] if i < len(l2) else '<missing>'
            if x != y:
                problems.append('ctl line {}: first {!r} / second {!r}'.format(i + 1, x, y))
                break
    return problems, False, 4


def cases(tier):
    # S1: structural layouts
    for fill in ('code', 'text', 'const'):
        for ctl, ign, desc in c01.layouts(fill, tier):
            if ctl.startswith('i '):
                continue
            yield ('S1', fill, ctl, desc, (), ())
            if len(desc.split('@')[0].split('+')[0]) == 1:
                for s2c in S2C_OPTS[1:]:
                    yield ('S1', fill, ctl, desc, s2c, ())
                for s2s in S2S_OPTS[1:]:
                    yield ('S1', fill, ctl, desc, (), s2s)
    # S2: annotations
    kinds = [k for k, _ in ann_kinds()]
    for fill, btype in BASE_LAYOUTS:
        for kname in kinds:
            for ti, text in enumerate(TEXTS):
                if not allowed(kname, text, fill, btype):
                    continue
                ctl = annotated_ctl(fill, btype, [(kname, text)])
                keep = needs_keep(ctl)
                yield ('S2', fill, ctl, '{}:{}#{}'.format(btype, kname, ti), ('-k',) if keep else (), ())
                if fill in ('code', 'text') and btype in ('c', 't'):
                    for s2c in S2C_OPTS[1:]:
                        if keep and '-k' not in s2c:
                            continue
                        yield ('S2', fill, ctl, '{}:{}#{}'.format(btype, kname, ti), s2c, ())
                    for s2s in S2S_OPTS[1:]:
                        yield ('S2', fill, ctl, '{}:{}#{}'.format(btype, kname, ti), ('-k',) if keep else (), s2s)
    # S3: the same annotations in a file whose last entry is a final 'i' entry to 65536 (no -e)
    for fill, btype in (('code', 'c'), ('text', 't')):
        for kname in kinds:
            for ti in ((2, 7) if tier == 'quick' else range(len(TEXTS))):
                text = TEXTS[ti]
                if not allowed(kname, text, fill, btype):
                    continue
                ctl = annotated_ctl(fill, btype, [(kname, text)])
                yield ('S3', fill, ctl, '{}:{}#{}/noend'.format(btype, kname, ti), ('-k',) if needs_keep(ctl) else (), ('NOEND',))
                # ... and with a title on that final 'i' entry (it then does produce output)
                ctl_t = ctl.replace('\ni {}\n'.format(A + 16), '\ni {} Unused\n'.format(A + 16))
                yield ('S3', fill, ctl_t, '{}:{}#{}/noend-titled'.format(btype, kname, ti), ('-k',) if needs_keep(ctl) else (), ('NOEND',))
    # S4: base prefixes of one and two letters on instructions with two numeric operands (LD (IX+d),n), as the length of
    # one sub-block and of two sub-blocks with different prefixes
    letters = 'bcdhmn'
    prefixes = list(letters) + [x + y for x in letters for y in letters]
    for p1 in prefixes:
        ctl = 'c {0} Routine\nC {0},{1}16 two operands\ni {2}\n'.format(A, p1, A + 16)
        for s2c in S2C_OPTS:
            yield ('S4', 'ixn', ctl, 'c:base-{}'.format(p1), s2c, ())
        for s2s in S2S_OPTS[1:]:
            yield ('S4', 'ixn', ctl, 'c:base-{}'.format(p1), (), s2s)
        for p2 in ('dm', 'hm', 'mn', 'm', 'nd'):
            if p2 != p1:
                ctl2 = 'c {0} Routine\nC {0},{1}8 first\nC {2},{3}8 second\ni {4}\n'.format(A, p1, A + 8, p2, A + 16)
                yield ('S4', 'ixn', ctl2, 'c:base-{}+{}'.format(p1, p2), (), ())
    pair_texts = (2, 7, 10) if tier == 'quick' else range(len(TEXTS))
    pair_layouts = BASE_LAYOUTS[:2] if tier == 'quick' else BASE_LAYOUTS
    for fill, btype in pair_layouts:
        for k1, k2 in itertools.product(kinds, repeat=2):
            if k1 == k2:
                continue
            if k1.startswith('M-t') and k2.startswith('M-t'):
                continue        # two mixed-type groups laid over the same bytes: contradictory directives
            for ti in pair_texts:
                t1, t2 = TEXTS[ti], TEXTS[(ti + 3) % len(TEXTS)]
                if not (allowed(k1, t1, fill, btype) and allowed(k2, t2, fill, btype)):
                    continue
                # an entry header written entirely with dot directives cannot be combined with
                # separate header directives or entry-level ASM directives (documented)
                if 'dot-header' in (k1, k2) or 'dot-title' in (k1, k2):
                    other = k2 if k1.startswith('dot-') else k1
                    if other not in ('icomment', 'multi', 'M', 'M-nolen', 'N-mid', 'E', 'E2', '>header', '>header2', '>footer', '@label-mid', 'dot-colon'):
                        continue
                ctl = annotated_ctl(fill, btype, [(k1, t1), (k2, t2)])
                yield ('S2', fill, ctl, '{}:{}+{}#{}'.format(btype, k1, k2, ti), ('-k',) if (ti == 10 or needs_keep(ctl)) else (), ())


def _shard(shard, nshards, tier, seed):
    stats = core.Stats(PROPERTY)
    for i, (part, fill, ctl, desc, s2c, s2s) in core.shard_iter(cases(tier), shard, nshards):
        problems, ill, n = round_trip(fill, ctl, s2c, s2s)
        stats.evaluations += 1
        stats.transitions += n
        if ill:
            stats.counters['illformed_not_judged'] += 1
            continue
        stats.traces += 1
        stats.counters[part + '_judged'] += 1
        stats.nontriv((part, fill, desc, s2c, s2s))
        stats.state((part, desc.split('#')[0] if part == 'S2' else desc.split('+')[0]))
        if problems:
            stats.violation('{}/{}/{}/{}{}'.format(part, fill, desc, ' '.join(s2c) or '-', ' '.join(s2s)),
                            {'fill': fill, 'ctl': ctl, 's2c': list(s2c), 's2s': list(s2s)}, '; '.join(problems[:2]) + ' | ctl0: ' + ctl.replace('\n', ' / ')[:300],
                            tags={'group': part, 'kinds': desc.split('#')[0], 's2c': ' '.join(s2c), 's2s': ' '.join(s2s)}, order=i)
        if i % 4000 == 0:
            stats.sample({'part': part, 'fill': fill, 'ctl0': ctl.strip().split('\n'), 'skool2ctl': list(s2c), 'sna2skool': list(s2s)})
    return stats


def run(tier, seed):
    stats = core.run_shards(_shard, tier, seed, prop=PROPERTY)
    meta = dict(
        rule='S1: every C01-B control-file layout not starting with an ignored block (3 fills) with default options, single-block layouts also under '
             '5 skool2ctl and 6 sna2skool option sets; S2: on 6 representative entries every (annotation kind x text) pair ({} kinds x 14 texts), '
             'also under the option sets for two of them, and every ordered pair of distinct kinds with {} texts. Each case = 4 tool executions '
             '(sna2skool, skool2ctl -b, sna2skool, skool2ctl -b); oracle: skool2 == skool1 and ctl2 == ctl1. S4: four LD (IX/IY+d),n instructions under every base prefix of one or two letters (42) x 5 skool2ctl and 6 sna2skool option sets, and as two sub-blocks with different prefixes; there a control-file line rejected by the parser is a violation too. states = distinct layout/annotation '
             'shapes'.format(len(ann_kinds()), 3 if tier == 'quick' else 14),
        exhaustive=True,
        bound='<= 2 blocks / <= 1 sub-block structurally; <= 2 annotation kinds per entry',
        assumptions=['ctl0 layouts that make sna2skool warn are ill-formed (counted, not judged)',
                     'ASM block directives inside entries are a documented limitation of control files and are not generated'],
        required_guards=['S1_judged', 'S2_judged'],
    )
    return stats, meta


def replay(case):
    p, ill, n = round_trip(case['fill'], case['ctl'], tuple(case['s2c']), tuple(case['s2s']))
    return p
