"""C05 - the Z80 simulators implement documented Z80 instruction semantics.

All four implementations (Simulator, CMIOSimulator, fresh CSimulator, CCMIOSimulator) are
run for one instruction and compared with the reference model mc/refs/z80ref.py (flags from
arithmetic definitions, timing from machine cycles): every register, F under the
documented-bits mask, PC, SP, R, T, IFF/IM/HALT, the port log and the whole 64K memory.

Three complete enumerations:
 (i)  tables: every (A, operand, carry) tuple of every 8-bit ALU operation, every
      (value, carry) of every rotate/shift, INC/DEC, every BIT, DAA for all (A,C,H,N),
      NEG/CPL/SCF/CCF for all A (and all F for SCF/CCF), RLD/RRD for all (A,(HL));
 (ii) full slot set x 5 operand fillings x state deviations: from 2 base states, every
      register pair over a 14-value boundary alphabet, A/F/I/R/T/IFF/IM over theirs
      (one deviation at a time), port answers {00,7F,80,FF} for input instructions;
      16-bit arithmetic over the full 14 x 14 x 2 grid;
 (iii) PC wrap points: every slot at PC in {0000,3FFD..4000,FFFD..FFFF}.
The contended simulators are started outside the contended part of the frame, where the
documented (uncontended) timing applies; contention itself is C19's subject.
"""
import itertools

from .. import core, stepcmp
from ..refs import z80ref
from .c07 import slots as c07_slots

PROPERTY = 'C05'
NEEDS_C = True

PAIR_VALUES = (0x0000, 0x0001, 0x0002, 0x00FF, 0x0100, 0x0FFF, 0x1000, 0x3FFF, 0x4000, 0x7FFF, 0x8000, 0xBFFF, 0xC000, 0xFFFF)
BYTE_VALUES = (0x00, 0x01, 0x0F, 0x10, 0x7F, 0x80, 0xFF)
F_VALUES = (0x00, 0xFF, 0x01, 0x02, 0x04, 0x10, 0x40, 0x80, 0xD7, 0x28)
T_VALUES = (0, 4, 20, 28, 31, 32, 1000, 60000, 69860, 69880, 69884, 69887, 69888, 69888 + 31, 16777216 - 4)
OPERANDS = ((0x12, 0x34), (0xFF, 0x3F), (0x00, 0x40), (0xFF, 0xFF), (0x85, 0xFE))
ANSWERS = (0x00, 0x7F, 0x80, 0xFF)

BASES = (
    dict(A=0x5A, F=0x00, B=0x02, C=0x03, D=0x90, E=0x10, H=0xA0, L=0xFF, IXh=0xB0, IXl=0x02, IYh=0xC0, IYl=0x80,
         SP=0xFF00, I=0x3F, R=0x7F, xA=1, xF=2, xB=3, xC=4, xD=5, xE=6, xH=7, xL=8, T=1000, IFF=1, IM=1),
    dict(A=0xA5, F=0xFF, B=0x01, C=0x00, D=0x40, E=0x00, H=0x3F, L=0xFF, IXh=0x3F, IXl=0xFE, IYh=0xFF, IYl=0xFF,
         SP=0x4001, I=0x80, R=0xFF, xA=0xF1, xF=0xF2, xB=0xF3, xC=0xF4, xD=0xF5, xE=0xF6, xH=0xF7, xL=0xF8,
         T=60000, IFF=0, IM=2),
)
PAIRS = {'BC': ('B', 'C'), 'DE': ('D', 'E'), 'HL': ('H', 'L'), 'IX': ('IXh', 'IXl'), 'IY': ('IYh', 'IYl')}


def make_state(base, addr, over):
    d = dict(BASES[base])
    d.update(over)
    return z80ref.State(PC=addr, **d)


def pair_over(pair, v):
    if pair == 'SP':
        return {'SP': v}
    hi, lo = PAIRS[pair]
    return {hi: v >> 8, lo: v & 0xFF}


def deviations_for(code):
    """State overrides explored for one slot: one deviation at a time from each base."""
    yield {}
    for pair in ('BC', 'DE', 'HL', 'IX', 'IY', 'SP'):
        for v in PAIR_VALUES:
            yield pair_over(pair, v)
    for v in BYTE_VALUES:
        yield {'A': v}
    for v in F_VALUES:
        yield {'F': v}
    for v in (0x00, 0x40, 0x7F, 0xFF):
        yield {'I': v}
    for v in (0x00, 0x7E, 0x80, 0xFE):
        yield {'R': v}
    for t in T_VALUES:
        for iff in (0, 1):
            yield {'T': t, 'IFF': iff}
    for im in (0, 1, 2):
        yield {'IM': im}


D2_VALUES = (0x0000, 0x00FF, 0x3FFF, 0x4000, 0x7FFF, 0xFFFF)


def deviations2_for(code):
    """Second-order deviations (thorough tier): two register pairs jointly, and a pair
    jointly with F, over a 6-value edge alphabet."""
    names = ('BC', 'DE', 'HL', 'IX', 'IY', 'SP')
    for i, p in enumerate(names):
        for q in names[i + 1:]:
            for v, w in itertools.product(D2_VALUES, repeat=2):
                over = dict(pair_over(p, v))
                over.update(pair_over(q, w))
                yield over
        for v in D2_VALUES:
            for f in F_VALUES:
                over = dict(pair_over(p, v))
                over['F'] = f
                yield over
    for a in BYTE_VALUES:
        for f in F_VALUES:
            yield {'A': a, 'F': f}


def ddcb_slot(code):
    return code[0] in (0xDD, 0xFD) and code[1] == 0xCB


def is_16bit_arith(code):
    if code[0] == 0xED:
        return code[1] & 0xC7 in (0x42, 0x4A)
    if code[0] in (0xDD, 0xFD):
        return code[1] & 0xCF == 0x09
    return code[0] & 0xCF == 0x09


def reads_port(code):
    if code[0] == 0xDB:
        return True
    if code[0] == 0xED:
        return code[1] & 0xC7 == 0x40 or code[1] in (0xA2, 0xAA, 0xB2, 0xBA)
    return False


# ------------------------------------------------------------------------------ table cases
def table_groups():
    """(group name, code bytes, iterator of state overrides).  Complete products."""
    for k in range(8):                      # ALU A,B : all A x B x carry
        yield 'alu%d' % k, (0x80 + 8 * k,), 'AB'
    for k in range(8):                      # CB rot B : all B x carry
        yield 'rot%d' % k, (0xCB, 8 * k), 'Bc'
    for op in (0x07, 0x0F, 0x17, 0x1F, 0x2F, 0x3F, 0x37):   # RLCA RRCA RLA RRA CPL CCF SCF: all A x all F
        yield 'acc%02X' % op, (op,), 'AF'
    yield 'daa', (0x27,), 'AF'              # DAA: all A x all F (covers every C,H,N)
    yield 'neg', (0xED, 0x44), 'Ac'
    yield 'inc', (0x04,), 'Bc'
    yield 'dec', (0x05,), 'Bc'
    for n in range(8):
        yield 'bit%d' % n, (0xCB, 0x40 + 8 * n), 'Bc'
    yield 'rld', (0xED, 0x6F), 'AM'
    yield 'rrd', (0xED, 0x67), 'AM'
    # the same tables reached through the other operand forms (immediate, (HL), (IX+d), IXh):
    for k in range(8):
        yield 'alu%d_n' % k, (0xC6 + 8 * k,), 'An'
        yield 'alu%d_hl' % k, (0x86 + 8 * k,), 'AMg'
        yield 'alu%d_xy' % k, (0xDD, 0x86 + 8 * k, 0x05), 'AXg'
        yield 'alu%d_xh' % k, (0xFD, 0x84 + 8 * k), 'AYg'
    for k in range(8):
        yield 'rot%d_hl' % k, (0xCB, 0x06 + 8 * k), 'Mc'
        yield 'rot%d_xy' % k, (0xDD, 0xCB, 0xFB, 0x06 + 8 * k), 'Xc'
        yield 'rot%d_xyr' % k, (0xFD, 0xCB, 0x03, 0x02 + 8 * k), 'Yc'


GRID = tuple(sorted(set(list(range(0, 256, 17)) + [0x01, 0x0F, 0x10, 0x7F, 0x80, 0x8F, 0xF0, 0xFE, 0x99, 0x9A])))


def table_cases(name, code, shape):
    """Yield (code, state overrides, extra memory pokes) for one table group."""
    if shape == 'AB':
        for a, b, c in itertools.product(range(256), range(256), (0, 1)):
            yield code, {'A': a, 'B': b, 'F': c | (0xD6 if b & 1 else 0)}, ()
    elif shape == 'Bc':
        for b, f in itertools.product(range(256), (0x00, 0x01, 0xFF, 0xFE)):
            yield code, {'B': b, 'F': f}, ()
    elif shape == 'Ac':
        for a, f in itertools.product(range(256), (0x00, 0x01, 0xFF, 0xFE)):
            yield code, {'A': a, 'F': f}, ()
    elif shape == 'AF':
        for a, f in itertools.product(range(256), range(256)):
            yield code, {'A': a, 'F': f}, ()
    elif shape == 'AM':
        for a, m in itertools.product(range(256), range(256)):
            yield code, {'A': a, 'H': 0x90, 'L': 0x00, 'F': (a ^ m) & 1}, ((0x9000, m),)
    elif shape == 'An':
        for a, n, c in itertools.product(range(256), range(256), (0, 1)):
            yield code + (n,), {'A': a, 'F': c}, ()
    elif shape == 'AMg':
        for a, m, c in itertools.product(GRID, range(256), (0, 1)):
            yield code, {'A': a, 'H': 0x90, 'L': 0x00, 'F': c}, ((0x9000, m),)
    elif shape == 'AXg':
        for a, m, c in itertools.product(GRID, range(256), (0, 1)):
            yield code, {'A': a, 'IXh': 0x90, 'IXl': 0x00, 'F': c}, ((0x9005, m),)
    elif shape == 'AYg':
        for a, m, c in itertools.product(GRID, range(256), (0, 1)):
            yield code, {'A': a, 'IYh': m, 'F': c}, ()
    elif shape == 'Mc':
        for m, f in itertools.product(range(256), (0, 1)):
            yield code, {'H': 0x90, 'L': 0x00, 'F': f}, ((0x9000, m),)
    elif shape == 'Xc':
        for m, f in itertools.product(range(256), (0, 1)):
            yield code, {'IXh': 0x90, 'IXl': 0x05, 'F': f}, ((0x9000, m),)
    elif shape == 'Yc':
        for m, f in itertools.product(range(256), (0, 1)):
            yield code, {'IYh': 0x90, 'IYl': 0x05, 'F': f}, ((0x9008, m),)
    else:
        raise AssertionError(shape)


# ------------------------------------------------------------------------------ runner
class Runner:
    def __init__(self):
        self.eng = stepcmp.Engine()
        self.answer = 0xBF
        self.eng.answer = lambda port: self.answer

    def run(self, code, addr, base, over, pokes=(), answer=0xBF, check_memory=True):
        eng = self.eng
        self.answer = answer
        for a, v in pokes:
            eng.poke(a, (v,))
        eng.poke(addr, code)
        st = make_state(base, addr, over)
        try:
            exp, res, diffs = eng.compare(st, check_memory=check_memory)
        finally:
            eng.restore()
        return exp, res, diffs


def _report(stats, group, code, addr, base, over, pokes, answer, res, diffs, order):
    case = {'code': list(code), 'addr': addr, 'base': base, 'over': over, 'pokes': [list(p) for p in pokes], 'answer': answer}
    hexb = ''.join('%02X' % b for b in code)
    cid = '{}/{}@{:04X}/b{}/{}'.format(group, hexb, addr, base, ','.join('%s=%X' % kv for kv in sorted(over.items())))
    stats.violation(cid, case, '{}: {}'.format(res.insn.text, '; '.join(diffs[:4])),
                    tags={'group': group, 'b0': code[0], 'b1': code[1] if len(code) > 1 else None, 'op': res.insn.op,
                          'impl': sorted({d.split(':')[0] for d in diffs})}, order=order)


def _shard(shard, nshards, tier, seed):
    stats = core.Stats(PROPERTY)
    rn = Runner()
    order = 0
    # (i) tables --------------------------------------------------------------------------
    groups = list(table_groups())
    units = []      # split big groups so that shards balance: (group, code, shape, slice k of 16)
    for name, code, shape in groups:
        for k in range(16):
            units.append((name, code, shape, k))
    for ui, (name, code, shape, k) in core.shard_iter(units, shard, nshards):
        n = 0
        for j, (c, over, pokes) in enumerate(table_cases(name, code, shape)):
            if j % 16 != k:
                continue
            exp, res, diffs = rn.run(c, 0x8000, 0, over, pokes, check_memory=(j % 64 == k) or bool(pokes))
            stats.evaluations += 1
            stats.transitions += 4
            n += 1
            if diffs:
                _report(stats, 'table:' + name, c, 0x8000, 0, over, pokes, 0xBF, res, diffs, ui * 100000 + j)
            if j % 4099 == 0:
                stats.state(('t', name, exp.A, exp.F))
        stats.counters['table_' + shape] += n
        stats.nontriv(('table', name, k))
    # (ii) full slot set x operand fillings x state deviations ------------------------------
    slot_list = [s for s in c07_slots()]        # 1792 slots x 2 fillings; reduce to distinct opcode slots
    seen = set()
    slots = []
    for code in slot_list:
        key = (code[0], code[1] if code[0] in (0xCB, 0xED, 0xDD, 0xFD) else None, code[3] if code[1] == 0xCB and code[0] in (0xDD, 0xFD) else None)
        if key not in seen:
            seen.add(key)
            slots.append(code)
    quick = tier == 'quick'
    operand_sets = OPERANDS[:3] if quick else OPERANDS
    for si, code0 in core.shard_iter(slots, shard, nshards):
        ddcb = code0[0] in (0xDD, 0xFD) and code0[1] == 0xCB
        for n1, n2 in operand_sets:
            if ddcb:
                code = (code0[0], 0xCB, n1, code0[3])
            elif code0[0] in (0xCB, 0xED, 0xDD, 0xFD):
                code = (code0[0], code0[1], n1, n2)
            else:
                code = (code0[0], n1, n2, 0x56)
            for base in (0, 1):
                answers = ANSWERS if reads_port(code) else (0xBF,)
                for answer in answers:
                    devs = deviations_for(code) if quick else itertools.chain(deviations_for(code), deviations2_for(code))
                    for over in devs:
                        exp, res, diffs = rn.run(code, 0x8000, base, over, (), answer)
                        stats.evaluations += 1
                        stats.transitions += 4
                        order += 1
                        if diffs:
                            _report(stats, 'slot', code, 0x8000, base, over, (), answer, res, diffs, 10**9 + si * 10000 + order % 10000)
                        if not over:
                            stats.state(('s', res.insn.op, res.insn.length, res.tstates, exp.PC, len(res.writes), len(res.ports)))
                            stats.counters['op_' + res.insn.op] += 1
                            if res.taken is not None:
                                stats.counters['taken_%s' % res.taken] += 1
                            if res.writes:
                                stats.counters['stores'] += 1
                # 16-bit arithmetic: full pair grid x carry
                if is_16bit_arith(code) and base == 0 and (n1, n2) == operand_sets[0]:
                    prefix = code[0] if code[0] in (0xDD, 0xFD) else None
                    dst = {0xDD: 'IX', 0xFD: 'IY'}.get(prefix, 'HL')
                    opb = code[1] if code[0] in (0xED, 0xDD, 0xFD) else code[0]
                    src = ('BC', 'DE', dst, 'SP')[(opb >> 4) & 3]
                    for x, y, c in itertools.product(PAIR_VALUES, PAIR_VALUES, (0, 1)):
                        if src == dst and x != y:
                            continue
                        over = dict(pair_over(dst, x))
                        over.update(pair_over(src, y))
                        over['F'] = c
                        exp, res, diffs = rn.run(code, 0x8000, 0, over)
                        stats.evaluations += 1
                        stats.transitions += 4
                        stats.counters['arith16'] += 1
                        if diffs:
                            _report(stats, 'arith16', code, 0x8000, 0, over, (), 0xBF, res, diffs, 2 * 10**9 + si)
        # (ii-b) operand sweep: every value 0..255 of every operand byte (displacement, immediate, jump offset,
        #        address byte) of this slot, from both base states
        ref0 = z80ref.decode(list(code0) + [0] * 4, 0)
        if ref0.length >= 2 and ref0.undoc not in ('prefix', 'ednop') and not (ref0.length == 2 and code0[0] in (0xCB, 0xED)):
            first = 2 if code0[0] in (0xED, 0xDD, 0xFD) else 1
            for pos in range(first, ref0.length):
                if ddcb_slot(code0) and pos == 3:
                    continue
                for v in range(256):
                    c = list(code0[:4])
                    if not (code0[0] in (0xCB, 0xED, 0xDD, 0xFD)):
                        c = [code0[0], 0x12, 0x90, 0x56]
                    elif not ddcb_slot(code0):
                        c = [code0[0], code0[1], 0x12, 0x90]
                    c[pos] = v
                    for base in (0, 1):
                        exp, res, diffs = rn.run(tuple(c), 0x8000, base, {}, (), 0xBF)
                        stats.evaluations += 1
                        stats.transitions += 4
                        stats.counters['operand_sweep'] += 1
                        if diffs:
                            _report(stats, 'operand', tuple(c), 0x8000, base, {}, (), 0xBF, res, diffs, 4 * 10**9 + si * 1000 + v)
        # (iii) PC wrap points
        code = code0 if code0[0] in (0xCB, 0xED, 0xDD, 0xFD) else (code0[0], 0x12, 0x80, 0x56)
        for addr in (0x0000, 0x3FFD, 0x3FFE, 0x3FFF, 0x4000, 0xFFFD, 0xFFFE, 0xFFFF):
            for base in (0, 1):
                for over in ({}, {'SP': 0x0000}, {'SP': 0x0001}, {'SP': 0x4000}, {'SP': 0x4001}, {'SP': 0xFFFF}):
                    exp, res, diffs = rn.run(code, addr, base, over)
                    stats.evaluations += 1
                    stats.transitions += 4
                    stats.counters['pc_wrap'] += 1
                    if diffs:
                        _report(stats, 'pcwrap', code, addr, base, over, (), 0xBF, res, diffs, 3 * 10**9 + si)
        stats.nontriv(('slot', code0[0], code0[1], code0[3]))
        if si % 211 == 0:
            stats.sample({'code': '%02X%02X%02X%02X' % code0, 'insn': z80ref.decode(list(code0) + [0] * 4, 0).text,
                          'deviations_per_base': sum(1 for _ in deviations_for(code0))})
    return stats


def run(tier, seed):
    stats = core.run_shards(_shard, tier, seed, prop=PROPERTY)
    stats.traces = stats.evaluations
    meta = dict(
        rule='(i) complete ALU/rotate/BIT/INC/DEC/DAA/NEG/CPL/SCF/CCF/RLD/RRD tables over all (A, operand, carry/F) tuples, plus the same '
             'tables through n/(HL)/(IX+d)/IYh operand forms; (ii) every opcode slot x {} operand fillings x 2 base states x one-at-a-time '
             'deviations (6 register pairs x 14 boundary values, A, F, I, R, T x IFF, IM; port answers 00/7F/80/FF) and the 14x14x2 grid for '
             '16-bit arithmetic, and all 256 values of every operand byte of every slot from both base states; (iii) every slot at 8 PC wrap points x 6 SP values. Each case = one instruction on all 4 simulators vs '
             'z80ref.step (all registers, masked F, PC, T, ports, whole memory). states = distinct (op class, length, T, PC, stores, ports) '
             'outcomes + sampled table results; non-trivial = distinct slots/table slices'.format(3 if tier == 'quick' else 5),
        exhaustive=True,
        bound='tables complete in both tiers; slot sweep with {} operand fillings, deviations d <= {}'.format(3 if tier == 'quick' else 5, 1 if tier == 'quick' else 2),
        assumptions=['oracle mc/refs/z80ref.py; undocumented bits masked: F3/F5 after SCF/CCF (Q-dependent), after BIT n,(HL) (MEMPTR), and '
                     'while a block instruction repeats; H/PV/C/F3/F5 while INIR/OTIR-type instructions repeat',
                     'contended simulators started outside the contended part of the frame (C19 covers contention)',
                     'HALT and the LD A,I/R interrupt-window rule are modelled as SkoolKit documents them (INT active for 32 T-states)'],
        required_guards=['operand_sweep', 'table_AB', 'table_AF', 'table_AM', 'arith16', 'pc_wrap', 'stores', 'taken_True', 'taken_False',
                         'op_block', 'op_bit', 'op_rot', 'op_in_r_c', 'op_halt', 'op_ld_a_ir', 'op_prefix', 'op_ednop'],
    )
    return stats, meta


def replay(case):
    rn = Runner()
    exp, res, diffs = rn.run(tuple(case['code']), case['addr'], case['base'], case['over'],
                             [tuple(p) for p in case.get('pokes', ())], case.get('answer', 0xBF))
    return ['{}: {}'.format(res.insn.text, d) for d in diffs]
