"""C06 - all four simulator implementations execute every program identically.

Pure differential check, Python vs freshly built C, for the plain pair and for the
contended pair, on 48K list memory and 128K paged memory, tracer present/absent.

Part A - explicit-state search.  State = (30 registers, memory delta, 0x7FFD latch);
an event executes one *letter* (1-3 instructions whose bytes are placed at the current
PC) on both members of a pair, or delivers an interrupt (accept_interrupt).  Breadth
first from a set of boundary states: the inner levels use the stateful alphabet S (every
letter that leaves latched state: prefixes, EI/DI, HALT, IM, I/R loads, exchanges, stack
pushes/pops at the ROM edge, repeating block instructions, paging writes, a store into
the next instruction, jumps across the 64K boundary); the last level uses the full
opcode slot set.  After every instruction: registers (all 30), the whole memory (every
bank), the latch and the port log must be identical within the pair.
Part B - the same programs laid out statically and executed by one call of
run(start, stop, interrupts) with the frame interrupt falling at every instruction
boundary of the program (start T swept over the end of the frame); and step-by-step
execution must equal the single run.
"""
import itertools

from .. import core, simh
from .c07 import slots as c07_slots

PROPERTY = 'C06'
NEEDS_C = True

PAIRS = (('py', 'c'), ('pycmio', 'ccmio'))
STOP = 0x7000          # RAM address every static program ends at


def fill(a):
    return (a * 37 + 11) & 0xFF


class LogList(list):
    """list that records which indexes are stored to (harness-side instrumentation)."""
    __slots__ = ('log', 'tag')

    def __setitem__(self, i, v):
        self.log.append((self.tag, i))
        list.__setitem__(self, i, v)


class PortTracer:
    """Recording tracer; with paging=True it pages 128K memory like SkoolKit's tools do
    (it *is* pagingtracer.PagingTracer, plus a log)."""


def make_tracer(paging):
    from skoolkit.pagingtracer import PagingTracer

    class T(PagingTracer):
        def __init__(self):
            self.log = []
            self.border = 0
            self.outfe = 0
            self.out7ffd = 0
            self.outfffd = 0
            self.ay = [0] * 16
            self.simulator = None

        def read_port(self, registers, port):
            v = (port ^ (port >> 8) ^ 0xA5) & 0xFF
            self.log.append(('in', port, v))
            return v

        def write_port(self, registers, port, value, offset=0):
            self.log.append(('out', port, value))
            if paging:
                PagingTracer.write_port(self, registers, port, value, offset)
    return T()


class Side:
    """One simulator with resettable memory.

    Python side: memory lists are LogLists, so every simulated store is known; a
    bytearray *mirror* of the memory is kept in step with them, which makes whole-memory
    comparison with the C side (bytearrays) a memcmp.  C side: stores are undone from the
    Python side's log and verified by the next comparison."""
    def __init__(self, kind, machine, with_tracer, fast=False):
        from skoolkit.pagingtracer import Memory
        self.kind = kind
        self.machine = machine
        self.is_c = kind in ('c', 'ccmio')
        # fast=True: the Python simulators' accelerated DJNZ / LDIR / LDDR paths (what trace.py and tap2sna configure
        # when nothing needs to observe single instructions); the C simulators have no such option
        fastcfg = {'fast_djnz': True, 'fast_ldir': True} if fast and not self.is_c else {}
        self.log = []
        self.applied = 0
        if machine == '48K':
            base = [fill(a) for a in range(65536)]
            self.base = base
            if self.is_c:
                mem = list(base)
            else:
                mem = LogList(base)
                mem.log = self.log
                mem.tag = 0
                self.mirror = bytearray(base)
            self.sim = simh.sim_class(kind)(mem, None, None, dict(fastcfg))
            self.mem = self.sim.memory
        else:
            banks = []
            for b in range(8):
                data = [(fill(a) + 16 * b + 1) & 0xFF for a in range(16384)]
                if self.is_c:
                    banks.append(data)
                else:
                    ll = LogList(data)
                    ll.log = self.log
                    ll.tag = b
                    banks.append(ll)
            self.basebanks = [list(b) for b in banks]
            m = Memory(banks=tuple(banks), out7ffd=0)
            self.baseroms = [list(r) for r in m.roms]
            if self.is_c:
                m.convert()
            else:
                roms = []
                for i, r in enumerate(m.roms):
                    ll = LogList(r)
                    ll.log = self.log
                    ll.tag = 8 + i
                    roms.append(ll)
                m.roms = tuple(roms)
                m.out7ffd(0)
                self.mirror = [bytearray(b) for b in self.basebanks] + [bytearray(r) for r in self.baseroms]
            cfg = dict({'frame_duration': 70908, 'int_active': 36}, **fastcfg)
            self.sim = simh.sim_class(kind)(m, None, None, cfg)
            self.mem = self.sim.memory
        self.tracer = None
        if with_tracer:
            self.tracer = make_tracer(machine == '128K')
            self.tracer.simulator = self.sim
            self.sim.set_tracer(self.tracer)
        self.pokes = []

    def region(self, tag):
        m = self.mem
        return m.banks[tag] if tag < 8 else m.roms[tag - 8]

    def baseregion(self, tag):
        return self.basebanks[tag] if tag < 8 else self.baseroms[tag - 8]

    def locate(self, addr):
        """(tag, offset) of a CPU address in 128K memory."""
        m = self.mem
        reg = m.memory[addr >> 14]
        for t in range(10):
            if self.region(t) is reg:
                return t, addr & 0x3FFF
        raise AssertionError('unmapped region')

    # --- memory access used by the harness (never logged)
    def poke(self, addr, v):
        if self.machine == '48K':
            self.pokes.append((addr, self.mem[addr]))
            if self.is_c:
                self.mem[addr] = v
            else:
                list.__setitem__(self.mem, addr, v)
                self.mirror[addr] = v
        else:
            tag, off = self.locate(addr)
            reg = self.region(tag)
            self.pokes.append((tag, off, reg[off]))
            if self.is_c:
                reg[off] = v
            else:
                list.__setitem__(reg, off, v)
                self.mirror[tag][off] = v

    def sync(self):
        """Bring the mirror up to date with the simulated stores logged so far."""
        log = self.log
        if self.machine == '48K':
            for i in range(self.applied, len(log)):
                a = log[i][1]
                self.mirror[a] = self.mem[a]
        else:
            for i in range(self.applied, len(log)):
                tag, off = log[i]
                self.mirror[tag][off] = self.region(tag)[off]
        self.applied = len(log)

    def reset(self, regs, dirty=(), force_new=False):
        if self.machine == '48K':
            for addr, old in reversed(self.pokes):
                if self.is_c:
                    self.mem[addr] = old
                else:
                    list.__setitem__(self.mem, addr, old)
                    self.mirror[addr] = old
            if self.is_c:
                for a in dirty:
                    self.mem[a] = self.base[a]
            else:
                for _, a in self.log:
                    list.__setitem__(self.mem, a, self.base[a])
                    self.mirror[a] = self.base[a]
        else:
            for tag, off, old in reversed(self.pokes):
                reg = self.region(tag)
                if self.is_c:
                    reg[off] = old
                else:
                    list.__setitem__(reg, off, old)
                    self.mirror[tag][off] = old
            if self.is_c:
                for tag, off in dirty:
                    self.region(tag)[off] = self.baseregion(tag)[off]
            else:
                for tag, off in self.log:
                    v = self.baseregion(tag)[off]
                    list.__setitem__(self.region(tag), off, v)
                    self.mirror[tag][off] = v
            if self.mem.o7ffd != 0 or (force_new and self.is_c):
                self.mem.out7ffd(0)
                if self.is_c:
                    # the C simulator keeps its own latch and bank pointers, initialised from
                    # memory.o7ffd by the constructor only: a fresh object is the only reset
                    self.sim = simh.sim_class(self.kind)(self.mem, None, None, {'frame_duration': 70908, 'int_active': 36})
                    if self.tracer:
                        self.tracer.simulator = self.sim
                        self.sim.set_tracer(self.tracer)
        del self.pokes[:]
        del self.log[:]
        self.applied = 0
        if self.tracer:
            del self.tracer.log[:]
            self.tracer.out7ffd = 0
            self.tracer.outfffd = 0
            self.tracer.outfe = 0
            self.tracer.border = 0
            self.tracer.ay = [0] * 16
        r = self.sim.registers
        for i, v in enumerate(regs):
            r[i] = v

    def probe_bank(self):
        """Which RAM bank does *simulated code* see at 0xC000?  (The C simulator keeps its own
        bank pointers; the Python-visible Memory object only mirrors them through the tracer.)
        Stamps every bank, executes LD A,(0xFFFE) from bank 2 and restores everything."""
        sim = self.sim
        r = sim.registers
        saved = [int(v) for v in r]
        m = self.mem

        def put(reg, off, v):
            if isinstance(reg, LogList):
                list.__setitem__(reg, off, v)
            else:
                reg[off] = v
        old = [bank[0x3FFE] for bank in m.banks]
        for b, bank in enumerate(m.banks):
            put(bank, 0x3FFE, 0xB0 + b)
        b2 = m.banks[2]
        code_old = [b2[0x100], b2[0x101], b2[0x102]]
        for i, v in enumerate((0x3A, 0xFE, 0xFF)):
            put(b2, 0x100 + i, v)
        sim.run(0x8100)
        seen = int(r[0]) - 0xB0
        for i, v in enumerate(code_old):
            put(b2, 0x100 + i, v)
        for b, bank in enumerate(m.banks):
            put(bank, 0x3FFE, old[b])
        for i, v in enumerate(saved):
            r[i] = v
        return seen

    def visible(self):
        m = self.mem
        rom = [i for i, r in enumerate(m.roms) if r is m.memory[0]]
        bank = [i for i, b in enumerate(m.banks) if b is m.memory[3]]
        return rom, bank


class Pair:
    def __init__(self, kinds, machine, with_tracer, fast=False):
        self.kinds = kinds
        self.machine = machine
        self.py = Side(kinds[0], machine, with_tracer, fast)
        self.c = Side(kinds[1], machine, with_tracer)
        self.dirty_c = set()
        self.probed_at = 0
        self.had_out = False

    def reset(self, regs):
        self.py.reset(regs)
        self.c.reset(regs, self.dirty_c, force_new=self.had_out)
        self.dirty_c.clear()
        self.probed_at = 0
        self.had_out = False

    def poke(self, addr, values):
        for i, v in enumerate(values):
            a = (addr + i) & 0xFFFF
            self.py.poke(a, v)
            self.c.poke(a, v)

    def compare(self):
        out = []
        py, c = self.py, self.c
        rp = [int(v) for v in py.sim.registers]
        rc = [int(v) for v in c.sim.registers]
        if rp != rc:
            names = {v: k for k, v in simh.RIDX.items()}
            names[29] = 'MEMPTR'
            names[13] = 'r13'
            for i in range(30):
                if rp[i] != rc[i]:
                    out.append('{}: {}={} {}={}'.format(names[i], self.kinds[0], rp[i], self.kinds[1], rc[i]))
        if self.machine == '48K':
            for i in range(py.applied, len(py.log)):
                self.dirty_c.add(py.log[i][1])
            py.sync()
            if c.mem != py.mirror:
                diffs = [i for i in range(65536) if c.mem[i] != py.mirror[i]]
                self.dirty_c.update(diffs)
                d4 = diffs[:4]
                out.append('memory differs at {}: {}={} {}={}'.format(d4, self.kinds[0], [py.mirror[i] for i in d4],
                                                                     self.kinds[1], [c.mem[i] for i in d4]))
        else:
            for i in range(py.applied, len(py.log)):
                self.dirty_c.add(py.log[i])
            py.sync()
            for tag in range(10):
                cr = c.region(tag)
                if cr != py.mirror[tag]:
                    diffs = [i for i in range(16384) if cr[i] != py.mirror[tag][i]]
                    self.dirty_c.update((tag, i) for i in diffs)
                    d4 = diffs[:4]
                    out.append('{} {} differs at {}: {}={} {}={}'.format(
                        'bank' if tag < 8 else 'rom', tag if tag < 8 else tag - 8, d4, self.kinds[0],
                        [py.mirror[tag][i] for i in d4], self.kinds[1], [cr[i] for i in d4]))
            if py.mem.o7ffd != c.mem.o7ffd:
                out.append('0x7FFD latch: {}={} {}={}'.format(self.kinds[0], py.mem.o7ffd, self.kinds[1], c.mem.o7ffd))
            if py.visible() != c.visible():
                out.append('paged (rom, bank): {}={} {}={}'.format(self.kinds[0], py.visible(), self.kinds[1], c.visible()))
            if py.tracer is not None and len(py.tracer.log) != self.probed_at and any(e[0] == 'out' for e in py.tracer.log[self.probed_at:]):
                # a port was written: what simulated code sees at 0xC000 must agree too
                self.probed_at = len(py.tracer.log)
                self.had_out = True
                bp, bc = py.probe_bank(), c.probe_bank()
                if bp != bc:
                    out.append('bank seen by simulated code at 0xC000: {}={} {}={}'.format(self.kinds[0], bp, self.kinds[1], bc))
        if py.tracer is not None:
            if py.tracer.log != c.tracer.log:
                out.append('port log: {}={} {}={}'.format(self.kinds[0], py.tracer.log[-3:], self.kinds[1], c.tracer.log[-3:]))
            for attr in ('out7ffd', 'outfffd', 'outfe', 'border', 'ay'):
                if getattr(py.tracer, attr) != getattr(c.tracer, attr):
                    out.append('tracer.{} differs'.format(attr))
        return out

    def step(self):
        pc = int(self.py.sim.registers[24])
        self.py.sim.run(pc)
        self.c.sim.run(pc)
        return self.compare()

    def run(self, start, stop, interrupts):
        self.py.sim.run(start, stop, interrupts)
        self.c.sim.run(start, stop, interrupts)
        return self.compare()

    def interrupt(self, prev_pc):
        a = self.py.sim.accept_interrupt(self.py.sim.registers, self.py.sim.memory, prev_pc)
        b = self.c.sim.accept_interrupt(self.c.sim.registers, self.c.sim.memory, prev_pc)
        out = self.compare()
        if bool(a) != bool(b):
            out.append('accept_interrupt returned {} / {}'.format(a, b))
        return out

    def image_hash(self):
        if self.machine == '48K':
            return core.h64(bytes(self.py.mirror))
        return core.h64(b''.join(bytes(m) for m in self.py.mirror) + bytes([self.py.mem.o7ffd & 0xFF]))

    def canon(self):
        r = tuple(int(v) for v in self.py.sim.registers)
        return core.h64((r, self.image_hash()))


# ------------------------------------------------------------------------------ alphabets
def letters_S(machine):
    """Stateful alphabet: name -> function(pc) -> list of instruction byte tuples."""
    L = []

    def fixed(name, *insns):
        L.append((name, lambda pc, insns=insns: list(insns)))
    fixed('EI', (0xFB,))
    fixed('DI', (0xF3,))
    fixed('HALT', (0x76,))
    fixed('DD', (0xDD,))
    fixed('FD', (0xFD,))
    fixed('DD DD', (0xDD,), (0xDD,))
    fixed('DD FD', (0xDD,), (0xFD,))
    fixed('EDnop', (0xED, 0x00))
    fixed('IM0', (0xED, 0x46))
    fixed('IM1', (0xED, 0x56))
    fixed('IM2', (0xED, 0x5E))
    fixed('LD A,I', (0xED, 0x57))
    fixed('LD A,R', (0xED, 0x5F))
    fixed('LD R,A', (0xED, 0x4F))
    fixed('LD I,A', (0xED, 0x47))
    fixed("EX AF,AF'", (0x08,))
    fixed('EXX', (0xD9,))
    fixed('SCF', (0x37,))
    fixed('CCF', (0x3F,))
    fixed('XOR A', (0xAF,))
    fixed('LD A,40', (0x3E, 0x40))
    fixed('PUSH HL', (0xE5,))
    fixed('POP HL', (0xE1,))
    fixed('PUSH AF', (0xF5,))
    fixed('POP AF', (0xF1,))
    fixed('LD SP,4001', (0x31, 0x01, 0x40))
    fixed('LD SP,0001', (0x31, 0x01, 0x00))
    fixed('CALL 9000', (0xCD, 0x00, 0x90))
    fixed('CALL 3FFE', (0xCD, 0xFE, 0x3F))
    fixed('RET', (0xC9,))
    fixed('RETI', (0xED, 0x4D))
    fixed('RST 8', (0xCF,))
    fixed('JP FFFE', (0xC3, 0xFE, 0xFF))
    fixed('JP FFFF', (0xC3, 0xFF, 0xFF))
    fixed('JR -128', (0x18, 0x80))
    fixed('LD BC,2;LDIR', (0x01, 0x02, 0x00), (0xED, 0xB0), (0xED, 0xB0))
    fixed('LD BC,2;LDDR', (0x01, 0x02, 0x00), (0xED, 0xB8), (0xED, 0xB8))
    fixed('LD BC,2;CPIR', (0x01, 0x02, 0x00), (0xED, 0xB1), (0xED, 0xB1))
    fixed('LD BC,2FE;INIR', (0x01, 0xFE, 0x02), (0xED, 0xB2), (0xED, 0xB2))
    fixed('LD BC,2FE;OTDR', (0x01, 0xFE, 0x02), (0xED, 0xBB), (0xED, 0xBB))
    fixed('LD HL,3FFF', (0x21, 0xFF, 0x3F))
    fixed('LD HL,FFFF', (0x21, 0xFF, 0xFF))
    fixed('LD DE,3FFF', (0x11, 0xFF, 0x3F))
    fixed('LD IX,3FFF', (0xDD, 0x21, 0xFF, 0x3F))
    fixed('LD IY,FFFF', (0xFD, 0x21, 0xFF, 0xFF))
    # a store that rewrites the operand of the next instruction
    L.append(('SMC', lambda pc: [(0x32, (pc + 4) & 0xFF, ((pc + 4) >> 8) & 0xFF), (0x06, 0x00)]))
    # a store that rewrites the *opcode* of the next instruction (A=0x3C -> INC A; else whatever A holds)
    L.append(('SMC-op', lambda pc: [(0x32, (pc + 3) & 0xFF, ((pc + 3) >> 8) & 0xFF), (0x00,)]))
    fixed('OUT (FE),A', (0xD3, 0xFE))
    fixed('IN A,(FE)', (0xDB, 0xFE))
    if machine == '128K':
        for v in (0x01, 0x07, 0x10, 0x17, 0x21, 0x30):
            fixed('PAGE %02X' % v, (0x3E, v), (0x01, 0xFD, 0x7F), (0xED, 0x79))
        fixed('OUT (FD),A', (0xD3, 0xFD))
        # block OUTs decode the port after B is decremented: B = 0x80 / 0x00 on entry sit on either side of the 0x7FFD decode
        fixed('LD BC,80FD', (0x01, 0xFD, 0x80), (0x21, 0x00, 0x90))
        fixed('LD BC,00FD', (0x01, 0xFD, 0x00), (0x21, 0x00, 0x90))
        fixed('LD BC,81FD', (0x01, 0xFD, 0x81), (0x21, 0x01, 0x90))
        fixed('LD (C000),A', (0x32, 0x00, 0xC0))
        fixed('LD A,(C000)', (0x3A, 0x00, 0xC0))
        fixed('LD (0000),A', (0x32, 0x00, 0x00))
        fixed('AY', (0x01, 0xFD, 0xFF), (0x3E, 0x07), (0xED, 0x79), (0x01, 0xFD, 0xBF), (0xED, 0x79))
    return L


def final_letters():
    """Full slot set x 2 operand fillings as single-instruction letters."""
    for code in c07_slots():
        yield code


INIT_REGS = (
    # A F B C D E H L IXh IXl IYh IYl SP - I R xA..xL PC T IFF IM HALT MEMPTR
    dict(A=0x5A, F=0x00, B=0x02, C=0x03, D=0x90, E=0x10, H=0xA0, L=0xFF, IXh=0xB0, IXl=0x02, IYh=0xC0, IYl=0x80,
         SP=0xFF00, I=0x3F, R=0x7F, xA=1, xF=2, xB=3, xC=4, xD=5, xE=6, xH=7, xL=8, PC=0x8000, T=1000, IFF=1, IM=1),
    dict(A=0x3C, F=0xFF, B=0x01, C=0x00, D=0x40, E=0x00, H=0x3F, L=0xFF, IXh=0x3F, IXl=0xFE, IYh=0xFF, IYl=0xFF,
         SP=0x4001, I=0x80, R=0xFF, xA=0xF1, xF=0xF2, xB=0xF3, xC=0xF4, xD=0xF5, xE=0xF6, xH=0xF7, xL=0xF8,
         PC=0xFFFE, T=69880, IFF=0, IM=2),
    dict(A=0x80, F=0x01, B=0x00, C=0x01, D=0xFF, E=0xFF, H=0x00, L=0x00, IXh=0xFF, IXl=0xFF, IYh=0x40, IYl=0x00,
         SP=0x0001, I=0x40, R=0x00, xA=0, xF=0, xB=0, xC=0, xD=0, xE=0, xH=0, xL=0, PC=0x3FFE, T=14335, IFF=1, IM=2),
    # display period, code in contended memory; A and BC give even (ULA) ports with a high byte in 0xC000-0xFFFF
    dict(A=0xDF, F=0x44, B=0xFF, C=0xFE, D=0xC0, E=0x00, H=0xC0, L=0x00, IXh=0x7F, IXl=0xFF, IYh=0xBF, IYl=0xFF,
         SP=0x8000, I=0xFE, R=0x80, xA=9, xF=9, xB=9, xC=9, xD=9, xE=9, xH=9, xL=9, PC=0x5B00, T=30000, IFF=0, IM=0),
)


def regs_list(d, machine):
    r = [0] * 30
    for k, v in d.items():
        r[simh.RIDX[k]] = v
    if machine == '128K' and d['T'] == 69880:
        r[25] = 70900
    return r


# ------------------------------------------------------------------------------ part A
def explore(pair, machine, init_i, depth, S, finals, stats, shard, nshards, tag):
    """Depth-bounded breadth-first search from INIT_REGS[init_i].  A state is the history
    that reaches it (fresh reset + replay on the real objects); states are de-duplicated
    by the canonical hash of (registers, memory, latch).  The inner levels are cheap and
    are computed by every shard (recorded by shard 0 only); the last level (frontier x
    full slot set) is partitioned over the shards."""
    regs = regs_list(INIT_REGS[init_i], machine)
    seen = set()
    frontier = [()]
    events = list(range(len(S))) + [-1]
    rec = stats if shard == 0 else core.Stats()
    for level in range(depth - 1):
        nxt = []
        for hist in frontier:
            for ev in events:
                h2 = hist + (ev,)
                diffs, st = replay_history(pair, regs, S, h2, (), rec)
                rec.evaluations += 1
                if diffs:
                    _viol(rec, tag, machine, pair, init_i, h2, S, None, diffs)
                    continue
                if st in seen:
                    rec.counters['merged_states'] += 1
                    continue
                seen.add(st)
                rec.state(st)
                nxt.append(h2)
        frontier = nxt
    idx = 0
    for hist in frontier:
        for fi, code in enumerate(finals):
            idx += 1
            if idx % nshards != shard:
                continue
            diffs, st = replay_history(pair, regs, S, hist, ((code,),), stats)
            stats.evaluations += 1
            if diffs:
                _viol(stats, tag, machine, pair, init_i, hist, S, list(code), diffs)
            elif fi % 97 == 0:
                stats.state(st)
        idx += 1
        if idx % nshards == shard:
            diffs, st = replay_history(pair, regs, S, hist + (-1,), (), stats)
            stats.evaluations += 1
            if diffs:
                _viol(stats, tag, machine, pair, init_i, hist + (-1,), S, None, diffs)
    return len(seen)


def replay_history(pair, regs, S, hist, extra, stats):
    """Fresh state, replay history (letter indexes / -1 = INT), then extra letters.
    Returns (diffs, canonical state hash)."""
    pair.reset(regs)
    prev_pc = regs[24]
    for ev in hist:
        if ev == -1:
            d = pair.interrupt(prev_pc)
            stats.transitions += 2
            if d:
                return ['after INT: ' + x for x in d], None
            continue
        name, fn = S[ev]
        for ins in fn(int(pair.py.sim.registers[24])):
            pc = int(pair.py.sim.registers[24])
            pair.poke(pc, ins)
            prev_pc = pc
            d = pair.step()
            stats.transitions += 2
            if d:
                return ['after {} ({}): {}'.format(name, ' '.join('%02X' % b for b in ins), x) for x in d], None
    for letter in extra:
        for ins in letter:
            pc = int(pair.py.sim.registers[24])
            pair.poke(pc, ins)
            d = pair.step()
            stats.transitions += 2
            if d:
                return ['after {}: {}'.format(' '.join('%02X' % b for b in ins), x) for x in d], None
    return [], pair.canon()


def _viol(stats, tag, machine, pair, init_i, hist, S, final, diffs):
    names = ['INT' if e == -1 else S[e][0] for e in hist]
    cid = '{}/{}/{}/i{}/{}{}'.format(tag, machine, pair.kinds[1], init_i, '>'.join(names),
                                     '' if final is None else '>' + ''.join('%02X' % b for b in final))
    stats.violation(cid, {'part': 'A', 'machine': machine, 'kinds': list(pair.kinds), 'tracer': pair.py.tracer is not None,
                          'init': init_i, 'hist': list(hist), 'hist_names': names, 'final': final}, '; '.join(diffs[:3]),
                    tags={'part': 'A', 'machine': machine, 'pair': pair.kinds[1], 'last': names[-1] if names else None,
                          'final_b0': final[0] if final else None}, order=len(hist) * 1000 + (0 if final is None else 500))


# ------------------------------------------------------------------------------ part B
def static_letters(machine):
    L = [(n, f) for n, f in letters_S(machine)
         if n not in ('HALT', 'RET', 'RETI', 'RST 8', 'JP FFFE', 'JP FFFF', 'JR -128', 'CALL 9000', 'CALL 3FFE',
                      'LD SP,0001', 'POP HL', 'POP AF', 'SMC-op', 'DI', 'LD I,A', 'IM0', 'IM2', 'LD SP,4001')]
    # block instructions: one instruction in the program text (it repeats by itself)
    L = [(n, f) for n, f in L if not n.startswith('LD BC,2')]
    for name, op in (('LDIR', 0xB0), ('LDDR', 0xB8), ('CPIR', 0xB1)):
        L.append(('LD BC,3;' + name, lambda pc, op=op: [(0x01, 0x03, 0x00), (0xED, op)]))
    for name, op in (('INIR', 0xB2), ('OTDR', 0xBB)):
        L.append(('LD BC,3FE;' + name, lambda pc, op=op: [(0x01, 0xFE, 0x03), (0xED, op)]))
    L.append(('EI;HALT', lambda pc: [(0xFB,), (0x76,)]))
    L.append(('LD B,3;DJNZ', lambda pc: [(0x06, 0x03), (0x10, 0xFE)]))
    L.append(('NOPx4', lambda pc: [(0x00,), (0x00,), (0x00,), (0x00,)]))
    return L


def build_program(letters, seq, im2):
    """Lay the letters out from 0x8000; returns (list of (addr, bytes)), end address)."""
    prog = []
    pc = 0x8000
    pre = [(0x31, 0x00, 0x7E), (0xED, 0x5E if im2 else 0x56)]     # LD SP,7E00 ; IM 2 / IM 1
    if im2:
        pre += [(0x3E, 0x7E), (0xED, 0x47)]                     # LD A,7E ; LD I,A  (vector at 7EFF/7F00)
    pre += [(0xFB,)]                                            # EI
    for ins in pre:
        prog.append((pc, ins))
        pc += len(ins)
    for i in seq:
        for ins in letters[i][1](pc):
            prog.append((pc, ins))
            pc += len(ins)
    prog.append((pc, (0xC3, STOP & 0xFF, STOP >> 8)))           # JP STOP
    return prog, pc


def run_static(pair, machine, letters, seq, im2, t0, interrupts, stats):
    regs = regs_list(INIT_REGS[0], machine)
    regs[25] = t0
    regs[26] = 0
    out = []
    prog, _ = build_program(letters, seq, im2)
    for mode in ('run', 'step'):
        if mode == 'step' and interrupts:
            break
        pair.reset(regs)
        for addr, ins in prog:
            pair.poke(addr, ins)
        isr = (0xF5, 0x3A, 0x00, 0x7C, 0x3C, 0x32, 0x00, 0x7C, 0xF1, 0xFB)   # PUSH AF; LD A,(7C00); INC A; LD (7C00),A; POP AF; EI
        pair.poke(0x7C00, (0,))
        pair.poke(0x0038, isr + (0xC9,))                        # IM 1 service routine: count; EI ; RET
        pair.poke(0x7EFF, (0x00, 0x7D))                         # IM 2 vector -> 7D00
        pair.poke(0x7D00, isr + (0xED, 0x4D))                   # IM 2 service routine: count; EI ; RETI
        if mode == 'run':
            d = pair.run(0x8000, STOP, interrupts)
            stats.transitions += 2
            if d:
                out.extend('run(): ' + x for x in d)
            final = [int(v) for v in pair.py.sim.registers], pair.image_hash()
            pair.last_isr_count = pair.py.sim.memory[0x7C00]
        elif not interrupts:
            # single steps must add up to the same thing as one run() call
            n = 0
            while int(pair.py.sim.registers[24]) != STOP or n == 0:
                d = pair.step()
                n += 1
                stats.transitions += 2
                if d:
                    out.extend('step {}: {}'.format(n, x) for x in d)
                    break
                if n > 400:
                    out.append('step-by-step execution did not reach the stop address in 400 steps')
                    break
            else:
                got = [int(v) for v in pair.py.sim.registers], pair.image_hash()
                if got != final:
                    out.append('step-by-step result differs from run(start, stop)')
    return out


def io_cases():
    """(name, bank paged at 0xC000, start clock, instructions) for part F."""
    for bank in (0, 1):
        for phase in range(8):
            t0 = 14335 + 3 * 224 + phase + (0 if bank == 0 else 0)
            for hi in (0x00, 0x40, 0x80, 0xC0, 0xFF):
                for lo in (0xFE, 0xFF, 0xFD):
                    setup = [(0x01, lo, hi), (0x21, 0x00, 0x90)]            # LD BC,port ; LD HL,9000
                    for iname, ins in (('IN A,(n)', [(0x3E, hi), (0xDB, lo)]), ('OUT (n),A', [(0x3E, hi), (0xD3, lo)]),
                                       ('IN E,(C)', [(0xED, 0x58)]), ('OUT (C),E', [(0xED, 0x59)]), ('INI', [(0xED, 0xA2)]),
                                       ('OUTI', [(0xED, 0xA3)]), ('OUTD', [(0xED, 0xAB)])):
                        yield '{} port {:02X}{:02X} bank {} phase {}'.format(iname, hi, lo, bank, phase), bank, t0, setup + ins


def fast_cases():
    """(name, register overrides, program) for the fast-loop part.  The block move / DJNZ sits at P = 0x8010 in a
    field of NOPs; the destination window slides over the instruction itself (self-modification: the bytes stored
    there are 0x3C = INC A, so whatever the overwritten code becomes still runs on to the stop address), the ROM/RAM
    edge and the 64K edge."""
    P = 0x8010
    for iff in (0, 1):
        for op, inc in ((0xB0, 1), (0xB8, -1)):
            for bc in (1, 2, 3, 5, 0x100):
                near = [P - 3, P - 2, P - 1, P, P + 1, P + 2, P + 3, P + 4, P + 5]
                far = [0x9000, 0x3FFE, 0x4001, 0xFFFE, 0x0001]
                for de in near + far:
                    srcs = (0x9100,) if de in near else (0x9100, 0x3FFF, (de + 1) & 0xFFFF, (de - 1) & 0xFFFF)
                    for hl in srcs:
                        if bc == 0x100 and not (de == 0x9000 and hl == 0x9100):
                            continue        # the long move: only away from the program
                        name = '{} BC={} DE={:04X} HL={:04X} IFF={}'.format('LDIR' if inc > 0 else 'LDDR', bc, de, hl, iff)
                        yield name, dict(B=bc >> 8, C=bc & 0xFF, D=de >> 8, E=de & 0xFF, H=hl >> 8, L=hl & 0xFF, IFF=iff), [(P, (0xED, op))]
        for b in (1, 2, 3, 0):
            for disp in (0xFE, 0xFD, 0x00, 0xFC):
                name = 'DJNZ {:02X} B={} IFF={}'.format(disp, b, iff)
                yield name, dict(B=b, IFF=iff), [(P, (0x10, disp))]
        # DJNZ $ whose own displacement byte is overwritten by a preceding store
        for a in (0x00, 0xFE, 0xFD):
            yield 'LD (P+4),A;DJNZ A={:02X} IFF={}'.format(a, iff), dict(A=a, B=3, IFF=iff), [(P, (0x32, (P + 4) & 0xFF, (P + 4) >> 8)), (P + 3, (0x10, 0xFE))]


def run_fast_case(pair, machine, regs_over, prog):
    regs = regs_list(dict(INIT_REGS[0], **regs_over), machine)
    regs[24] = 0x8008
    pair.reset(regs)
    pair.poke(0x8000, (0x00,) * 0x40)                       # NOP field
    pair.poke(0x8040, (0xC3, STOP & 0xFF, STOP >> 8))       # JP STOP
    pair.poke(0x90F0, (0x3C,) * 0x20)                       # the source bytes: INC A
    for addr, ins in prog:
        pair.poke(addr, ins)
    try:
        with core.watchdog(10, 'fast loop'):
            return pair.run(0x8008, STOP, False), False
    except core.Horizon:
        return [], True


def _shard(shard, nshards, tier, seed):
    stats = core.Stats(PROPERTY)
    quick = tier == 'quick'
    finals = list(final_letters())
    configs = []
    for machine in ('48K', '128K'):
        for kinds in PAIRS:
            for with_tracer in (True, False):
                configs.append((machine, kinds, with_tracer))
    # ---- part A
    unpref = [c for c in finals[:1792] if c[0] not in (0xCB, 0xED, 0xDD, 0xFD)]
    plans = []      # (machine, kinds, with_tracer, init, depth, finals)
    for machine, kinds, with_tracer in configs:
        if quick:
            inits = (0, 1) if with_tracer else (2,)
            fin = finals if machine == '48K' else finals[:1792]
            for i in inits:
                plans.append((machine, kinds, with_tracer, i, 2, fin))
            if with_tracer and 'cmio' in kinds[0]:
                # the contended pair also from the state inside the display period
                plans.append((machine, kinds, with_tracer, 3, 2, finals[:1792]))
        else:
            for i in range(len(INIT_REGS)):
                plans.append((machine, kinds, with_tracer, i, 2, finals))
            if with_tracer:
                for i in (0, 1):
                    plans.append((machine, kinds, with_tracer, i, 3, finals[:1792] if machine == '48K' else unpref))
    pairs = {}
    for pi, (machine, kinds, with_tracer, init_i, depth, fin) in enumerate(plans):
        S = letters_S(machine)
        if machine == '128K' and not with_tracer:
            # without a tracer nothing keeps the Python Memory object in step with port writes
            # (the C simulator pages internally, the Python one delegates paging to the tracer);
            # no tool runs in that configuration, so it is explored without port writes
            S = [l for l in S if not l[0].startswith('PAGE') and not l[0].startswith('LD BC,8') and l[0] not in ('OUT (FD),A', 'AY', 'OUT (FE),A', 'LD BC,00FD')
                 and 'OTDR' not in l[0]]
            fin = [c for c in fin if not _writes_port(c)]
        key = (machine, kinds, with_tracer)
        if key not in pairs:
            pairs[key] = Pair(kinds, machine, with_tracer)
        n = explore(pairs[key], machine, init_i, depth, S, fin, stats, shard, nshards, 'A')
        if shard == 0:
            stats.counters['A_inner_states'] += n
        stats.nontriv(('A', pi))
    pairs.clear()
    # ---- part B
    maxlen = 2
    for ci, (machine, kinds, with_tracer) in enumerate(configs):
        if not with_tracer:
            continue
        letters = static_letters(machine)
        pair = Pair(kinds, machine, True)
        fd = 69888 if machine == '48K' else 70908
        t0s = [0, 31, 33] + list(range(fd - 120, fd + 1, 4)) + [2 * fd - 40]
        if quick:
            t0s = [0, 33] + list(range(fd - 96, fd + 1, 12))
        # the same frame positions with the clock beyond 2^32 (about 20 minutes of Spectrum time)
        big = (2 ** 32 // fd + 1) * fd
        t0s += [big + x for x in ((20, fd - 48, fd - 12) if quick else (0, 20, 33, fd - 96, fd - 48, fd - 24, fd - 12, fd - 4))]
        seqs = [()]
        for n in range(1, maxlen + 1):
            seqs.extend(itertools.product(range(len(letters)), repeat=n))
        cases = itertools.product(seqs, (False, True), t0s, (False, True))
        for i, (seq, im2, t0, interrupts) in core.shard_iter(cases, shard, nshards):
            if not interrupts and any(letters[j][0] == 'EI;HALT' for j in seq):
                continue        # HALT with no interrupt source never ends (by construction, not a verdict)
            with core.watchdog(20, 'static program {} t0={}'.format([letters[j][0] for j in seq], t0)):
                d = run_static(pair, machine, letters, seq, im2, t0, interrupts, stats)
            stats.evaluations += 1
            stats.counters['B_runs'] += 1
            if interrupts and pair.last_isr_count:
                stats.counters['B_interrupt_taken'] += 1
                stats.counters['B_interrupts_im%d' % (2 if im2 else 1)] += 1
            if d:
                cid = 'B/{}/{}/{}/im{}/t{}/int{}'.format(machine, kinds[1], '>'.join(letters[j][0] for j in seq), 2 if im2 else 1, t0, int(interrupts))
                stats.violation(cid, {'part': 'B', 'machine': machine, 'kinds': list(kinds), 'seq': list(seq), 'im2': im2, 't0': t0,
                                      'interrupts': interrupts}, '; '.join(d[:3]),
                                tags={'part': 'B', 'machine': machine, 'pair': kinds[1]}, order=10**6 + i)
            elif i % 37 == 0:
                stats.state(pair.canon())
        stats.nontriv(('B', ci))
    # ---- part E: the Python simulators' fast DJNZ/LDIR/LDDR paths against the C simulators (run(start, stop) level)
    ecases = list(fast_cases())
    for machine, kinds in (('48K', ('py', 'c')), ('48K', ('pycmio', 'ccmio')), ('128K', ('py', 'c'))):
        pair = Pair(kinds, machine, True, fast=True)
        for i, (name, regs_over, prog) in core.shard_iter(ecases, shard, nshards):
            d, horizon = run_fast_case(pair, machine, regs_over, prog)
            stats.evaluations += 1
            stats.transitions += 2
            stats.counters['E_fast_loop_runs'] += 1
            if horizon:
                # a self-modifying program that never reaches the stop address on either side: not judged
                stats.counters['E_horizon_not_judged'] += 1
                pair = Pair(kinds, machine, True, fast=True)
                continue
            if d:
                stats.violation('E/{}/{}/{}'.format(machine, kinds[1], name), {'part': 'E', 'machine': machine, 'kinds': list(kinds), 'name': name},
                                '; '.join(d[:3]), tags={'part': 'E', 'machine': machine, 'pair': kinds[1]}, order=4 * 10**6 + i)
        stats.nontriv(('E', machine, kinds))
    # ---- part F: port accesses of the contended pair inside the display period (every phase of the 8 T-state pattern,
    # every port class, even and odd bank paged on the 128K)
    fcases = list(io_cases())
    for machine in ('48K', '128K'):
        pair = Pair(('pycmio', 'ccmio'), machine, True)
        for i, (name, bank, t0, prog) in core.shard_iter(fcases, shard, nshards):
            if machine == '48K' and bank:
                continue
            regs = regs_list(dict(INIT_REGS[0], T=t0, IFF=0), machine)
            pair.reset(regs)
            pc = 0x8000
            for ins in ([(0x01, 0xFD, 0x7F), (0x3E, bank), (0xED, 0x79)] if machine == '128K' else []) + prog + [(0xC3, STOP & 0xFF, STOP >> 8)]:
                pair.poke(pc, ins)
                pc += len(ins)
            d = pair.run(0x8000, STOP, False)
            stats.evaluations += 1
            stats.transitions += 2
            stats.counters['F_contended_io_runs'] += 1
            if d:
                stats.violation('F/{}/{}'.format(machine, name), {'part': 'F', 'machine': machine, 'name': name}, '; '.join(d[:3]),
                                tags={'part': 'F', 'machine': machine}, order=5 * 10**6 + i)
        stats.nontriv(('F', machine))
    # ---- part C: tool level - trace.py with and without --python (same programs as C10)
    from . import c10
    from .. import tools
    import os
    ccases = []
    for machine in ('48K', '128K'):
        for cmio in (0, 1):
            for t0 in ('near', 'late', 'zero'):
                for li in range(len(c10.letters())):
                    ccases.append((machine, cmio, t0, li))
    for i, (machine, cmio, t0, li) in core.shard_iter(ccases, shard, nshards):
        d = tools.workdir()
        frame = 69888 if machine == '48K' else 70908
        snaps = []
        for py in (0, 1):
            cfg = dict(fmt='szx', machine=machine, cmio=cmio, python=py, t0=t0)
            init, _ = c10.write_init(cfg, (li,), d)
            out = os.path.join(d, 'tool%d.szx' % py)
            r = tools.run_tool('trace', c10.trace_args(cfg, init, c10.n_for((li,), cfg), out))
            stats.transitions += 1
            snaps.append(None if r.rc else c10.snap_state(out, frame))
        stats.evaluations += 1
        stats.counters['C_tool_runs'] += 1
        if snaps[0] is None or snaps[0] != snaps[1]:
            keys = [] if None in snaps else [k for k in snaps[0] if snaps[0][k] != snaps[1][k]]
            stats.violation('C/trace/{}/cmio{}/{}/{}'.format(machine, cmio, t0, c10.letters()[li][0]),
                            {'part': 'C', 'machine': machine, 'cmio': cmio, 't0': t0, 'letter': li},
                            'trace.py result differs with/without --python in {}'.format(keys or 'a failed run'),
                            tags={'part': 'C', 'machine': machine}, order=2 * 10**6 + i)
    # ---- part D: complete flag/ALU tables, differentially (every (A, operand/F) tuple of every table-driven instruction)
    from . import c05
    units = []
    for name, code, shape in c05.table_groups():
        if shape in ('AB', 'Bc', 'Ac', 'AF', 'AM', 'Mc'):
            for k in range(8):
                units.append((name, code, shape, k))
    dregs = regs_list(INIT_REGS[0], '48K')
    for kinds in PAIRS:
        pair = Pair(kinds, '48K', True)
        for ui, (name, code, shape, k) in core.shard_iter(units, shard, nshards):
            for j, (c, over, pokes) in enumerate(c05.table_cases(name, code, shape)):
                if j % 8 != k:
                    continue
                regs = list(dregs)
                for rn, v in over.items():
                    regs[simh.RIDX[rn]] = v
                pair.reset(regs)
                for a, v in pokes:
                    pair.poke(a, (v,))
                pair.poke(0x8000, c)
                d = pair.step()
                stats.evaluations += 1
                stats.transitions += 2
                if d:
                    stats.violation('D/{}/{}/{}/{}'.format(kinds[1], name, ''.join('%02X' % b for b in c), ','.join('%s=%X' % kv for kv in sorted(over.items()))),
                                    {'part': 'D', 'machine': '48K', 'kinds': list(kinds), 'code': list(c), 'over': over, 'pokes': [list(x) for x in pokes]},
                                    '; '.join(d[:3]), tags={'part': 'D', 'pair': kinds[1], 'group': name}, order=3 * 10**6 + ui)
            stats.counters['D_table_units'] += 1
        # 16-bit arithmetic: full boundary grid x carry for every ADD/ADC/SBC HL|IX|IY,rr slot
        a16 = [(0x09 + 16 * k,) for k in range(4)] + [(0xED, 0x42 + 8 * k) for k in range(8)] + \
              [(px, 0x09 + 16 * k) for px in (0xDD, 0xFD) for k in range(4)]
        for ui, code in core.shard_iter(a16, shard, nshards):
            dst = {0xDD: ('IXh', 'IXl'), 0xFD: ('IYh', 'IYl')}.get(code[0], ('H', 'L'))
            opb = code[-1]
            src = (('B', 'C'), ('D', 'E'), dst, None)[(opb >> 4) & 3]
            for x, y, cy in itertools.product(c05.PAIR_VALUES + (0x7FFE, 0x8001, 0x0FFF, 0xF000), c05.PAIR_VALUES + (0x7FFE, 0x8001), (0, 1)):
                if src == dst and x != y:
                    continue
                regs = list(dregs)
                regs[simh.RIDX[dst[0]]], regs[simh.RIDX[dst[1]]] = x >> 8, x & 0xFF
                if src is None:
                    regs[simh.RIDX['SP']] = y
                else:
                    regs[simh.RIDX[src[0]]], regs[simh.RIDX[src[1]]] = y >> 8, y & 0xFF
                regs[1] = cy
                pair.reset(regs)
                pair.poke(0x8000, code)
                d = pair.step()
                stats.evaluations += 1
                stats.transitions += 2
                if d:
                    stats.violation('D/{}/arith16/{}/{:04X},{:04X},c{}'.format(kinds[1], ''.join('%02X' % b for b in code), x, y, cy),
                                    {'part': 'D', 'machine': '48K', 'kinds': list(kinds), 'code': list(code),
                                     'over': {dst[0]: x >> 8, dst[1]: x & 0xFF, 'F': cy, **({'SP': y} if src is None else {src[0]: y >> 8, src[1]: y & 0xFF})},
                                     'pokes': []}, '; '.join(d[:3]), tags={'part': 'D', 'pair': kinds[1], 'group': 'arith16'}, order=3 * 10**6 + 500)
            stats.counters['D_arith16'] += 1
        # every value of every operand byte (displacements, immediates, jump offsets, address bytes) of every slot
        seen_slots = set()
        sweep = []
        for code in finals[:1792]:
            key = (code[0], code[1] if code[0] in (0xCB, 0xED, 0xDD, 0xFD) else None, code[3] if code[1] == 0xCB and code[0] in (0xDD, 0xFD) else None)
            if key in seen_slots:
                continue
            seen_slots.add(key)
            ref0 = z80ref_decode(code)
            if ref0.length >= 2 and ref0.undoc not in ('prefix', 'ednop') and not (ref0.length == 2 and code[0] in (0xCB, 0xED)):
                first = 2 if code[0] in (0xED, 0xDD, 0xFD) else 1
                for pos in range(first, ref0.length):
                    if code[0] in (0xDD, 0xFD) and code[1] == 0xCB and pos == 3:
                        continue
                    sweep.append((code, pos))
        for ui, (code, pos) in core.shard_iter(sweep, shard, nshards):
            for v in range(256):
                c = list(code)
                c[pos] = v
                pair.reset(dregs)
                pair.poke(0x8000, c)
                d = pair.step()
                stats.evaluations += 1
                stats.transitions += 2
                if d:
                    stats.violation('D/{}/operand/{}'.format(kinds[1], ''.join('%02X' % b for b in c)),
                                    {'part': 'D', 'machine': '48K', 'kinds': list(kinds), 'code': c, 'over': {}, 'pokes': []}, '; '.join(d[:3]),
                                    tags={'part': 'D', 'pair': kinds[1], 'group': 'operand'}, order=3 * 10**6 + 700)
            stats.counters['D_operand_sweep'] += 1
    if shard == 0:
        stats.sample({'part': 'A', 'init': 1, 'history': ['EI', 'DD'], 'final': 'FB (each of 3584 slot fillings)'})
        stats.sample({'part': 'B', 'program': 'LD SP,7F00; IM 2; LD A,7E; LD I,A; EI; <EI;HALT>; JP 7000', 't0': 69788, 'interrupts': True})
    return stats


def z80ref_decode(code):
    from ..refs import z80ref
    return z80ref.decode(list(code) + [0] * 4, 0)


def _writes_port(code):
    if code[0] == 0xD3:
        return True
    if code[0] == 0xED:
        return code[1] & 0xC7 == 0x41 or code[1] in (0xA3, 0xAB, 0xB3, 0xBB)
    return False


def run(tier, seed):
    stats = core.run_shards(_shard, tier, seed, prop=PROPERTY)
    stats.traces = stats.evaluations
    depth = 2 if tier == 'quick' else 3
    meta = dict(
        rule='A: breadth-first search to depth {} over the stateful alphabet (about 50 letters + interrupt delivery) from 4 boundary states, '
             'last level = all 3584 slot fillings + INT, for (py,c) and (pycmio,ccmio) on 48K and 128K memory with and without a tracer; '
             'compared after every instruction: 30 registers, whole memory (all banks), latch/paged banks, port log, tracer state. '
             'B: static programs (all letter sequences up to length {}) under run(start, stop, interrupts) with the frame interrupt swept '
             'over the program, IM 1 and IM 2, and step-by-step == single run. states = distinct canonical (registers, memory, latch) '
             'hashes reached. D: every (A, operand/F) tuple of every flag-table instruction (ALU A,r; CB rotates; RLCA..CCF; DAA; NEG; INC/DEC; BIT; RLD/RRD) on both pairs. E: the Python simulators configured with fast_djnz/fast_ldir (as trace.py and tap2sna do) against the C '
             'simulators at run(start, stop) level: LDIR/LDDR x BC {{1,2,3,5,256}} x destination window sliding over the instruction itself, the ROM/RAM edge '
             'and the 64K edge x sources (RAM, ROM, overlapping) x IFF 0/1; DJNZ x displacement x B; a DJNZ whose displacement byte is overwritten. F: the contended pair inside the display period: IN/OUT forms x port classes (low byte FE/FF/FD x high byte 00/40/80/C0/FF) x every phase of the wait pattern x even/odd bank paged'.format(depth, 2),
        exhaustive=True,
        bound='A: depth 2 over all slot fillings (thorough: + depth 3 over one filling / unprefixed slots); B: sequence length 2',
        assumptions=['128K without a tracer is explored only with programs that do not write to ports (no tool runs that configuration; '
                     'C pages internally, Python delegates paging to the tracer)',
                     'single-step run(start) ignores interrupts in Python by construction; interrupt timing is compared through run(start, stop, True) '
                     'and accept_interrupt()'],
        required_guards=['F_contended_io_runs', 'E_fast_loop_runs', 'D_operand_sweep', 'D_arith16', 'D_table_units', 'C_tool_runs', 'B_runs', 'B_interrupt_taken', 'B_interrupts_im1', 'B_interrupts_im2', 'A_inner_states'],
    )
    return stats, meta


def replay(case):
    stats = core.Stats()
    machine = case['machine']
    pair = Pair(tuple(case['kinds']), machine, case.get('tracer', True)) if case['part'] in ('A', 'B') else None
    if case['part'] == 'A':
        S = letters_S(machine)
        regs = regs_list(INIT_REGS[case['init']], machine)
        if case.get('hist_names'):
            # the run may have used a filtered alphabet (128K without tracer): replay by letter name
            index = {n: i for i, (n, _) in enumerate(S)}
            case = dict(case, hist=[-1 if n == 'INT' else index[n] for n in case['hist_names']])
        extra = ((tuple(case['final']),),) if case.get('final') else ()
        d, _ = replay_history(pair, regs, S, tuple(case['hist']), extra, stats)
        return d
    if case['part'] == 'D':
        pair = Pair(tuple(case['kinds']), '48K', True)
        regs = regs_list(INIT_REGS[0], '48K')
        for rn, v in case['over'].items():
            regs[simh.RIDX[rn]] = v
        pair.reset(regs)
        for a, v in case['pokes']:
            pair.poke(a, (v,))
        pair.poke(0x8000, tuple(case['code']))
        return pair.step()
    if case['part'] == 'F':
        machine = case['machine']
        pair = Pair(('pycmio', 'ccmio'), machine, True)
        for name, bank, t0, prog in io_cases():
            if name == case['name']:
                regs = regs_list(dict(INIT_REGS[0], T=t0, IFF=0), machine)
                pair.reset(regs)
                pc = 0x8000
                for ins in ([(0x01, 0xFD, 0x7F), (0x3E, bank), (0xED, 0x79)] if machine == '128K' else []) + prog + [(0xC3, STOP & 0xFF, STOP >> 8)]:
                    pair.poke(pc, ins)
                    pc += len(ins)
                return pair.run(0x8000, STOP, False)
        return ['unknown part F case ' + case['name']]
    if case['part'] == 'E':
        pair = Pair(tuple(case['kinds']), case['machine'], True, fast=True)
        for name, regs_over, prog in fast_cases():
            if name == case['name']:
                d, horizon = run_fast_case(pair, case['machine'], regs_over, prog)
                return d
        return ['unknown fast-loop case ' + case['name']]
    if case['part'] == 'C':
        from . import c10
        from .. import tools
        import os
        skbuild_dir = tools.workdir()
        snaps = []
        for py in (0, 1):
            cfg = dict(fmt='szx', machine=machine, cmio=case['cmio'], python=py, t0=case['t0'])
            init, _ = c10.write_init(cfg, (case['letter'],), skbuild_dir)
            out = os.path.join(skbuild_dir, 'tool%d.szx' % py)
            r = tools.run_tool('trace', c10.trace_args(cfg, init, c10.n_for((case['letter'],), cfg), out))
            snaps.append(None if r.rc else c10.snap_state(out, 69888 if machine == '48K' else 70908))
        if snaps[0] is None or snaps[0] != snaps[1]:
            return ['trace.py result differs with/without --python']
        return []
    letters = static_letters(machine)
    return run_static(pair, machine, letters, tuple(case['seq']), case['im2'], case['t0'], case['interrupts'], stats)
