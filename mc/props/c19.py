"""C19 - contention simulation only ever adds the delays the ULA would impose.

For every opcode slot x operand filling x placement of PC / data pointers / stack / port
address (ROM, contended RAM, uncontended RAM, 0xC000 with an even or odd bank) x frame
position (every phase of the 8-T-state pattern around both ends of the contended
window, on the first, a middle and the last display line, at the frame edges) x I
register, one instruction is executed on CMIOSimulator and CCMIOSimulator and
compared with
  * the reference semantics (z80ref.step == what the plain simulators do, C05):
    registers, flags (MEMPTR-derived bits aside), memory, ports identical;
  * T delta == documented duration + sum over the instruction's bus cycles (from
    z80ref, in order) of the ULA wait pattern (mc/refs/ula.py) at the T-state each
    cycle begins; hence never fewer T-states, and exactly the plain duration when no
    bus address is contended or the instruction runs outside the display-fetch window;
  * Python and C contended simulators identical (all 30 registers).
Also: the two delay tables are read back completely (one NOP at every frame position).
"""
import itertools

from .. import core, simh
from ..refs import z80ref, ula
from .c07 import slots as c07_slots

PROPERTY = 'C19'
NEEDS_C = True


def fill(a):
    return (a * 37 + 11) & 0xFF


class Rig:
    """pycmio + ccmio (+ py plain) on one machine model with a shared expected memory."""
    def __init__(self, machine, odd):
        from skoolkit.pagingtracer import Memory
        self.machine = machine
        self.odd = odd
        self.mname = '48K' if machine == '48K' else '128K'
        self.frame = ula.MACHINES[self.mname]['frame']
        self.sims = {}
        if machine == '48K':
            base = [fill(a) for a in range(65536)]
            for k in ('py', 'pycmio', 'ccmio'):
                self.sims[k] = simh.sim_class(k)(list(base), None, None, {})
        else:
            page = 1 if odd else 0
            def banks():
                return tuple([(fill(a) + 16 * b + 1) & 0xFF for a in range(16384)] for b in range(8))
            cfg = {'frame_duration': 70908, 'int_active': 36}
            for k in ('py', 'pycmio', 'ccmio'):
                m = Memory(banks=banks(), out7ffd=page)
                if k == 'ccmio':
                    m.convert()
                self.sims[k] = simh.sim_class(k)(m, None, None, dict(cfg))
            m = self.sims['py'].memory
            base = [m[a] for a in range(65536)]
        self.base = base
        self.ref = list(base)
        self.dirty = set()
        self.tracers = {}
        for k, s in self.sims.items():
            tr = simh.Tracer(0xBF)
            self.tracers[k] = tr
            s.set_tracer(tr)

    def poke(self, addr, values):
        for i, v in enumerate(values):
            a = (addr + i) & 0xFFFF
            self.ref[a] = v
            for s in self.sims.values():
                s.memory[a] = v
            self.dirty.add(a)

    def restore(self):
        for a in self.dirty:
            v = self.base[a]
            self.ref[a] = v
            for s in self.sims.values():
                s.memory[a] = v
        self.dirty.clear()

    def case(self, st):
        """Run one instruction from state st everywhere; return (ref result, diffs)."""
        exp = st.copy()
        res = z80ref.step(exp, self.ref, inp=lambda p: 0xBF, frame=self.frame,
                          int_active=32 if self.machine == '48K' else 36)
        for a, _ in res.writes:
            self.dirty.add(a)
        d = ula.total_delay(self.mname, st.T, res.cycles, self.odd)
        out = []
        regs = {}
        self.last_T = {}
        for k, sim in self.sims.items():
            del self.tracers[k].log[:]
            simh.load_state(sim, st)
            sim.registers[simh.MEMPTR] = 0
            sim.run(st.PC)
            r = sim.registers
            regs[k] = [int(v) for v in r]
            self.last_T[k] = int(r[simh.RIDX['T']])
            want_t = exp.T + (d if k != 'py' else 0)
            for n in simh.NAMES:
                got = int(r[simh.RIDX[n]])
                want = getattr(exp, n)
                if n == 'T':
                    if got != want_t:
                        out.append('{}: T delta {} expected {} (documented {} + ULA delay {}{})'.format(
                            k, got - st.T, want_t - st.T, res.tstates, d if k != 'py' else 0,
                            '' if k != 'py' else '; plain simulator'))
                elif n == 'F':
                    if (got ^ want) & res.fmask:
                        out.append('{}: F={:02X} expected {:02X} (mask {:02X})'.format(k, got, want, res.fmask))
                elif n in ('A', 'HALT', 'PC') and res.insn.op in ('ld_a_ir', 'halt') and k != 'py' and d:
                    # the interrupt-window test of HALT / LD A,I|R looks at the clock, which
                    # contention moved: compare with the reference re-run at the delayed time
                    pass
                elif got != want:
                    out.append('{}: {}={} expected {}'.format(k, n, got, want))
            if self.tracers[k].log != res.ports:
                out.append('{}: port log {} expected {}'.format(k, self.tracers[k].log, res.ports))
            for a, v in res.writes:
                if sim.memory[a] != self.ref[a]:
                    out.append('{}: memory[{}]={} expected {}'.format(k, a, sim.memory[a], self.ref[a]))
        if regs['pycmio'] != regs['ccmio']:
            bad = [i for i in range(30) if regs['pycmio'][i] != regs['ccmio'][i]]
            out.append('pycmio/ccmio registers differ at indexes {}: {} vs {}'.format(
                bad, [regs['pycmio'][i] for i in bad], [regs['ccmio'][i] for i in bad]))
        return res, d, out


def positions(mname, tier):
    m = ula.MACHINES[mname]
    first, line, frame = m['first'], m['line'], m['frame']
    pos = set()
    pos.update(range(first - 25, first + 10))                   # start of the window: the implementation's t0 cut-off and every phase
    mid = first + 100 * line
    pos.update(range(mid - 2, mid + 9))
    pos.update(range(mid + 120, mid + 131))                     # end of a line's contended part -> border
    last = first + 191 * line
    pos.update(range(last + 116, last + 131))                   # end of the whole window (the implementation's t1 cut-off), every phase
    pos.update((0, 31, 32, 36, 1000, first + line - 40, frame - 1, frame - 4, frame - 8))
    if tier == 'thorough':
        pos.update(range(first - 40, first + line))             # whole first line
        pos.update(range(last + 90, last + 140))
        pos.update(range(mid - line, mid + line))               # two whole middle lines
        pos.update(range(last - 8, last + line))                # whole last line
        pos.update(range(frame - 30, frame))
    return sorted(p for p in pos if 0 <= p < frame)


# placements: (PC, register set)
def regsets(machine):
    hi = 0xC1 if machine != '48K' else 0x91
    return (
        ('plain', dict(A=0x90, B=0x90, C=0xFF, D=0x92, E=0x10, H=0x93, L=0x20, IXh=0x94, IXl=0x30, IYh=0x95, IYl=0x40, SP=0x9600)),
        ('cont', dict(A=0x40, B=0x50, C=0xFE, D=0x62, E=0x10, H=0x63, L=0x20, IXh=0x64, IXl=0x30, IYh=0x65, IYl=0x40, SP=0x6600)),
        ('mixed', dict(A=0x41, B=0x90, C=0xFE, D=0x7F, E=0xFF, H=0x3F, L=0xFF, IXh=0x7F, IXl=0xFE, IYh=0x40, IYl=0x02, SP=0x4001)),
        ('high', dict(A=hi, B=hi, C=0xFF, D=hi, E=0x10, H=hi, L=0x20, IXh=hi, IXl=0x30, IYh=hi, IYl=0x40, SP=hi * 256 + 0x80)),
    )


FILLINGS = ((0xFE, 0x60), (0xFF, 0x90))
PCS_48 = (0x8000, 0x5000, 0x7FFE)
PCS_128 = (0x8000, 0x5000, 0xC000, 0xBFFE)


def _predecrement_bc(rig, st, res, d, diffs):
    """True if the only disagreement is the one of known finding F38: a repeating OTIR/OTDR whose five trailing
    internal cycles were contended as if the address bus still showed BC from before B was decremented, and B's
    decrement moved BC across a contention boundary.  Every other disagreement on OTIR/OTDR stays a violation."""
    cyc = list(res.cycles)
    if len(cyc) < 6 or any(c[0] == 'io' or c[1] != 1 or c[0] != cyc[-1][0] for c in cyc[-5:]):
        return False
    if not all(': T delta ' in x for x in diffs):
        return False
    old_bc = (cyc[-1][0] + 256) & 0xFFFF
    alt = ula.total_delay(rig.mname, st.T, cyc[:-5] + [(old_bc, 1)] * 5, rig.odd)
    if alt == d:
        return False
    want = st.T + res.tstates + alt
    return all(rig.last_T[k] == want for k in ('pycmio', 'ccmio')) and len(diffs) == 2


def _shard(shard, nshards, tier, seed):
    stats = core.Stats(PROPERTY)
    quick = tier == 'quick'
    slot_list = []
    seen = set()
    for code in c07_slots():
        key = (code[0], code[1] if code[0] in (0xCB, 0xED, 0xDD, 0xFD) else None,
               code[3] if code[1] == 0xCB and code[0] in (0xDD, 0xFD) else None)
        if key not in seen:
            seen.add(key)
            slot_list.append(code)
    machines = (('48K', False), ('128K', False), ('128K', True))
    for mi, (machine, odd) in enumerate(machines):
        rig = Rig(machine, odd)
        mname = rig.mname
        pos = positions(mname, tier)
        pos_variants = positions(mname, 'quick')     # the extra block/stack variants use the quick position set in both tiers
        # (i) the delay table, complete: one NOP at every frame position, in contended memory
        for t in range(shard, rig.frame, nshards):
            st = z80ref.State(PC=0x5000, SP=0x9000, T=t, I=0x3F)
            rig.poke(0x5000, (0x00,))
            res, d, diffs = rig.case(st)
            stats.evaluations += 1
            stats.transitions += 3
            if d:
                stats.counters['table_delayed'] += 1
            if diffs:
                stats.violation('table/{}/t{}'.format(machine, t), {'machine': machine, 'odd': odd, 'code': [0], 'pc': 0x5000, 'regs': {}, 'I': 0x3F, 't': t},
                                '; '.join(diffs[:3]), tags={'part': 'table', 'machine': machine, 't': t}, order=t)
        rig.restore()
        stats.state(('table', machine, odd))
        # (ii) slots x placements x positions
        pcs = PCS_48 if machine == '48K' else PCS_128
        rsets = regsets(machine)
        if quick:
            rsets = rsets[:3] if machine == '48K' else (rsets[0], rsets[1], rsets[3])
        ivals = (0x3F, 0x40) if machine == '48K' else (0x3F, 0x40, 0xC0)
        for si, code0 in core.shard_iter(slot_list, shard, nshards):
            fills = FILLINGS
            if code0[0] in (0xDD, 0xFD) and code0[1] != 0xCB:
                # a positive displacement: (IX+d) on the other side of a contention boundary from IX itself
                fills = FILLINGS + ((0x05, 0x60),)
            probe = z80ref.decode([code0[0], code0[1], 0x34, 0x12 if code0[1] != 0xCB else code0[3], 0, 0], 0)
            if probe.op in ('ld_mm_rr', 'ld_rr_mm', 'ld_nn_a', 'ld_a_nn'):
                # a 16-bit access at (nn) whose two bytes lie on different sides of a contention boundary
                fills = fills + ((0xFF, 0x3F), (0xFF, 0x7F), (0xFF, 0xBF))
            for (n1, n2), pc, (rname, rset) in itertools.product(fills, pcs, rsets):
                ddcb = code0[0] in (0xDD, 0xFD) and code0[1] == 0xCB
                if ddcb:
                    code = (code0[0], 0xCB, 0x05, code0[3])
                elif code0[0] in (0xCB, 0xED, 0xDD, 0xFD):
                    code = (code0[0], code0[1], n1, n2)
                else:
                    code = (code0[0], n1, n2, 0x56)
                ins = z80ref.decode(list(code) + [0] * 4, 0)
                uses_ir = ins.op in ('add16', 'adcsbc16', 'incdec16', 'ld_sp_rr', 'push', 'rst', 'ret', 'djnz', 'ld_ir_a', 'ld_a_ir', 'block')
                # block instructions: also the terminating cases (BC = 1, B = 1) and, for CPI/CPD/CPIR/CPDR, A = (HL)
                variants = ((rname, rset, False),)
                if ins.op in ('call', 'rst', 'push', 'pop', 'ret', 'retn', 'ex_sp'):
                    # the stack wrapped round the end of memory: SP-1/SP-2 (or SP+1) on the other side of 0x0000
                    variants += ((rname + '+sp0', dict(rset, SP=0x0000), False), (rname + '+sp1', dict(rset, SP=0x0001), False),
                                 (rname + '+spFFFF', dict(rset, SP=0xFFFF), False))
                if ins.op == 'block':
                    variants += ((rname + '+bc1', dict(rset, B=0, C=1), False), (rname + '+b1', dict(rset, B=1), False),
                                 (rname + '+match', rset, True), (rname + '+match+bc1', dict(rset, B=0, C=1), True),
                                 # B values whose decrement carries the port's high byte across a contention boundary
                                 (rname + '+b40', dict(rset, B=0x40), False), (rname + '+b80', dict(rset, B=0x80), False),
                                 (rname + '+bC0', dict(rset, B=0xC0), False))
                for I, (rname, rset, match) in itertools.product(ivals if uses_ir else ivals[:1], variants):
                    for F in ((0x00, 0xFF) if ins.op in ('jr', 'jp', 'call', 'ret', 'djnz', 'block') else (0x00,)):
                        for t in (pos if '+' not in rname else pos_variants):
                            st = z80ref.State(PC=pc, T=t, I=I, R=0x10, F=F, IFF=0, IM=1, **rset)
                            if match:
                                rig.poke(rset['H'] * 256 + rset['L'], (rset['A'],))
                            rig.poke(pc, code)
                            res, d, diffs = rig.case(st)
                            rig.restore()
                            stats.evaluations += 1
                            stats.transitions += 3
                            if d:
                                stats.counters['delayed'] += 1
                                if any(c[0] == 'io' for c in res.cycles):
                                    stats.counters['delayed_io'] += 1
                                if uses_ir and ula.contended(mname, I * 256, odd):
                                    stats.counters['delayed_ir'] += 1
                                if odd and pc >= 0xC000:
                                    stats.counters['delayed_oddbank'] += 1
                            else:
                                stats.counters['undelayed'] += 1
                            if diffs:
                                cid = 'slot/{}{}/{}@{:04X}/{}/I{:02X}/F{:02X}/t{}'.format(
                                    machine, 'odd' if odd else '', ''.join('%02X' % b for b in code), pc, rname, I, F, t)
                                tags = {'part': 'slot', 'machine': machine, 'odd': odd, 'op': ins.op, 'b0': code[0], 'b1': code[1]}
                                if ins.text in ('OTIR', 'OTDR') and _predecrement_bc(rig, st, res, d, diffs):
                                    tags['otir_predecrement_bc'] = True
                                stats.violation(cid, {'machine': machine, 'odd': odd, 'code': list(code), 'pc': pc, 'regs': rset, 'I': I, 'F': F, 't': t, 'match': match},
                                                '{}: {}'.format(ins.text, '; '.join(diffs[:3])),
                                                tags=tags,
                                                order=10**6 * (mi + 1) + si)
                stats.state((machine, odd, ins.op, pc, rname, n2))
            stats.nontriv((machine, odd, code0[0], code0[1], code0[3]))
            if si % 300 == 0 and mi == 0:
                stats.sample({'machine': machine, 'code': '%02X%02X%02X%02X' % code0, 'pcs': list(pcs), 'positions': len(pos)})
    return stats


def run(tier, seed):
    stats = core.run_shards(_shard, tier, seed, prop=PROPERTY)
    stats.traces = stats.evaluations
    meta = dict(
        rule='(i) both delay tables complete: one NOP in contended memory at every frame position (69888 + 2 x 70908); (ii) every opcode slot x 2 '
             'operand fillings (+ displacement +5 for DD/FD slots, + nn = 0x3FFF/0x7FFF/0xBFFF for LD through (nn)) x PC placement {{uncontended, contended, straddling 0x7FFE/0xBFFE, 0xC000}} x register/stack/port placement sets x I '
             '(for instructions with refresh-address cycles) x both condition outcomes (block instructions: also BC=1, B=1, B=0x40/0x80/0xC0 and A=(HL); stack instructions: also SP = 0, 1, 0xFFFF) x frame positions ({} per machine: every phase of the pattern '
             'at both ends of the window, first/middle/last line, frame edges) on 48K, 128K even bank, 128K odd bank; oracle = z80ref bus cycles + '
             'ula.delay. states = distinct (machine, op class, placement) classes; non-trivial = distinct slots per machine'.format(
                 len(positions('48K', tier))),
        exhaustive=True,
        bound='frame-position set: window edges + 3 partial lines (quick) / 4 whole lines + edges (thorough; the extra block/stack register variants use the quick set in both tiers)',
        assumptions=['bus-cycle breakdown per instruction class in mc/refs/z80ref.py follows the published contention table; mc/refs/ula.py the '
                     'published 6,5,4,3,2,1,0,0 pattern and frame layouts',
                     'A/PC/HALT after HALT and LD A,I/R are not compared when a contention delay moved the clock across the interrupt-window test',
                     'interrupt acceptance itself is not part of this property'],
        required_guards=['table_delayed', 'delayed', 'undelayed', 'delayed_io', 'delayed_ir', 'delayed_oddbank'],
    )
    return stats, meta


def replay(case):
    rig = Rig(case['machine'], case['odd'])
    st = z80ref.State(PC=case['pc'], T=case['t'], I=case['I'], R=0x10, F=case.get('F', 0), IFF=0, IM=1, **case['regs'])
    if not case['regs']:
        st.SP = 0x9000
        st.R = 0
    if case.get('match'):
        rig.poke(case['regs']['H'] * 256 + case['regs']['L'], (case['regs']['A'],))
    rig.poke(case['pc'], tuple(case['code']))
    res, d, diffs = rig.case(st)
    return diffs
