"""C04 - skool2asm, skool2bin and the macro-visible snapshot agree on the assembled image.

Seams (all through the tools' real main(args), in-process):

  skool2asm.main stdout -> two-pass ASM reader of this module (labels, ORG, EQU,
      quote-aware comment stripping; bytes through the repository Assembler)  -> {address: byte}
  skool2bin.main file   -> {address: byte} (start/end from its "Wrote ..." line, -E cuts the probe entry)
  #PEEK probes          -> one `[Pa=#PEEKa]` token per address of the file's range, planted in the
      description of a separate probe entry (own @org, far away, never touched by a directive) and read
      back from the ASM output (every case) and from skool2html.main output (part H)

Space: skool files from a grammar (see ALPHABET, HOSTS, SUB_FORMS, OTHER_FORMS), enumerated as complete
products in five parts (A operands x options, P non-substitution directives x options, B @*sub/@*fix forms
x kinds x modes x label options, O base/case options on the substituted text, H HTML mode).

Oracle (differential identities stated in the property):
  (1) image(asm) == image(skool2bin) at every address either defines (addresses skipped by a second ORG
      must be zero padding in the binary);
  (2) for @label/@keep/@nowarn/@equ variants the skool2bin image equals the image of the same file
      without the directive (with (1) over all base/case/-c options: one image per file and mode);
  (3) every #PEEK a expansion == image(skool2bin)[a] (0 outside the binary) for the mode in force.
Domain split (DESIGN.md, C04 notes): (a) nothing relocated - (1)-(3) for every option; (b) a size-changing
directive in force - (1) only if every referenced relocated instruction has a label, (3) only below the
first address whose contents may legitimately differ; (b) without labels is counted as
'out_of_domain_unlabelled_relocation', never reported.
"""
import itertools
import os
import re

from .. import core, tools
from ..refs import defx

PROPERTY = 'C04'
NEEDS_C = False

BASES = (32768, 40000, 51966)       # VERIF_SEED rotates the base address of the generated files
PROBE = 60000                       # address of the probe entry (own @org; cut from the binary with -E)
PAD = 12                            # probes cover [base, end of file + PAD)
GAP = 16

MODES = [(1, 0), (2, 0), (3, 1), (1, 1), (1, 2), (2, 1), (2, 2), (3, 2), (3, 3)]    # (asm, fix) pairs both tools offer
HTML = (0, 0)
KINDS = ('isub', 'ssub', 'rsub', 'ofix', 'bfix', 'rfix')


def kind_active(kind, mode):
    asm, fix = mode
    return {'isub': asm > 0, 'ssub': asm > 1, 'rsub': asm > 2, 'ofix': fix > 0, 'bfix': fix > 1, 'rfix': fix > 2}[kind]


def asm_mode_args(mode):
    asm, fix = mode
    a = {1: [], 2: ['-s'], 3: ['-r']}[asm]
    if fix == 3:
        return ['-f', '3']
    if fix and not (asm == 3 and fix == 1):
        a = a + ['-f', str(fix)]
    return a


def bin_mode_args(mode):
    asm, fix = mode
    if fix == 3:
        return ['-R']
    a = {0: [], 1: ['-i'], 2: ['-s'], 3: ['-r']}[asm]
    if fix and not (asm == 3 and fix == 1):
        a = a + [{1: '-o', 2: '-b'}[fix]]
    return a


# --------------------------------------------------------------------------- instruction alphabet
# Placeholders (resolved after layout): F/L = address of the first/last instruction of the file, S = own
# address, N = address after this instruction, S1 = own address + 1 (a mid-instruction byte: every letter
# using it is longer than one byte), Fx = F as $XXXX, A0/A1/A2 = address of instruction 0/1/2 (clamped).
ALPHABET = [
    'XOR A',                        # register
    'LD A,5',                       # n
    'LD B,$1F',                     # n, hexadecimal
    'LD C,%00000101',               # n, binary ('%' guard of _replace_nums)
    'LD D,"a"',                     # character
    'LD E,(5+1)%4',                 # expression with modulo after ')'
    'LD HL,{F}',                    # nn = address of an entry
    'LD DE,{L}',                    # nn = address of the last instruction
    'LD BC,{S}+1',                  # expression on an instruction address
    'LD A,({F})',                   # (nn)
    'LD ({L}),A',                   # (nn)
    'LD HL,({S1})',                 # (nn) = address of a mid-instruction byte
    'LD SP,22528',                  # nn not in the file (target of @equ)
    'LD (IX+3),$0A',                # (IX+d),n
    'LD A,(IY-2)',                  # (IY-d)
    'BIT 3,(IX+5)',                 # skip_bit
    'RES 0,(HL)',
    'JR {F}',                       # relative, backwards
    'JR NZ,{N}',                    # relative, forwards
    'DJNZ {S}',                     # relative, to itself
    'JP {L}',
    'CALL Z,{Fx}',                  # address written in hexadecimal
    'JP (HL)',
    'RST 16',
    'IN A,(254)',
    'OUT ($FE),A',
    'DEFB 1,$02,%11',               # every base
    'DEFB "a;b",5,"c"+128',         # string containing ';', character expression
    'DEFM "Hi, \\"x\\"",33',        # escaped quotes and a comma inside a string
    'DEFS 3,$FF',
    'DEFW {F},{L}+1,5',             # addresses, an expression and a value < 256
    'DEFW $0102,%101,"a"',
    'DEFB {F}%256,{L}/256',         # LSB/MSB of addresses
    'LD A,{L}%256',                 # 8-bit LD of an address LSB
    'LD (HL),{F}/256',
    'NEG',
    # expressions whose hexadecimal numbers have digits A-F (data statements evaluate their operands as written,
    # instructions after tidying; see also STYLES)
    'DEFB $1B+1,"a"+$0F',
    'DEFM "Hi",$0D+$80',
    'DEFS $0A-8,$F0/$10',           # the length is an expression too
    'DEFW {Fx}+$0A,$C0DE-1',
    'LD A,$0A+1',
]
ALPHABET3 = ALPHABET[:36]           # the letters used for three-instruction files (thorough tier)

# Source styles: None = operations in upper case, addresses in decimal (as written above); 'lh' = the file as
# `sna2skool.py -H -l` writes it: operations in lower case (strings untouched), instruction addresses and address
# operands in lower case hexadecimal
STYLES = (None, 'lh')

# String operands of data statements (part T).  The texts are what stands between the double quotes in the skool file.
STRINGS = [
    'Hi there',                     # mixed case text
    'SIXLIVES IXH IYH IYL',         # the index register halves, upper case (-u writes the registers as IXh/IXl/IYh/IYl)
    'pixl ixh iyh iyl',             # the same in lower case
    'a\\"B',                        # \" in the middle
    'a\\\\B',                       # \\ in the middle
    'Ab\\"',                        # \" at the end
    'Ab\\\\',                       # \\ at the end
    '\\"',                          # single characters: an escaped quote, an escaped backslash, a letter
    '\\\\',
    'q',
]
CHARS = ['\\"', '\\\\', 'q']            # characters that can stand in an expression
NUMBERS = ['13', '$1F']


def string_statements(tier):
    """Every data statement of part T, simplest first."""
    text_items = ['"{}"'.format(t) for t in STRINGS] + ['"{}"+128'.format(c) for c in CHARS] + NUMBERS
    word_items = [f.format(c) for c in CHARS for f in ('"{}"', '"{}"+128')] + NUMBERS
    out = []
    for n in range(1, (3 if tier == 'thorough' else 2) + 1):
        for d in ('DEFB', 'DEFM'):
            out.extend('{} {}'.format(d, ','.join(seq)) for seq in itertools.product(text_items, repeat=n))
        if n < 3:
            out.extend('DEFW {}'.format(','.join(seq)) for seq in itertools.product(word_items, repeat=n))
    out.extend('DEFS 2,{}'.format(i) for i in word_items if i not in NUMBERS)
    return out


# Hosts for the directive parts: three instructions that all refer to one another.
HOST_I0 = 'LD HL,{A2}'
HOST_X = ['XOR A', 'LD A,5', 'JP {A0}', 'LD IX,({A1}+1)']       # sizes 1-4
HOST_I2 = ['DEFW {A1}', 'JR {A1}']
HOST_X_P = ['LD SP,22528', 'DEFW {A0},5', 'NEG']                # extra anchors for @equ/@keep/@bytes


def _splits(n):
    """Every composition of n instructions into consecutive entries, as tuples of entry sizes."""
    if n == 0:
        return [()]
    out = []
    for first in range(n, 0, -1):
        for rest in _splits(n - first):
            out.append((first,) + rest)
    return out


def _entries(seq, split):
    out, i = [], 0
    for k in split:
        out.append(list(seq[i:i + k]))
        i += k
    return out


# --------------------------------------------------------------------------- file model
class Ins:
    __slots__ = ('tmpl', 'text', 'size', 'saddr', 'idx', 'entry', 'first', 'ctl')

    def __init__(self, tmpl, idx=None, entry=None, first=False):
        self.tmpl = tmpl
        self.text = None
        self.size = 0
        self.saddr = None
        self.idx = idx
        self.entry = entry
        self.first = first
        self.ctl = ' '


_asm = None


def assembler():
    global _asm
    if _asm is None:
        from skoolkit.z80 import Assembler
        _asm = Assembler()
    return _asm


def op_size(text, address):
    if defx.directive_of(text):
        n = len(defx.assemble(text))    # data statements: sized by the reference, in either case
    else:
        n = len(assembler().assemble(text, address))
    if not n:
        raise ValueError('harness letter does not assemble: {!r}'.format(text))
    return n


class Layout:
    """The generated file before any directive is applied: instructions at contiguous addresses."""
    def __init__(self, base, entries, gap_entry=None, style=None):
        self.base = base
        self.style = style
        self.ins = []
        for e, letters in enumerate(entries):
            for j, t in enumerate(letters):
                self.ins.append(Ins(t, len(self.ins), e, j == 0))
        self.nentries = len(entries)
        self.gap_entry = gap_entry
        env = self._env(None)
        for i in self.ins:
            i.size = op_size(self._fmt(i.tmpl, base, base, base, env), base)
        a = base
        for i in self.ins:
            if i.first and i.entry == gap_entry and i.entry > 0:
                a += GAP
            i.saddr = a
            a += i.size
        self.end = a
        env = self._env(self.ins)
        for i in self.ins:
            i.text = self._fmt(i.tmpl, i.saddr, i.saddr + i.size, i.saddr + 1, env)

    def _num(self, v):
        return '${:04x}'.format(v) if self.style == 'lh' else v

    def _fmt(self, tmpl, s, n, s1, env):
        text = tmpl.format(S=self._num(s), N=self._num(n), S1=self._num(s1), **env)
        return lower_outside_strings(text) if self.style == 'lh' else text

    def _env(self, ins):
        def addr(k):
            return self._num(self.base if ins is None else ins[min(k, len(ins) - 1)].saddr)
        n = len(self.ins)
        fx = self.base if ins is None else ins[0].saddr
        return dict(F=addr(0), L=addr(n - 1), Fx='${:04X}'.format(fx), A0=addr(0), A1=addr(1), A2=addr(2))

    def resolve(self, tmpl, at=None):
        at = self.base if at is None else at
        return self._fmt(tmpl, at, at, at + 1, self._env(self.ins))


def lower_outside_strings(text):
    parts = _QUOTED.split(text)
    for k in range(0, len(parts), 2):
        parts[k] = parts[k].lower()
    return ''.join(parts)


def sized_op(n):
    """A replacement instruction of exactly n bytes (3 and 4 bytes: with an address operand)."""
    return {1: 'INC A', 2: 'LD A,6', 3: 'LD DE,{L}', 4: 'LD IX,{F}'}.get(n) or 'DEFS {},1'.format(n)


class NotApplicable(Exception):
    pass


class Applied:
    """A directive applied at an anchor: the skool lines it adds and its documented effect."""
    def __init__(self, name, kind=None):
        self.name = name
        self.kind = kind            # substitution kind that must be in force, or None (always in force)
        self.cond = None            # mode -> bool, for @if forms
        self.pre = []               # directive lines in front of the anchor line
        self.before_anchor = []     # block directive lines wrapping the anchor line
        self.after_anchor = []
        self.drop_org = False       # the file's default '@org' in front of entry 0 is replaced by this directive
        self.final = None           # f(layout) -> list of Ins in force when active (None: unchanged)
        self.reloc = None           # f(ins) -> real address override for instruction ins (the @org forms)
        self.peek_from = None       # first address whose snapshot contents may legitimately differ when relocated
        self.anchor_label = False   # the directive labels the anchor
        self.anchor_unlabel = False # the directive removes the label of the anchor
        self.displaces = False      # an insertion in front of the anchor takes over the entry label created by -c
        self.passive = False        # image must equal that of the file without the directive
        self.data = False           # @defb/@defs/@defw: #PEEK is compared with skool2bin -d
        self.skip_asm = ()          # anchor-relative byte offsets excluded from (1) (@bytes: not expressible in ASM text)

    def active(self, mode):
        if self.cond is not None:
            return self.cond(mode)
        return self.kind is None or kind_active(self.kind, mode)


def _new(lay, text):
    i = Ins(text)
    i.text = lay.resolve(text)
    i.size = op_size(i.text, lay.base)
    return i


def _clone(ins, text=None, lay=None):
    i = Ins(ins.tmpl, ins.idx, ins.entry, ins.first)
    i.text, i.size, i.saddr, i.ctl = ins.text, ins.size, ins.saddr, ins.ctl
    if text is not None:
        i.text = lay.resolve(text, ins.saddr)
        i.size = op_size(i.text, lay.base)
    return i


# Label syntax of a @*sub/@*fix directive value ([>][|][+][/][LABEL:][INSTRUCTION]; asm.rst): a label, a label that
# also marks an entry point, an empty label (removes the label of the instruction) and a bare entry point marker
LSYN = ('LAB8:', '*LAB8:', ':', '*:')
# The directives of each form that can carry the label syntax (those that do not have a label already), by position,
# with the instruction the directive stands for: 'a' = the anchor (replaced/overwritten in place), 'b' = an instruction
# inserted before it, 'f' = an instruction that follows it (inserted, or the next one of a '|' chain)
LABEL_ROLES = {
    'rep_same': 'a', 'rep_grow': 'a', 'rep_shrink': 'a', 'comment_only': 'a', 'final': 'a', 'before1': 'b', 'before2': 'b', 'after1': 'f',
    'after2': 'ff', 'rep_after': 'af', 'over_same': 'a', 'over_two': 'a', 'before_over_two': 'ba', 'over_split': 'af', 'over_swap': 'af',
    'over_grow': 'a',
}
_DIRECTIVE = re.compile(r'(@\w+=)([>/|+]*)(.*)$')


def sub_form(form, kind, lay, p, lab=None):
    """One @*sub/@*fix directive form applied to instruction p; lab = (label syntax, position of the directive that
    carries it) or None.  Raises NotApplicable."""
    ins = lay.ins
    anc = ins[p]
    nxt = ins[p + 1] if p + 1 < len(ins) else None
    a, s = anc.saddr, anc.size
    d = Applied(form, kind)
    D = '@' + kind + '='

    def final_replace(ops, extra_after=(), removed=()):
        def f(lay):
            out = []
            for i in ins:
                if i.idx in removed:
                    continue
                if i.idx == p:
                    first = True
                    for t in ops:
                        if first and t is not None:
                            out.append(_clone(i, t, lay))
                        elif first:
                            out.append(_clone(i))
                        else:
                            out.append(_new(lay, t))
                        first = False
                    for t in extra_after:
                        out.append(_new(lay, t))
                else:
                    out.append(_clone(i))
            return out
        return f

    def final_insert_before(ops):
        def f(lay):
            out = []
            for i in ins:
                if i.idx == p:
                    out.extend(_new(lay, t) for t in ops)
                out.append(_clone(i))
            return out
        return f

    if form == 'rep_same':
        d.pre = [D + sized_op(s)]
        d.final = final_replace([sized_op(s)])
    elif form == 'rep_same_lc':
        d.pre = [D + 'LAB9: ' + sized_op(s) + ' ; replaced comment']
        d.final = final_replace([sized_op(s)])
        d.anchor_label = True
    elif form == 'rep_grow':
        d.pre = [D + sized_op(s + 1)]
        d.final = final_replace([sized_op(s + 1)])
        d.peek_from = a + s
    elif form == 'rep_shrink':
        if s < 2:
            raise NotApplicable
        d.pre = [D + sized_op(s - 1)]
        d.final = final_replace([sized_op(s - 1)])
        d.peek_from = a + s - 1
    elif form == 'label_only':
        d.pre = [D + 'LAB9:']
        d.anchor_label = True
    elif form == 'comment_only':
        d.pre = [D + '; only the comment']
    elif form == 'final':
        d.pre = [D + '/' + sized_op(s) + ' ; the last comment line']
        d.final = final_replace([sized_op(s)])
    elif form == 'before1':
        d.pre = [D + '>INC A']
        d.final = final_insert_before(['INC A'])
        d.peek_from = a
        d.displaces = True
    elif form == 'before2':
        d.pre = [D + '>LD DE,{L} ; inserted', D + '>LAB9: INC A']
        d.final = final_insert_before(['LD DE,{L}', 'INC A'])
        d.peek_from = a
        d.displaces = True
    elif form == 'after1':
        d.pre = [D + '+INC A']
        d.final = final_replace([None], ['INC A'])
        d.peek_from = a + s
    elif form == 'after2':
        d.pre = [D + '+LD DE,{L} ; appended', D + 'INC A']
        d.final = final_replace([None], ['LD DE,{L}', 'INC A'])
        d.peek_from = a + s
    elif form == 'rep_after':
        d.pre = [D + sized_op(s) + ' ; replaced', D + 'INC A ; appended']
        d.final = final_replace([sized_op(s), 'INC A'])
        d.peek_from = a + s
    elif form == 'over_same':
        d.pre = [D + '|' + sized_op(s)]
        d.final = final_replace([sized_op(s)])
    elif form == 'over_two':
        if nxt is None or nxt.entry != anc.entry:
            raise NotApplicable
        d.pre = [D + '|' + sized_op(s + nxt.size)]
        d.final = final_replace([sized_op(s + nxt.size)], removed=(p + 1,))
    elif form == 'before_over_two':
        # an insertion and an overwrite on one instruction: the overwritten range is in skool addresses,
        # the inserted instruction has already moved the real address
        if nxt is None or nxt.entry != anc.entry:
            raise NotApplicable
        d.pre = [D + '>INC A', D + '|' + sized_op(s + nxt.size)]

        def f(lay):
            out = []
            for i in ins:
                if i.idx == p:
                    out.append(_new(lay, 'INC A'))
                    out.append(_clone(i, sized_op(s + nxt.size), lay))
                elif i.idx != p + 1:
                    out.append(_clone(i))
            return out
        d.final = f
        d.peek_from = a
        d.displaces = True
    elif form == 'over_split':
        if s < 2:
            raise NotApplicable
        d.pre = [D + '|' + sized_op(s - 1), D + '|INC A']
        d.final = final_replace([sized_op(s - 1), 'INC A'])
    elif form == 'over_swap':
        if nxt is None or nxt.entry != anc.entry:
            raise NotApplicable
        # the documented "swap two instructions" chain; the operand texts keep their numbers
        t1, t2 = nxt.text, anc.text
        if re.match(r'(JR|DJNZ)\b', t1) or re.match(r'(JR|DJNZ)\b', t2):
            raise NotApplicable     # a moved relative jump may go out of range; not what the form is about
        d.pre = [D + '|' + t1.replace('{', '{{').replace('}', '}}'), D + '|' + t2.replace('{', '{{').replace('}', '}}')]
        d.final = final_replace([t1.replace('{', '{{').replace('}', '}}'), t2.replace('{', '{{').replace('}', '}}')], removed=(p + 1,))
    elif form == 'over_grow':
        if nxt is not None and (nxt.size < 2 or nxt.entry != anc.entry):
            raise NotApplicable
        d.pre = [D + '|' + sized_op(s + 1)]
        d.final = final_replace([sized_op(s + 1)], removed=(p + 1,) if nxt is not None else ())
        d.peek_from = a + s
    elif form == 'remove1':
        if p == 0:
            raise NotApplicable     # @org works only on the first instruction of an entry (asm.rst): removing it loses the ORG
        d.pre = [D + '!{}'.format(a)]
        d.final = final_replace([], removed=(p,))
        d.peek_from = a
    elif form == 'remove_range':
        if p == 0 or nxt is None or nxt.entry != anc.entry:
            raise NotApplicable
        d.pre = [D + '!{}-{}'.format(a, nxt.saddr)]
        d.final = final_replace([], removed=(p, p + 1))
        d.peek_from = a
    elif form == 'blk_ins':
        if anc.first:
            raise NotApplicable     # an entry cannot start with an instruction that has no address
        d.pre = ['@' + kind + '+begin', '       INC A         ; inserted by a block', '@' + kind + '+end']
        d.final = final_insert_before(['INC A'])
        d.peek_from = a
        d.displaces = True
    elif form in ('blk_else_same', 'blk_else_addr', 'blk_else_grow'):
        n = s + 1 if form == 'blk_else_grow' else s
        if form == 'blk_else_addr':
            line = '{}{:05d} {:<13} ; else branch'.format('c' if anc.first else ' ', a, sized_op(n))
        else:
            if anc.first:
                raise NotApplicable     # an entry cannot start with an instruction that has no address
            line = '       {:<13} ; else branch'.format(sized_op(n))
        d.before_anchor = ['@' + kind + '-begin']
        d.after_anchor = ['@' + kind + '+else', line, '@' + kind + '+end']
        if form == 'blk_else_addr':
            d.final = final_replace([sized_op(n)])
        else:
            def f(lay, n=n):
                out = []
                for i in ins:
                    if i.idx == p:
                        out.append(_new(lay, sized_op(n)))      # no skool address of its own
                    else:
                        out.append(_clone(i))
                return out
            d.final = f
        if form == 'blk_else_grow':
            d.peek_from = a
    elif form == 'blk_remove':
        if anc.first:
            raise NotApplicable
        d.before_anchor = ['@' + kind + '-begin']
        d.after_anchor = ['@' + kind + '-end']
        d.final = final_replace([], removed=(p,))
        d.peek_from = a
    else:
        raise KeyError(form)
    d.pre = [lay.resolve(x) for x in d.pre]
    d.after_anchor = [lay.resolve(x) if x.startswith((' ', 'c')) else x for x in d.after_anchor]
    if lab is not None:
        lsyn, k = lab
        roles = LABEL_ROLES.get(form, '')
        if k >= len(roles):
            raise NotApplicable
        head, flags, rest = _DIRECTIVE.match(d.pre[k]).groups()
        d.pre[k] = head + flags + lsyn + rest
        if roles[k] == 'a':
            # the label of the anchor is replaced: by a name, or by nothing (then it counts as unlabelled, also for
            # '*:', whose automatic label exists only with -c)
            d.anchor_label = lsyn in ('LAB8:', '*LAB8:')
            d.anchor_unlabel = not d.anchor_label
    return d


SUB_FORMS = ['rep_same', 'rep_same_lc', 'rep_grow', 'rep_shrink', 'label_only', 'comment_only', 'final', 'before1', 'before2',
             'after1', 'after2', 'rep_after', 'over_same', 'over_two', 'before_over_two', 'over_split', 'over_swap', 'over_grow', 'remove1',
             'remove_range', 'blk_ins', 'blk_else_same', 'blk_else_addr', 'blk_else_grow', 'blk_remove']


def other_form(form, lay, p):
    """Directives other than single-kind @*sub/@*fix at instruction p."""
    ins = lay.ins
    anc = ins[p]
    a, s = anc.saddr, anc.size
    d = Applied(form)
    e2 = lay.end + 2
    if form in ('org_same', 'org_hex', 'org_shift', 'org_bare'):
        if not anc.first:
            raise NotApplicable     # "the @org directive works only on the first instruction in an entry" (asm.rst)
        if form == 'org_bare':
            if anc.entry == 0:
                raise NotApplicable     # that is the default file
            d.pre = ['@org']
        elif form == 'org_same':
            d.pre = ['@org={}'.format(a)]
        elif form == 'org_hex':
            d.pre = ['@org=${:04X}'.format(a)]
        else:
            d.pre = ['@org={}'.format(a + GAP)]
            d.reloc = lambda i: i.saddr + GAP if i.idx >= p else i.saddr
            d.peek_from = a
        d.drop_org = anc.entry == 0
    elif form == 'org_gap':
        if not anc.first or anc.entry == 0 or lay.gap_entry != anc.entry:
            raise NotApplicable
        d.pre = ['@org']
    elif form == 'equ_const':
        d.pre = ['@equ=ATTRS=22528']
        d.passive = True
    elif form == 'equ_small':
        d.pre = ['@equ=FIVE=5']
        d.passive = True
    elif form == 'equ_hex':
        d.pre = ['@equ=HX=$5800']
        d.passive = True
    elif form == 'equ_addr':
        d.pre = ['@equ=EQF={}'.format(ins[0].saddr)]
        d.passive = True
    elif form in ('label', 'label_star', 'label_blank', 'label_auto'):
        d.pre = ['@label=' + {'label': 'LAB9', 'label_star': '*LAB9', 'label_blank': '', 'label_auto': '*'}[form]]
        d.passive = True
        d.anchor_label = form in ('label', 'label_star')
    elif form in ('keep', 'keep_val', 'nowarn', 'nowarn_val'):
        d.pre = ['@' + form.split('_')[0] + ('={}'.format(ins[0].saddr) if form.endswith('_val') else '')]
        d.passive = True
    elif form == 'defb':
        d.pre = ['@defb={}:1,"a",$03 ; data'.format(e2)]
        d.data = True
    elif form == 'defs':
        d.pre = ['@defs={}:3,$FF'.format(e2)]
        d.data = True
    elif form == 'defw':
        d.pre = ['@defw={}:{},$0102'.format(e2, ins[0].saddr)]
        d.data = True
    elif form == 'def_chain':
        d.pre = ['@defb={}:1'.format(e2), '@defw=513', '@defs=2,7']
        d.data = True
    elif form == 'defb_here':
        d.pre = ['@defb=1,2,3,4,5']
        d.data = True
    elif form == 'bytes':
        if anc.tmpl != 'NEG':
            raise NotApplicable     # @bytes is for instructions with alternative opcodes (asm.rst)
        d.pre = ['@bytes=$ED,$4C']
        d.skip_asm = (0, 1)
    elif form == 'if_asm':
        d.pre = ['@if({{asm}}>1)||isub={}||'.format(lay.resolve(sized_op(s)))]      # alternative delimiters: the operation contains a comma
        d.cond = lambda mode: mode[0] > 1
        d.final = lambda lay: [(_clone(i, sized_op(s), lay) if i.idx == p else _clone(i)) for i in ins]
    elif form == 'if_fix_else':
        d.pre = ['@if({{fix}}>0)||ofix={}|isub={}||'.format(lay.resolve(sized_op(s + 1)), lay.resolve(sized_op(s)))]
        d.cond = lambda mode: mode[1] > 0 or mode[0] > 0
        d.final = None      # set per mode in effect()
    elif form == 'if_label':
        d.pre = ['@if({asm})(label=LAB9)']
        d.passive = True
        d.anchor_label = True
    elif form == 'if_remove':
        if p == 0:
            raise NotApplicable
        d.pre = ['@if({{fix}}==2)(bfix=!{})'.format(a)]
        d.cond = lambda mode: mode[1] == 2
        d.final = lambda lay: [_clone(i) for i in ins if i.idx != p]
        d.peek_from = a
    elif form == 'isub_ofix':
        # two kinds on one instruction: the fix wins when both are in force
        d.pre = ['@isub=' + lay.resolve(sized_op(s)), '@ofix=' + lay.resolve(sized_op(s + 1))]
        d.cond = lambda mode: mode[0] > 0 or mode[1] > 0
    else:
        raise KeyError(form)
    return d


MODE_DEPENDENT = ('if_asm', 'if_fix_else', 'if_label', 'if_remove', 'isub_ofix')
OTHER_FORMS = ['org_bare', 'org_same', 'org_hex', 'org_shift', 'org_gap', 'equ_const', 'equ_small', 'equ_hex', 'equ_addr', 'label', 'label_star',
               'label_blank', 'label_auto', 'keep', 'keep_val', 'nowarn', 'nowarn_val', 'defb', 'defs', 'defw', 'def_chain',
               'defb_here', 'bytes', 'if_asm', 'if_fix_else', 'if_label', 'if_remove', 'isub_ofix']


def effect(d, lay, mode):
    """The documented effect of directive d in `mode`: the instructions in force, in order."""
    ins = lay.ins
    if d is None or not d.active(mode):
        return [_clone(i) for i in ins], None
    if d.name in ('if_fix_else', 'isub_ofix'):
        p = d.anchor
        s = ins[p].size
        grow = mode[1] > 0
        out = [(_clone(i, sized_op(s + 1 if grow else s), lay) if i.idx == p else _clone(i)) for i in ins]
        return out, (ins[p].saddr + s if grow else None)
    if d.final is None:
        return [_clone(i) for i in ins], (d.peek_from if d.reloc else None)
    return d.final(lay), d.peek_from


# --------------------------------------------------------------------------- skool text
def skool_text(lay, d, p, labels_all, with_directive=True, shift=False):
    ins = lay.ins
    lo, hi = lay.base, lay.end + PAD
    out = ['@start']
    for i in ins:
        if i.first:
            if i.idx:
                out.append('')
            out.append('; Entry {}'.format(i.entry))
            if i.entry == 0 and not (with_directive and d is not None and d.drop_org and p == 0):
                out.append('@org={}'.format(lay.base + GAP) if shift else '@org')
        line = ('{}${:04x} {:<13} ; comment {}' if lay.style == 'lh' else '{}{:05d} {:<13} ; comment {}').format('c' if i.first else ' ', i.saddr, i.text, i.idx)
        cont = '                     ; and a second line' if i.idx == 1 else None
        here = with_directive and d is not None and i.idx == p
        if here:
            out.extend(d.pre)
        if labels_all:
            out.append('@label=LB{}'.format(i.idx))     # after an inserted block, so that it labels the anchor
        if here:
            out.extend(d.before_anchor)
            out.append(line)
            if cont:
                out.append(cont)
            out.extend(d.after_anchor)
        else:
            out.append(line)
            if cont:
                out.append(cont)
    out.append('')
    out.append('; Probes')
    out.append(';')
    toks = ['[P{0}=#PEEK{0}]'.format(a) for a in range(lo, hi)]
    for k in range(0, len(toks), 4):
        out.append('; ' + ' '.join(toks[k:k + 4]))
    out.append('@org={}'.format(PROBE))
    out.append('c{:05d} RET'.format(PROBE))
    return '\n'.join(out) + '\n'


# --------------------------------------------------------------------------- readers (harness side)
_QUOTED = re.compile(r'("(?:[^"\\]|\\.)*")')
_IDENT = re.compile(r'(?<![$%\w"])([A-Za-z_]\w*)')


def strip_comment(line):
    quoted = False
    i = 0
    while i < len(line):
        c = line[i]
        if c == '"':
            quoted = not quoted
        elif c == '\\' and quoted:
            i += 1
        elif c == ';' and not quoted:
            return line[:i]
        i += 1
    return line


def subst_labels(op, labels, value=None):
    parts = _QUOTED.split(op)
    for k in range(0, len(parts), 2):
        parts[k] = _IDENT.sub(lambda m: (str(labels[m.group(1)] if value is None else value) if m.group(1) in labels else m.group(1)), parts[k])
    return ''.join(parts)


def read_asm(text):
    """Two-pass reader of skool2asm output.  Returns (image, gaps, labels, errors, counts)."""
    asm = assembler()
    items = []
    labels = {}
    errors = []
    counts = {'org': 0, 'equ': 0, 'label': 0, 'defx': 0}

    def assemble(op, addr):
        # data statements: by the reference evaluator (whatever their case); instructions: by the repository Assembler
        if defx.directive_of(op):
            try:
                return defx.assemble(op)
            except ValueError as e:
                errors.append('cannot evaluate {!r}: {}'.format(op, e))
                return ()
        return asm.assemble(op, addr) or ()
    for raw in text.split('\n'):
        line = raw.rstrip('\r')
        if not line.strip() or line.startswith(';'):
            continue
        if not line[0].isspace():
            body = strip_comment(line).strip()
            toks = body.split(None, 2)
            if len(toks) == 3 and toks[1].upper() == 'EQU':
                items.append(('equ', toks[0], toks[2]))
                labels[toks[0]] = None
                counts['equ'] += 1
            elif body.endswith(':') and len(toks) == 1:
                items.append(('label', body[:-1]))
                if body[:-1] in labels:
                    errors.append('label {} defined twice'.format(body[:-1]))
                labels[body[:-1]] = None
                counts['label'] += 1
            else:
                errors.append('unrecognised line {!r}'.format(line))
            continue
        body = strip_comment(line).strip()
        if not body:
            continue
        if body.upper().startswith('ORG '):
            items.append(('org', body[4:].strip()))
            counts['org'] += 1
        else:
            items.append(('op', body))
    # pass 1: addresses (operand values never change the size of a Z80 instruction; labels are given
    # the current address so that relative jumps stay in range)
    addr = None
    placed = []
    gaps = []
    for it in items:
        if it[0] == 'org':
            try:
                new = asm.parse_word(it[1])
            except ValueError:
                errors.append('cannot evaluate ORG {!r}'.format(it[1]))
                continue
            if addr is not None and new != addr:
                gaps.append((addr, new))
            addr = new
        elif it[0] == 'equ':
            try:
                labels[it[1]] = asm.parse_word(it[2])
            except ValueError:
                errors.append('cannot evaluate EQU {!r}'.format(it[2]))
        elif addr is None:
            errors.append('{} before any ORG'.format(it[0]))
        elif it[0] == 'label':
            labels[it[1]] = addr
        else:
            size = len(assemble(subst_labels(it[1], labels, addr), addr))
            if not size:
                errors.append('cannot assemble {!r}'.format(it[1]))
                continue
            if defx.directive_of(it[1]):
                counts['defx'] += 1
            placed.append((addr, size, it[1]))
            addr += size
    # pass 2: bytes
    image = {}
    used = 0
    for addr, size, op in placed:
        resolved = subst_labels(op, labels)
        if resolved != op:
            used += 1
        data = assemble(resolved, addr)
        if len(data) != size:
            errors.append('cannot assemble {!r} (= {!r}) at {}'.format(op, resolved, addr))
            continue
        for k, b in enumerate(data):
            if addr + k in image:
                errors.append('address {} defined twice'.format(addr + k))
            image[addr + k] = b
    counts['label_refs'] = used
    return image, gaps, labels, errors, counts


_WROTE = re.compile(r'start=(\d+), end=(\d+), size=(\d+)')


def read_bin(skool, mode, data, workdir):
    out = os.path.join(workdir, 'out.bin')
    if os.path.exists(out):
        os.remove(out)
    args = bin_mode_args(mode) + (['-d'] if data else []) + ['-E', str(PROBE), skool, out]
    r = tools.run_tool('skool2bin', args)
    if r.rc:
        return None, 'skool2bin {} failed: {} {}'.format(' '.join(args[:-2]), r.exc, r.err[-200:])
    m = _WROTE.search(r.err)
    if not m:
        return None, 'skool2bin reported no start/end: {!r}'.format(r.err[-200:])
    start, end, size = (int(g) for g in m.groups())
    blob = tools.read_file(out)
    if len(blob) != size or end - start != size:
        return None, 'skool2bin wrote {} bytes for start={} end={}'.format(len(blob), start, end)
    return (start, end, blob), None


_PROBE_TOKEN = re.compile(r'\[P(\d+)=([^\]]*)\]')


def read_peeks(text):
    out = {}
    for a, v in _PROBE_TOKEN.findall(text):
        out[int(a)] = v
    return out


# --------------------------------------------------------------------------- one case
class Case:
    """(file, directive, anchor, label option) - everything that does not depend on mode/options."""
    def __init__(self, base, entries, dname=None, kind=None, p=0, labels_all=False, gap_entry=None, shift=False, style=None, lab=None):
        self.lab = tuple(lab) if lab else None     # (label syntax, directive position) on a @*sub/@*fix form (LSYN, LABEL_ROLES)
        self.base, self.entries, self.dname, self.kind, self.p, self.labels_all, self.gap_entry = base, entries, dname, kind, p, labels_all, gap_entry
        self.shift = shift      # the whole file is assembled GAP bytes above its skool addresses (@org=base+GAP)
        self.style = style      # source style (STYLES)
        self.lay = Layout(base, entries, gap_entry, style)
        if p >= len(self.lay.ins):
            raise NotApplicable
        self.d = None
        if dname is not None:
            self.d = sub_form(dname, kind, self.lay, p, self.lab) if kind else other_form(dname, self.lay, p)
            self.d.anchor = p
        self.skool = skool_text(self.lay, self.d, p, labels_all, shift=shift)
        self.baseline = skool_text(self.lay, self.d, p, labels_all, False, shift) if self.d is not None and self.d.passive else None

    def ident(self):
        return '{}/{}/{}{}@{}{}'.format(self.base, '|'.join(';'.join(e) for e in self.entries), (self.kind + ':') if self.kind else '', (self.dname or 'none') + ('[{}#{}]'.format(*self.lab) if self.lab else ''),
                                        self.p, ('/labels' if self.labels_all else '') + ('/shift' if self.shift else '') + ('/' + self.style if self.style else ''))

    def spec(self):
        return dict(base=self.base, entries=self.entries, directive=self.dname, kind=self.kind, anchor=self.p, labels_all=self.labels_all, gap_entry=self.gap_entry, shift=self.shift, style=self.style, lab=list(self.lab) if self.lab else None)

    def classify(self, mode, create_labels):
        """Domain of the case in `mode`: returns dict(relocated, in_domain, peek_from, skip_asm, active)."""
        lay, d = self.lay, self.d
        final, peek_from = effect(d, lay, mode)
        active = d is not None and d.active(mode)
        # real addresses by the documented rules: contiguous from the first ORG; @org re-anchors
        real = {}
        a = lay.base + (GAP if self.shift else 0)
        moved_any = False
        for i in final:
            if i.saddr is not None and i.first and lay.gap_entry is not None and i.entry == lay.gap_entry and i.idx is not None and lay.ins[i.idx].first:
                if d is not None and d.name == 'org_gap':
                    a = i.saddr
            if active and d.reloc is not None and i.idx == d.anchor:
                a = d.reloc(i)
            if i.saddr is not None:
                real[i.saddr] = a
                if a != i.saddr:
                    moved_any = True
            a += i.size
        relocated = moved_any or a != lay.end
        if lay.gap_entry is not None and not (d is not None and d.name == 'org_gap'):
            relocated = True
        in_domain = True
        if relocated:
            labelled = set()
            for i in final:
                if i.saddr is None or i.idx is None:
                    continue
                if self.labels_all:
                    labelled.add(i.saddr)
                if create_labels and lay.ins[i.idx].first and not (active and d.displaces and i.idx == d.anchor):
                    labelled.add(i.saddr)
                if active and d.anchor_label and i.idx == d.anchor:
                    labelled.add(i.saddr)
                if active and d.anchor_unlabel and i.idx == d.anchor:
                    labelled.discard(i.saddr)
            for i in final:
                for num in referenced_numbers(i.text):
                    if num in real and real[num] != num and num not in labelled:
                        in_domain = False
        # #PEEK domain: everything when nothing is relocated; otherwise the bytes below the first address
        # whose contents may differ that belong to unmoved instructions referring to no relocated instruction
        # (the snapshot is assembled from the numbers in the skool file, skool2bin rewrites them)
        peek_addrs = None
        if relocated:
            if peek_from is None:
                peek_from = lay.base
            peek_addrs = set()
            for i in final:
                if i.saddr is None or real[i.saddr] != i.saddr:
                    continue
                if any(num in real and real[num] != num for num in referenced_numbers(i.text)):
                    continue
                peek_addrs.update(a for a in range(i.saddr, i.saddr + i.size) if a < peek_from)
        skip = set()
        if d is not None and d.skip_asm:
            skip = {lay.ins[d.anchor].saddr + k for k in d.skip_asm}
        return dict(relocated=relocated, in_domain=in_domain, peek_addrs=peek_addrs, skip_asm=skip, active=active)


_NUM = re.compile(r'(?<![\w$%])(\$[0-9A-Fa-f]+|\d+)')


def referenced_numbers(text):
    out = []
    parts = _QUOTED.split(text)
    for k in range(0, len(parts), 2):
        for m in _NUM.findall(parts[k]):
            out.append(int(m[1:], 16) if m.startswith('$') else int(m))
    return out


def opt_args(opts):
    return [x for x in (opts.get('base'), opts.get('case')) if x] + (['-c'] if opts.get('c') else [])


class Runner:
    def __init__(self):
        self.wd = tools.workdir()
        self.bin_cache = {}
        self.peeked = 0
        self.peek_bad = []

    def bin_image(self, skool_path, key, mode, data):
        k = (key, mode, data)
        if k not in self.bin_cache:
            if len(self.bin_cache) > 64:
                self.bin_cache.clear()
            self.bin_cache[k] = read_bin(skool_path, mode, data, self.wd)
        return self.bin_cache[k]

    def check(self, case, mode, opts, html=False, stats=None):
        """Returns a list of (clause, detail) and the domain classification of the case."""
        out = []
        self.peek_bad = []
        self.peeked = 0
        path = tools.write_file('c.skool', case.skool, self.wd)
        key = case.skool
        cls = case.classify(mode, bool(opts.get('c')) and not html)
        binres, err = self.bin_image(path, key, mode, False)
        if stats is not None:
            stats.transitions += 1
        if err:
            return [('tool', err)], cls
        start, end, blob = binres
        if stats is not None:
            stats.state((start, blob))
        if case.d is not None and case.d.data:
            datares, err = self.bin_image(path, key, mode, True)
            if err:
                return [('tool', err)], cls
        else:
            datares = binres
        # (2) passive directives leave the image alone
        if case.baseline is not None:
            bpath = tools.write_file('b.skool', case.baseline, self.wd)
            bres, err = self.bin_image(bpath, case.baseline, mode, False)
            if err:
                out.append(('tool', 'baseline: ' + err))
            elif bres != binres:
                out.append(('variant', 'skool2bin image changes with @{}: {} vs {} without it'.format(
                    case.d.pre[0][1:], _fmt_blob(binres), _fmt_blob(bres))))
        if html:
            hd = os.path.join(self.wd, 'html')
            r = tools.run_tool('skool2html', ['-q', '-d', hd, path])
            if stats is not None:
                stats.transitions += 1
            if r.rc:
                return out + [('tool', 'skool2html failed: {} {}'.format(r.exc, r.err[-200:]))], cls
            page = os.path.join(hd, 'c', 'asm', '{}.html'.format(PROBE))
            try:
                text = tools.read_file(page, False)
            except OSError:
                return out + [('tool', 'skool2html wrote no page for the probe entry')], cls
            out.extend(self._peeks(case, cls, text, datares, 'html'))
            if stats is not None:
                stats.counters['peek_addresses_compared'] += self.peeked
            return out, cls
        args = ['-q', '-w'] + asm_mode_args(mode) + opt_args(opts) + [path]
        r = tools.run_tool('skool2asm', args)
        if stats is not None:
            stats.transitions += 1
        if r.rc:
            return out + [('tool', 'skool2asm {} failed: {} {}'.format(' '.join(args[2:-1]), r.exc, r.err[-200:]))], cls
        # (3) #PEEK
        out.extend(self._peeks(case, cls, r.out, datares, 'asm'))
        if stats is not None:
            stats.counters['peek_addresses_compared'] += self.peeked
        # (1) images
        image, gaps, labels, errors, counts = read_asm(r.out)
        image = {a: b for a, b in image.items() if a < PROBE}
        gaps = [g for g in gaps if g[1] < PROBE]
        if stats is not None:
            for k, v in counts.items():
                if v:
                    stats.counters['asm_' + k] += 1
            if gaps:
                stats.counters['asm_gap'] += 1
        if cls['relocated'] and not cls['in_domain']:
            if stats is not None:
                stats.counters['out_of_domain_unlabelled_relocation'] += 1
            return out, cls
        for e in errors:
            out.append(('asm-text', e))
        if errors:
            return out, cls
        gap_addrs = set()
        for g0, g1 in gaps:
            gap_addrs.update(range(g0, g1))
        bad = []
        for a in sorted(set(image) | set(range(start, end))):
            if a in cls['skip_asm']:
                continue
            b = blob[a - start] if start <= a < end else None
            v = image.get(a)
            if v is None and a in gap_addrs:
                v = 0       # skipped by ORG: padding in the binary file
            if v != b:
                bad.append((a, v, b))
        if bad:
            out.append(('image', 'asm/bin differ at {} address(es): {}'.format(
                len(bad), ', '.join('{}: asm {} bin {}'.format(a, _b(v), _b(b)) for a, v, b in bad[:6]))))
        return out, cls

    def _peeks(self, case, cls, text, binres, where):
        out = []
        start, end, blob = binres
        peeks = read_peeks(text)
        lo, hi = case.lay.base, case.lay.end + PAD
        if sorted(peeks) != list(range(lo, hi)):
            return [('peek', '{}: probes read back for {} of {} addresses'.format(where, len(peeks), hi - lo))]
        addrs = range(lo, hi) if cls['peek_addrs'] is None else sorted(cls['peek_addrs'])
        self.peeked = len(addrs)
        bad = []
        for a in addrs:
            want = blob[a - start] if start <= a < end else 0
            if peeks[a] != str(want):
                bad.append((a, peeks[a], want))
        self.peek_bad = [x[0] for x in bad]
        if bad:
            out.append(('peek', '{}: #PEEK differs from the skool2bin image at {} address(es): {}'.format(
                where, len(bad), ', '.join('{}: #PEEK {} bin {}'.format(*x) for x in bad[:6]))))
        return out


def _b(v):
    return '-' if v is None else '{:02X}'.format(v)


def _fmt_blob(res):
    return '{}:{}'.format(res[0], res[2].hex())


# --------------------------------------------------------------------------- the space
OPT_BASE = ('', '-D', '-H')
OPT_CASE = ('', '-l', '-u')
OPT_C = (0, 1)


def all_options():
    return [dict(base=b, case=c, c=k) for b in OPT_BASE for c in OPT_CASE for k in OPT_C]


def option_deviations(dmax):
    seen = []
    for _, cfg in core.deviations(dict(base='', case='', c=0), dict(base=['-D', '-H'], case=['-l', '-u'], c=[1]), dmax):
        if cfg not in seen:
            seen.append(cfg)
    return seen


def hosts(tier, xs=None, short=True, splits=None):
    """Host files for the directive parts: (entries) lists."""
    out = []
    xs = xs or HOST_X
    i2s = HOST_I2 if tier == 'thorough' else HOST_I2[:1]
    for x in xs:
        for i2 in i2s:
            seq = [HOST_I0, x, i2]
            for sp in splits or (_splits(3) if tier == 'thorough' else [(3,), (1, 2), (2, 1)]):
                out.append(_entries(seq, sp))
    if short:
        for x in xs:
            out.append([[x]])
            out.append([[HOST_I0, x]])
            out.append([[x, HOST_I2[0]]])
            if tier == 'thorough':
                out.append([[HOST_I0], [x]])
                out.append([[x], [HOST_I2[0]]])
    return out


DEFAULT_HOST = [[HOST_I0, 'LD A,5', 'DEFW {A1}']]


def groups(tier, seed):
    """The whole space as (part, Case-constructor arguments, modes, option list, html) tuples, simplest first."""
    base = BASES[seed % len(BASES)]
    opts_all = all_options()
    opt0 = [dict(base='', case='', c=0)]
    lab_opts = [(False, 0), (False, 1), (True, 0)]
    # ---- part A: operand alphabet x options, no directive
    n_max = 3 if tier == 'thorough' else 2
    for n in range(1, n_max + 1):
        for seq in itertools.product(ALPHABET if n < 3 else ALPHABET3, repeat=n):
            for sp in _splits(n):
                if n < 3:
                    o = opts_all
                elif sp == (3,):
                    o = option_deviations(1)
                elif sp == (1, 1, 1):
                    o = [dict(base='', case='', c=1), dict(base='-H', case='', c=1)]
                else:
                    continue
                yield ('A', dict(base=base, entries=_entries(seq, sp)), [(1, 0)], o, False)
    # ---- part L: the same files in the lower case hexadecimal source style
    for n in (1, 2):
        for seq in itertools.product(ALPHABET, repeat=n):
            for sp in _splits(n):
                yield ('L', dict(base=base, entries=_entries(seq, sp), style='lh'), [(1, 0)], opts_all if n == 1 or tier == 'thorough' else option_deviations(1), False)
    # ---- part T: string operands of data statements x case x base options, in both source styles
    for stmt in string_statements(tier):
        for style in STYLES:
            yield ('T', dict(base=base, entries=[[stmt]], style=style), [(1, 0)], [o for o in opts_all if not o['c']], False)
    # ---- part P: directives other than single @*sub/@*fix.  Mode-independent forms: x all 18 options;
    # mode-dependent forms (@if, two kinds on one instruction): x all 9 modes x label options
    for ent in hosts(tier, HOST_X + HOST_X_P, short=tier == 'thorough', splits=None if tier == 'thorough' else [(3,), (1, 2)]):
        n = sum(len(e) for e in ent)
        for form in OTHER_FORMS:
            gap = 1 if form == 'org_gap' else None
            if gap is not None and len(ent) < 2:
                continue
            for p in range(n):
                if form in MODE_DEPENDENT:
                    for la, c in lab_opts:
                        yield ('P', dict(base=base, entries=ent, dname=form, p=p, labels_all=la, gap_entry=gap), MODES, [dict(base='', case='', c=c)], False)
                else:
                    yield ('P', dict(base=base, entries=ent, dname=form, p=p, gap_entry=gap), [(1, 0), (3, 3)] if tier == 'thorough' else [(1, 0)], opts_all, False)
                    if form == 'org_shift':
                        yield ('P', dict(base=base, entries=ent, dname=form, p=p, labels_all=True), [(1, 0)], [o for o in opts_all if not o['c']], False)
    # ---- part B: @*sub/@*fix forms
    if tier == 'quick':
        # B1: every form x every kind x every mode on the default host; B2: every form x every host, @rsub, in force or not
        for form in SUB_FORMS:
            for kind in KINDS:
                for p in range(3):
                    for la, c in lab_opts:
                        yield ('B', dict(base=base, entries=DEFAULT_HOST, dname=form, kind=kind, p=p, labels_all=la), MODES, [dict(base='', case='', c=c)], False)
        for ent in hosts(tier):
            if ent == DEFAULT_HOST:
                continue
            n = sum(len(e) for e in ent)
            for form in SUB_FORMS:
                for p in range(n):
                    for la, c in lab_opts:
                        yield ('B', dict(base=base, entries=ent, dname=form, kind='rsub', p=p, labels_all=la), [(2, 0), (3, 1)], [dict(base='', case='', c=c)], False)
    else:
        for ent in hosts(tier):
            n = sum(len(e) for e in ent)
            for form in SUB_FORMS:
                for kind in KINDS:
                    for p in range(n):
                        for la, c in lab_opts:
                            yield ('B', dict(base=base, entries=ent, dname=form, kind=kind, p=p, labels_all=la), MODES, [dict(base='', case='', c=c)], False)
    # ---- part Y: the label syntax of the directive value on every directive of every form that can carry it
    for form in SUB_FORMS:
        for k in range(len(LABEL_ROLES.get(form, ''))):
            for lsyn in LSYN:
                for kind in KINDS:
                    for p in range(3):
                        for la, c in lab_opts:
                            yield ('Y', dict(base=base, entries=DEFAULT_HOST, dname=form, kind=kind, p=p, labels_all=la, lab=[lsyn, k]),
                                   MODES if tier == 'thorough' else [(2, 2), (3, 3)], [dict(base='', case='', c=c)], False)
    if tier == 'thorough':
        for ent in hosts(tier):
            if ent == DEFAULT_HOST:
                continue
            n = sum(len(e) for e in ent)
            for form in SUB_FORMS:
                for k in range(len(LABEL_ROLES.get(form, ''))):
                    for lsyn in LSYN:
                        for p in range(n):
                            for la, c in lab_opts:
                                yield ('Y', dict(base=base, entries=ent, dname=form, kind='rsub', p=p, labels_all=la, lab=[lsyn, k]), [(2, 0), (3, 1)],
                                       [dict(base='', case='', c=c)], False)
    # ---- part S: the same forms in a file assembled GAP bytes above its skool addresses (@org=base+GAP): the
    # real address differs from the skool address wherever a directive is applied
    for form in SUB_FORMS:
        for kind in (KINDS if tier == 'thorough' else ('bfix',)):
            for p in range(3):
                yield ('S', dict(base=base, entries=DEFAULT_HOST, dname=form, kind=kind, p=p, labels_all=True, shift=True),
                       MODES if tier == 'thorough' else [(1, 1), (1, 2)], opt0, False)
    # ---- part O: base/case/-c options on substituted text (default host)
    for form in SUB_FORMS:
        for kind in (KINDS if tier == 'thorough' else ('ssub', 'bfix')):
            for p in range(3):
                for la in (False, True):
                    m = MODES if tier == 'thorough' else [(2, 2)]
                    yield ('O', dict(base=base, entries=DEFAULT_HOST, dname=form, kind=kind, p=p, labels_all=la), m,
                           [o for o in opts_all if (o['base'] or o['case']) and not (la and o['c'])], False)
    # ---- part H: HTML mode (no substitution mode at all) against plain skool2bin
    for style in STYLES:
        for t in ALPHABET:
            yield ('H', dict(base=base, entries=[[t]], style=style), [HTML], opt0, True)
    for t1, t2 in itertools.product(ALPHABET[:12] if tier == 'quick' else ALPHABET, repeat=2):
        if tier == 'thorough' or t1 != t2:
            yield ('H', dict(base=base, entries=[[t1], [t2]]), [HTML], opt0, True)
    for form in SUB_FORMS:
        for kind in KINDS:
            for p in range(3):
                yield ('H', dict(base=base, entries=DEFAULT_HOST, dname=form, kind=kind, p=p), [HTML], opt0, True)
    for ent in hosts('quick', HOST_X + HOST_X_P, short=False)[::3]:
        for form in OTHER_FORMS:
            for p in range(3):
                yield ('H', dict(base=base, entries=ent, dname=form, p=p, gap_entry=1 if form == 'org_gap' else None), [HTML], opt0, True)


def _tags(part, case, mode, opts, clause, cls, html, detail='', peek_bad=()):
    m = re.search(r'failed: (\w+: .{0,60})', detail)
    where = ''
    if clause == 'peek' and peek_bad and case.d is not None:
        # are all differing addresses inside the anchor instruction and its successor (what one directive can rewrite)?
        ins = case.lay.ins
        hi = ins[case.p + 2].saddr if case.p + 2 < len(ins) else case.lay.end
        where = 'anchor_span' if all(ins[case.p].saddr <= a < hi for a in peek_bad) else 'outside'
    return {'where': where,'error': m.group(1).strip() if clause == 'tool' and m else '','part': part, 'clause': clause, 'form': case.dname or 'none', 'kind': case.kind or '', 'asm': mode[0], 'fix': mode[1],
            'style': case.style or '', 'lsyn': case.lab[0] if case.lab else '', 'lpos': case.lab[1] if case.lab else '', 'base': opts.get('base', ''), 'case': opts.get('case', ''), 'c': opts.get('c', 0), 'labels_all': int(case.labels_all),
            'relocated': int(cls['relocated']), 'active': int(cls['active']), 'anchor': case.p, 'html': int(html)}


def _shard(shard, nshards, tier, seed):
    stats = core.Stats(PROPERTY)
    run = Runner()
    order = 0
    for gi, (part, kw, modes, opts_list, html) in core.shard_iter(groups(tier, seed), shard, nshards):
        try:
            case = Case(**kw)
        except NotApplicable:
            stats.counters['form_not_applicable'] += 1
            continue
        for mode in modes:
            for oi, opts in enumerate(opts_list):
                stats.evaluations += 1
                stats.traces += 1
                res, cls = run.check(case, mode, opts, html, stats)
                stats.counters['part_' + part] += 1
                if case.dname:
                    stats.counters['form_' + case.dname] += 1
                    if cls['active']:
                        stats.counters['in_force_' + (case.kind or case.dname)] += 1
                        if case.lab:
                            stats.counters['label_syntax_in_force_' + case.lab[0]] += 1
                if cls['relocated']:
                    stats.counters['case_b_relocated'] += 1
                    if cls['in_domain']:
                        stats.counters['case_b_in_domain'] += 1
                else:
                    stats.counters['case_a'] += 1
                if html:
                    stats.counters['html_runs'] += 1
                if case.style or case.dname or opts.get('base') or opts.get('case') or opts.get('c') or '{' in ''.join(t for e in case.entries for t in e):
                    stats.nontriv((case.ident(), mode, tuple(sorted(opts.items()))))
                for clause, detail in res:
                    cid = '{}/{}/m{}{}/{}{}'.format(part, case.ident(), mode[0], mode[1], ''.join(opt_args(opts)) or 'default', '/html' if html else '')
                    stats.violation(cid + ':' + clause, dict(spec=case.spec(), mode=list(mode), opts=opts, html=html, skool=case.skool), clause + ': ' + detail,
                                    tags=_tags(part, case, mode, opts, clause, cls, html, detail, run.peek_bad), order=gi * 1000 + MODES.index(mode) * 20 + oi if mode in MODES else gi * 1000 + oi)
        if gi % 1499 == 0:
            stats.sample({'part': part, 'case': case.ident(), 'modes': [list(m) for m in modes], 'options': len(opts_list), 'skool': case.skool.split('\n')[:14]})
    return stats


def run(tier, seed):
    stats = core.run_shards(_shard, tier, seed, prop=PROPERTY)
    base = BASES[seed % len(BASES)]
    T = tier == 'thorough'
    rule = (
        'skool files at base address {base} (VERIF_SEED rotates the base over {bases}); every part is a complete product. '
        'A (operands): every sequence of {na} instructions over the {nl}-letter alphabet x every split into entries x mode (1,0) x {{-D,-H,none}} x {{-l,-u,none}} x {{-c,none}}{a3}. '
        'L (source style): every file of part A of 1-2 instructions written in the lower case hexadecimal style of sna2skool -H -l (operations in lower case outside strings, instruction '
        'addresses and address operands as $xxxx with lower case digits) x mode (1,0) x {ol}; the alphabet has data statements and an instruction whose operands are expressions over '
        'hexadecimal numbers with digits A-F. '
        'T (strings in data statements): DEFB and DEFM with every sequence of {nt} items over {{the {nss} string shapes (mixed case text; text containing IXH/IXL/IYH/IYL in upper and in lower case; '
        '\\" and \\\\ in the middle and at the end of a string; the single characters "\\"", "\\\\" and "q"), those {ncs} characters +128, the numbers 13 and $1F}}, DEFW with every sequence of 1-2 items over '
        '{{those characters, with and without +128, the two numbers}}, DEFS 2,c for each character item: each statement as a one-instruction file in both source styles x mode (1,0) x '
        '{{-D,-H,none}} x {{-l,-u,none}}. '
        'P (other directives): {np} forms (@org bare/=same/=hex/=shifted/after a gap, @equ x4, @label x4, @keep x2, @nowarn x2, @defb/@defs/@defw x5, @bytes, @if x4, @isub+@ofix on one '
        'instruction) x every anchor x {hp}: mode-independent forms x modes {mp} x all 18 options, mode-dependent forms x all 9 modes x {{no labels, -c, @label on every instruction}}. '
        'B (@*sub/@*fix): {nf} forms (replace same/longer/shorter, LABEL:/comment/final-comment variants, > x2, + x2, replace+append, | x6, ! x2, +begin/-begin..+else/-begin..-end blocks) x '
        '{hb} x every anchor x {{no labels, -c, @label on every instruction}}. '
        'Y (label syntax [>][|][+][/][LABEL:]INSTRUCTION): every form x every one of its directives that has no label yet ({ny} form/directive positions: on the replaced or overwritten '
        'anchor, on an instruction inserted before or after it, on a later instruction of a | chain) x {{LAB8:, *LAB8:, : (empty label), *:}} x {hy} x every anchor x '
        '{{no labels, -c, @label on every instruction}}. S: the same forms, {ks}, in a file assembled 16 bytes above its skool addresses (@org=base+16), all labelled. '
        'O: every form x {ko} x the 8 non-default base/case settings (x -c). H: skool2html #PEEK against plain skool2bin for {hh}. '
        'Data statements (DEFB/DEFM/DEFS/DEFW) in the ASM text are assembled by the reference evaluator mc/refs/defx.py, instructions by the repository Assembler. '
        'evaluations = (file, mode, options) triples; transitions = tool executions; states = distinct skool2bin images; non-trivial = a directive, an address operand or a non-default option present'
    ).format(
        base=base, bases=list(BASES), na='1-3' if T else '1-2', nl=len(ALPHABET),
        a3=' (three instructions over the first {} letters: one entry x option deviations d<=1, three entries x {{-c, -H -c}})'.format(len(ALPHABET3)) if T else '',
        ol='all 18 options' if T else 'all 18 options (one instruction), the 6 option settings at most one step from the default (two instructions)',
        np=len(OTHER_FORMS), hp='7 anchor letters x 2 third instructions x 4 splits + 35 shorter hosts' if T else '7 anchor letters x splits {(3),(1,2)} of a three-instruction host',
        mp='(1,0),(3,3)' if T else '(1,0)', nf=len(SUB_FORMS),
        hb='6 kinds x 9 modes x every host (4 anchor letters x 2 third instructions x 4 splits + 20 shorter hosts)' if T
        else '6 kinds x 9 modes on the default host, and @rsub in modes (2,0),(3,1) on the 11 other three-instruction hosts (4 anchor letters x splits (3),(1,2),(2,1)) and 12 shorter hosts',
        nt='1-3' if T else '1-2', nss=len(STRINGS), ncs=len(CHARS),
        ny=sum(len(v) for v in LABEL_ROLES.values()),
        hy='6 kinds x 9 modes on the default host, and @rsub in modes (2,0),(3,1) on every other host' if T else '6 kinds x modes (2,2),(3,3) on the default host',
        ks='6 kinds x 9 modes' if T else '@bfix in modes (1,1),(1,2)', ko='6 kinds x 9 modes' if T else '@ssub/@bfix in mode (2,2)',
        hh='every letter in both source styles, every pair of letters in two entries, every B form x kind x anchor, every P form on 7 hosts' if T
        else 'every letter in both source styles, the pairs of the first 12 letters in two entries, every B form x kind x anchor, every P form on 7 hosts')
    meta = dict(
        rule=rule,
        exhaustive=True,
        bound=('files of <= 3 instructions in <= 3 entries plus one directive form (one anchor); all 9 (asm,fix) mode pairs of both tools; option product / deviations as stated' if T else
               'files of <= 2 instructions (part A) or 3-instruction hosts in <= 2 entries plus one directive form (one anchor); mode and option products as stated'),
        assumptions=[
            'instructions in the ASM text are assembled by the harness reader through skoolkit.z80.Assembler (tied to the disassembler by C02); DEFB/DEFM/DEFS/DEFW statements by the '
            'independent evaluator mc/refs/defx.py (numbers in the three bases with hexadecimal digits in either case, characters, + - * / % and parentheses; values in range); '
            'instruction sizes are taken to be independent of operand values',
            'every file has @start and an @org in front of its first entry: skool2asm emits ORG only for @org (asm.rst); without it the ASM text has no address at all',
            '@org is generated only in front of the first instruction of an entry ("the @org directive works only on the first instruction in an entry", asm.rst); '
            'the first instruction of the file is never removed (the ORG would go with it); an entry never starts with an instruction that has no address',
            'entries are contiguous unless an @org is present: skool2bin places an entry that has no @org directly after the previous one, as an assembler does with the ASM text',
            '@bytes: the two bytes of the instruction are excluded from the asm/bin comparison (alternative opcodes cannot be written in ASM text; asm.rst) but not from #PEEK',
            '@defb/@defs/@defw do not appear in ASM text: #PEEK is compared with skool2bin --data, the ASM image with skool2bin without --data',
            '@if uses only the {asm} and {fix} fields (the only ones skool2bin defines)',
            'domain split of DESIGN.md: with a size-changing directive (or a shifting @org) in force, image equality is required only if every referenced relocated instruction is labelled '
            '(@label on every instruction, -c for entry starts, LABEL: in the directive); #PEEK is then compared only on unmoved instructions that refer to no relocated instruction, below the '
            'first address whose contents may differ; the other cases are counted as out_of_domain_unlabelled_relocation',
            'chained @*sub/@*fix directives use the | marker on all directives of a chain or on none, as in the documented examples (a > line may precede)',
            'operands of generated instructions never name a label textually; labels in the ASM text come from -c, @label, LABEL: and @equ only',
        ],
        required_guards=['part_A', 'part_L', 'asm_defx', 'part_T', 'part_P', 'part_B', 'part_Y', 'part_S', 'part_O', 'part_H', 'case_a', 'case_b_in_domain', 'out_of_domain_unlabelled_relocation', 'asm_org', 'asm_equ',
                         'asm_label', 'asm_label_refs', 'asm_gap', 'html_runs', 'peek_addresses_compared'] + ['in_force_' + k for k in KINDS] + ['label_syntax_in_force_' + x for x in LSYN] + ['form_' + f for f in SUB_FORMS + OTHER_FORMS],
        extra={'out_of_domain_unlabelled_relocation': stats.counters.get('out_of_domain_unlabelled_relocation', 0),
               'form_not_applicable': stats.counters.get('form_not_applicable', 0)},
    )
    return stats, meta


def replay(case):
    spec = case['spec']
    c = Case(spec['base'], spec['entries'], spec.get('directive'), spec.get('kind'), spec.get('anchor', 0), spec.get('labels_all', False), spec.get('gap_entry'), spec.get('shift', False), spec.get('style'), spec.get('lab'))
    res, _ = Runner().check(c, tuple(case['mode']), case['opts'], case.get('html', False))
    return ['{}: {}'.format(cl, d) for cl, d in res]
