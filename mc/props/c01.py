"""C01 - disassembly is lossless: sna2skool output reassembles to the original bytes.

Seam: sna2skool.main (stdout -> skool file) then skool2bin.main, in-process.
A. Instruction sweep: one image holding every opcode slot with every operand byte
   drawn from {00,01,22 ("),41,5C (\\),7F,80,A2,DC,FF}; boundaries known by construction
   (reference decoder lengths); x base letter on the C sub-block (n,b,c,d,h,m; the 36
   two-letter pairs on an image of the two-operand forms) x {-H} x {-l} x Opcodes.
B. Control-file shapes over a 16-byte window and three fills (code, text incl. quote /
   backslash / ^ / `, constant): every single block type and every ordered pair of
   block types {b,c,g,i,s,t,u,w} split at three positions, at most one sub-block
   (B,C,S,T,W with a sublength pattern from a 40-entry menu: n, n*k, a:b, base prefixes on
   every part, main-length prefixes) per layout, M and L directives; sna2skool option
   deviations (DefbSize, DefmSize, DefwSize, Wrap, LineWidth, InstructionWidth, -H, -l,
   Opcodes, HandleRST) d <= 1.
C. 64K edge: every slot at 65536-k, k = 1..4, Wrap 0/1.
Oracle: for every address of [start,end) outside 'i' blocks, the byte written by
skool2bin == the original byte; no 'Failed to assemble' style warning.
"""
import itertools
import os
import re

from .. import core, tools
from ..refs import z80ref
from .c07 import slots as c07_slots

PROPERTY = 'C01'
NEEDS_C = False

ALPHA = (0x00, 0x01, 0x22, 0x41, 0x5C, 0x7F, 0x80, 0xA2, 0xDC, 0xFF)     # incl. 0xA2/0xDC: quote and backslash with bit 7 set
ORG = 0x6000


def slot_codes():
    seen = set()
    for code in c07_slots():
        key = (code[0], code[1] if code[0] in (0xCB, 0xED, 0xDD, 0xFD) else None,
               code[3] if code[1] == 0xCB and code[0] in (0xDD, 0xFD) else None)
        if key not in seen:
            seen.add(key)
            yield code


def operand_positions(code0):
    """Indexes of the operand bytes of a slot (by the reference decoder's length)."""
    ref = z80ref.decode(list(code0) + [0] * 4, 0)
    if code0[0] in (0xDD, 0xFD) and code0[1] == 0xCB:
        return ref, [2]
    first = 2 if code0[0] in (0xCB, 0xED, 0xDD, 0xFD) else 1
    return ref, list(range(first, ref.length))


def build_image(opcodes_all, for_m=False, two_operand_only=False):
    """Returns (bytes, list of (offset, length)) laid out from ORG."""
    data = []
    bounds = []
    for code0 in slot_codes():
        ref, pos = operand_positions(code0)
        if ref.op in ('jr', 'djnz'):
            continue            # relative jumps are swept in C02 and placed separately below
        if two_operand_only and not (ref.op == 'ld8' and ref.a[0][0] == 'idx' and ref.a[1][0] == 'n'):
            continue
        if for_m and ref.op in ('rst', 'in_a_n', 'out_n_a'):
            continue
        combos = itertools.product(ALPHA, repeat=len(pos)) if pos else [()]
        for combo in combos:
            if for_m and (0 in combo):
                continue
            code = list(code0[:ref.length])
            for p, v in zip(pos, combo):
                code[p] = v
            bounds.append((len(data), ref.length))
            data.extend(code)
    # relative jumps (targets inside the image)
    if not two_operand_only:
        for op in (0x10, 0x18, 0x20, 0x28, 0x30, 0x38):
            for e in (0x00, 0x01, 0x7F, 0x80, 0xFE, 0xFF, 0x22, 0x5C):
                bounds.append((len(data), 2))
                data.extend((op, e))
    return bytes(data), bounds


def run_pair(binfile, org, end, ctl_text, s2s_opts, d, name='t'):
    """sna2skool + skool2bin; returns (image dict or None, problems list, skool text)."""
    problems = []
    args = ['-o', str(org), '-e', str(end)] + list(s2s_opts)
    if ctl_text is None:
        args += ['-c', '0']
    else:
        ctl = tools.write_file(name + '.ctl', ctl_text, d)
        args += ['-c', ctl]
    r = tools.run_tool('sna2skool', args + [binfile])
    if r.rc:
        return None, ['sna2skool failed: {} {}'.format(r.exc, r.err[-200:])], ''
    skool = tools.write_file(name + '.skool', r.out, d)
    warn1 = r.err
    out = os.path.join(d, name + '.out.bin')
    if os.path.exists(out):
        os.unlink(out)
    r2 = tools.run_tool('skool2bin', [skool, out])
    if r2.rc:
        return None, ['skool2bin failed: {} {}'.format(r2.exc, r2.err[-300:])], r.out
    m = re.search(r'start=(\d+), end=(\d+), size=(\d+)', r2.err)
    if not m:
        return None, ['skool2bin reported no range: {}'.format(r2.err[-200:])], r.out
    start = int(m.group(1))
    data = tools.read_file(out)
    image = {start + i: b for i, b in enumerate(data)}
    for line in r2.err.splitlines():
        if 'Failed' in line or 'Cannot' in line or 'ERROR' in line:
            problems.append('skool2bin: ' + line.strip())
    return (image, warn1), problems, r.out


def compare(image, orig, org, end, ignored=()):
    bad = []
    for a in range(org, end):
        if any(lo <= a < hi for lo, hi in ignored):
            continue
        want = orig[a - org]
        got = image.get(a)
        if got != want:
            bad.append((a, want, got))
    return bad


# ------------------------------------------------------------------------------ part A
def part_a(stats, shard, nshards, tier):
    d = tools.workdir()
    quick = tier == 'quick'
    opcode_sets = ('', 'ALL') if quick else ('', 'ALL', 'ED63', 'ED6B', 'ED70', 'ED71', 'IM', 'NEG', 'RETN', 'XYCB')
    runs = []
    for base in ('n', 'b', 'c', 'd', 'h', 'm'):
        for hexa, lower, opc in itertools.product((0, 1), (0, 1), opcode_sets):
            runs.append(('full', base, hexa, lower, opc))
    pairs = [a + b for a in 'nbcdhm' for b in 'nbcdhm']
    for base in pairs:
        for hexa, lower in itertools.product((0, 1), (0, 1)):
            runs.append(('two', base, hexa, lower, ''))
    images = {}
    for ri, (kind, base, hexa, lower, opc) in core.shard_iter(runs, shard, nshards):
        for_m = 'm' in base
        key = (kind, for_m)
        if key not in images:
            images[key] = build_image(True, for_m, kind == 'two')
        data, bounds = images[key]
        binfile = tools.write_file('a_{}_{}.bin'.format(kind, int(for_m)), data, d)
        end = ORG + len(data)
        # one C sub-block per instruction would be huge; one sub-block with the base on the main length
        ctl = 'c {}\nC {},{}{}\ni {}\n'.format(ORG, ORG, base if base != 'n' else '', len(data), end)
        opts = []
        if hexa:
            opts.append('-H')
        if lower:
            opts.append('-l')
        if opc:
            opts += ['-I', 'Opcodes=' + opc]
        res, problems, skool = run_pair(binfile, ORG, end, ctl, opts, d, 'a')
        stats.evaluations += len(bounds)
        stats.transitions += 2
        stats.counters['A_runs'] += 1
        cid = 'A/{}/{}/H{}l{}/{}'.format(kind, base, hexa, lower, opc or '-')
        case = {'part': 'A', 'kind': kind, 'base': base, 'hex': hexa, 'lower': lower, 'opcodes': opc}
        if res is None:
            stats.violation(cid, case, '; '.join(problems), tags={'part': 'A', 'base': base}, order=ri)
            continue
        image, warn = res
        bad = compare(image, data, ORG, end)
        if bad or problems:
            # attribute each bad byte to its instruction
            detail = []
            starts = [ORG + o for o, _ in bounds]
            import bisect
            for a, want, got in bad[:3]:
                i = bisect.bisect_right(starts, a) - 1
                o, n = bounds[i]
                detail.append('bytes {} at {} came back with {} at {}'.format(
                    ' '.join('%02X' % b for b in data[o:o + n]), ORG + o, 'nothing' if got is None else '%02X' % got, a))
            stats.violation(cid, case, '; '.join(detail + problems[:2]), tags={'part': 'A', 'base': base, 'opcodes': opc}, order=ri)
        stats.state(('A', kind, base, hexa, lower, opc))
        stats.nontriv(('A', kind, base, hexa, lower, opc))
    if shard == 0:
        data, bounds = build_image(True)
        stats.sample({'part': 'A', 'image_bytes': len(data), 'instructions': len(bounds), 'ctl': 'c 24576 / C 24576,b<len> / i <end>'})


# ------------------------------------------------------------------------------ part B
W_ORG = 0x8000
FILLS = {
    # eight 2-byte instructions: statement boundaries at even offsets
    'code': bytes((0x3E, 0x41, 0x06, 0x5C, 0x0E, 0x22, 0x16, 0xFF, 0x1E, 0x80, 0x26, 0x00, 0x2E, 0x7F, 0xCB, 0x3F)),
    'text': bytes((0x48, 0x22, 0x5C, 0x60, 0x5E, 0x7F, 0x20, 0xC1, 0x41, 0x41, 0x00, 0x0D, 0x22, 0x22, 0x80, 0x7A)),
    'const': bytes((0x41,) * 16),
    'rst': bytes((0xCF, 0x05, 0xEF, 0x38, 0x00, 0xC9, 0xC7, 0x00, 0xD7, 0xC9, 0xFF, 0x00, 0xDF, 0xC9, 0xE7, 0xC9)),
}
BLOCKS = ('b', 'c', 'g', 'i', 's', 't', 'u', 'w')
PREF = ('b', 'c', 'd', 'h', 'm', 'n')


def sub_menu(kind, a, L, fill):
    """Sub-block directives (well-formed) for a range of length L at address a."""
    out = []
    zero_free = 0 not in FILLS[fill][a - W_ORG:a - W_ORG + L]
    prefs = [p for p in PREF if p != 'm' or zero_free]
    if kind in ('B', 'T'):
        out.append('{} {},{}'.format(kind, a, L))
        for k in (1, 2, 3):
            out.append('{} {},{},{}'.format(kind, a, L, k))
        if L >= 4:
            out.append('{} {},{},1*2,2'.format(kind, a, L))
            out.append('{} {},{},2,1*2'.format(kind, a, L))
        for p in prefs:
            out.append('{} {},{},{}1'.format(kind, a, L, p))
            out.append('{} {},{}{}'.format(kind, a, p, L))
            out.append('{} {},{},{}1:{}1'.format(kind, a, L, p, 'h' if p != 'h' else 'b'))
            out.append('{} {},{},1:{}1'.format(kind, a, L, p))
        out.append('{} {},{},2:c2'.format(kind, a, L) if L >= 4 else '{} {},{},1:c1'.format(kind, a, L))
        if kind == 'T':
            out.append('T {},{},1:n1'.format(a, L))
            out.append('T {},{},n1:1'.format(a, L))
            out.append('T {},{},2:n2*2'.format(a, L) if L >= 8 else 'T {},{},1:n1*1'.format(a, L))
    elif kind == 'W':
        if L % 2 == 0:
            out.append('W {},{}'.format(a, L))
            out.append('W {},{},2'.format(a, L))
            if L >= 4:
                out.append('W {},{},4'.format(a, L))
                out.append('W {},{},2:2'.format(a, L))
            for p in prefs:
                if p == 'm' and not zero_free:
                    continue
                out.append('W {},{},{}2'.format(a, L, p))
                out.append('W {},{}{}'.format(a, p, L))
                if L >= 4:
                    out.append('W {},{},{}2:{}2'.format(a, L, p, 'd' if p != 'd' else 'h'))
    elif kind == 'S':
        if fill == 'const':
            out.append('S {},{}'.format(a, L))
            out.append('S {},{},{}'.format(a, L, L))
            out.append('S {},{},{}:c'.format(a, L, L))
            out.append('S {},{},{}:h'.format(a, L, L))
            out.append('S {},{},b{}'.format(a, L, L))
            out.append('S {},{},h{}:b'.format(a, L, L))
            if L % 2 == 0:
                out.append('S {},{},{}'.format(a, L, L // 2))
                out.append('S {},{},d{}:m'.format(a, L, L // 2))
    elif kind == 'C':
        if fill in ('code', 'rst'):
            out.append('C {},{}'.format(a, L))
            if fill == 'code' and L % 2 == 0:
                out.append('C {},{},2'.format(a, L))
                for p in prefs:
                    if p == 'm' and not zero_free:
                        continue
                    out.append('C {},{}{}'.format(a, p, L))
                    out.append('C {},{},{}2'.format(a, L, p))
                out.append('C {},{},bh2'.format(a, L))
                out.append('C {},cn{}'.format(a, L))
                if L >= 4:
                    out.append('C {},{},b2,h2'.format(a, L))
                    out.append('C {},{},,d2'.format(a, L))
    return out


def _pattern_total(directive):
    """Sum of the explicit sublengths of a sub-block directive (0 if none)."""
    parts = directive.split(' ', 1)[1].split(',')[2:]
    total = 0
    for item in parts:
        if not item:
            return 0
        mult = 1
        if '*' in item:
            item, m = item.split('*')
            mult = int(m)
        size = 0
        for piece in item.split(':'):
            digits = piece.lstrip('bcdhmn')
            size += int(digits) if digits else 0
        total += size * mult
    return total


def well_formed(directive, L):
    """Sub-block boundaries fall on statement boundaries: when a sublength list is given,
    the sub-block holds a whole number of repetitions of it (otherwise the last statement
    is cut short by the end of the sub-block, which is not a statement boundary)."""
    total = _pattern_total(directive)
    return total == 0 or L % total == 0


_raw_sub_menu = sub_menu


def sub_menu(kind, a, L, fill):
    return [s for s in _raw_sub_menu(kind, a, L, fill) if well_formed(s, L)]


def layouts(fill, tier):
    """(ctl text, ignored ranges, description).  Complete for the stated bound."""
    end = W_ORG + 16
    # single block
    for t in BLOCKS:
        if t == 'c' and fill not in ('code', 'rst'):
            continue
        base = '{} {}\n'.format(t, W_ORG)
        tail = 'i {}\n'.format(end)
        ign = [(W_ORG, end)] if t == 'i' else []
        yield base + tail, ign, t
        if t == 'i':
            continue
        for sub in ('B', 'C', 'S', 'T', 'W'):
            for L, off in ((16, 0), (8, 0), (8, 8), (4, 6), (2, 14)):
                if fill == 'rst' and sub == 'C' and (L, off) != (16, 0):
                    continue
                for s in sub_menu(sub, W_ORG + off, L, fill):
                    if sub == 'C' and t != 'c' and fill not in ('code', 'rst'):
                        continue
                    yield base + s + '\n' + tail, ign, '{}+{}'.format(t, s)
        # M directive over two sub-blocks, and L (loop) directives
        yield base + 'M {},4 text\nB {},2\nB {},2\n'.format(W_ORG, W_ORG, W_ORG + 2) + tail, ign, t + '+M'
        yield base + 'M {} all of it\nB {},8,h2\nW {},8,2\n'.format(W_ORG, W_ORG, W_ORG + 8) + tail, ign, t + '+M2'
        for cnt, flag in ((2, ''), (4, ''), (2, ',1'), (3, ',0'), (8, '')):
            if 2 * cnt <= 16:
                yield base + 'B {},2,b1:h1\nL {},2,{}{}\n'.format(W_ORG, W_ORG, cnt, flag) + tail, ign, '{}+L{}{}'.format(t, cnt, flag)
    # two blocks
    splits = (2, 8, 14) if tier == 'quick' else (2, 4, 6, 8, 10, 12, 14)
    for t1, t2 in itertools.product(BLOCKS, repeat=2):
        if 'c' in (t1, t2) and fill not in ('code', 'rst'):
            continue
        if fill == 'rst' and (t1 == 'c' or t2 == 'c'):
            continue
        for sp in splits:
            mid = W_ORG + sp
            head = '{} {}\n'.format(t1, W_ORG)
            second = '{} {}\n'.format(t2, mid)
            if t1 == 'i':
                # skool2bin (like an assembler fed skool2asm's output) places entries one after
                # another unless an @org says otherwise, so a block that follows an ignored
                # block - a gap - carries an @org directive (part of a well-formed control file;
                # the property's quantifier lists b/c/g/s/t/u/w as the freely mixed types)
                second = '@ {} org\n'.format(mid) + second
            tail = 'i {}\n'.format(end)
            ign = []
            if t1 == 'i':
                ign.append((W_ORG, mid))
            if t2 == 'i':
                ign.append((mid, end))
            yield head + second + tail, ign, '{}{}@{}'.format(t1, t2, sp)
            # one sub-block in the first or in the second block
            for which, (a, L, t) in enumerate(((W_ORG, sp, t1), (mid, 16 - sp, t2))):
                if t == 'i':
                    continue
                for sub in ('B', 'C', 'S', 'T', 'W'):
                    if sub == 'C' and t != 'c':
                        continue
                    menu = sub_menu(sub, a, L, fill)
                    if tier == 'quick':
                        menu = menu[::3]
                    for s in menu:
                        if which == 0:
                            yield head + s + '\n' + second + tail, ign, '{}{}@{}+{}'.format(t1, t2, sp, s)
                        else:
                            yield head + second + s + '\n' + tail, ign, '{}{}@{}+{}'.format(t1, t2, sp, s)


OPTION_DEFAULTS = dict(DefbSize=8, DefmSize=65, DefwSize=1, Wrap=0, LineWidth=79, InstructionWidth=13, hex=0, lower=0, Opcodes='', rst=0)
OPTION_ALTS = dict(DefbSize=[1, 2, 3], DefmSize=[1, 2, 3], DefwSize=[2, 3], Wrap=[1], LineWidth=[40, 200], InstructionWidth=[5, 30], hex=[1], lower=[1],
                   Opcodes=['ALL'], rst=[1])


def opt_args(cfg):
    a = []
    for k in ('DefbSize', 'DefmSize', 'DefwSize', 'Wrap', 'LineWidth', 'InstructionWidth'):
        if cfg[k] != OPTION_DEFAULTS[k]:
            a += ['-I', '{}={}'.format(k, cfg[k])]
    if cfg['Opcodes']:
        a += ['-I', 'Opcodes=' + cfg['Opcodes']]
    if cfg['hex']:
        a.append('-H')
    if cfg['lower']:
        a.append('-l')
    if cfg['rst']:
        a.append('-r')
    return a


def part_b_case(fill, ctl, ign, cfg, d):
    data = FILLS[fill]
    binfile = os.path.join(d, 'b_' + fill + '.bin')
    if not os.path.exists(binfile):
        tools.write_file('b_' + fill + '.bin', data, d)
    res, problems, skool = run_pair(binfile, W_ORG, W_ORG + 16, ctl, opt_args(cfg), d, 'b')
    if res is None:
        return problems, False
    image, warn = res
    if 'overlap' in warn.lower() or 'WARNING' in warn:
        return [], True         # ill-formed by the property's definition (boundary not on a statement boundary)
    bad = compare(image, data, W_ORG, W_ORG + 16, ign)
    out = ['byte at {} is {} (original {})'.format(a, 'missing' if g is None else g, w) for a, w, g in bad[:4]] + problems[:2]
    return out, False


def part_b(stats, shard, nshards, tier):
    d = tools.workdir()
    cfgs = [c for _, c in core.deviations(OPTION_DEFAULTS, OPTION_ALTS, 1)]
    cfgs.append(dict(OPTION_DEFAULTS, hex=1, lower=1))         # -H -l together: lower-case hexadecimal digits a-f
    cases = []
    for fill in ('code', 'text', 'const', 'rst'):
        for ctl, ign, desc in layouts(fill, tier):
            simple = desc.count('+') == 0 or len(desc.split('@')[0]) == 1
            based = re.search(r'[,:][bcdhm]\d', ctl) is not None
            for ci, cfg in enumerate(cfgs):
                if ci and not simple and tier == 'quick':
                    # layouts with an explicit base prefix still meet the base/case options (and -H -l together)
                    if not (based and (cfg['hex'] or cfg['lower']) and all(cfg[k] == OPTION_DEFAULTS[k] for k in cfg if k not in ('hex', 'lower'))):
                        continue
                if cfg['rst'] and fill != 'rst':
                    continue
                if fill == 'rst' and not cfg['rst'] and ci:
                    continue
                cases.append((fill, ctl, ign, desc, ci))
    for i, (fill, ctl, ign, desc, ci) in core.shard_iter(cases, shard, nshards):
        cfg = cfgs[ci]
        out, illformed = part_b_case(fill, ctl, ign, cfg, d)
        stats.evaluations += 1
        stats.transitions += 2
        if illformed:
            stats.counters['B_illformed_not_judged'] += 1
            continue
        stats.counters['B_judged'] += 1
        stats.state(('B', fill, desc.split('+')[0].split('@')[0], re.sub(r'\d+', 'N', desc)[:40]))
        stats.nontriv(('B', fill, desc, ci))
        if out:
            dev = {k: v for k, v in cfg.items() if v != OPTION_DEFAULTS[k]}
            stats.violation('B/{}/{}/{}'.format(fill, desc, dev or '-'), {'part': 'B', 'fill': fill, 'ctl': ctl, 'ign': [list(x) for x in ign], 'cfg': cfg},
                            '; '.join(out[:3]) + ' | ctl: ' + ctl.replace('\n', ' / '), tags={'part': 'B', 'fill': fill, 'shape': desc.split('+')[0]},
                            order=10**6 + i)
        if i % 5000 == 0:
            stats.sample({'part': 'B', 'fill': fill, 'ctl': ctl.strip().split('\n'), 'options': {k: v for k, v in cfg.items() if v != OPTION_DEFAULTS[k]}})


# ------------------------------------------------------------------------------ part C
def part_c(stats, shard, nshards, tier):
    d = tools.workdir()
    slots = list(slot_codes())
    for si, code0 in core.shard_iter(slots, shard, nshards):
        code = code0 if code0[0] in (0xCB, 0xED, 0xDD, 0xFD) else (code0[0], 0x41, 0x5C, 0x22)
        ref = z80ref.decode(list(code) + [0] * 4, 0)
        if ref.op in ('jr', 'djnz'):
            code = (code0[0], 0xF0, 0, 0)       # a target inside 0..65535 (out-of-range targets are emitted as data, C02)
        for k in (1, 2, 3, 4):
            if k > ref.length:
                continue
            # a 64K image whose last k bytes are the start of the instruction and whose first bytes hold the rest
            start = 65536 - k
            mem = bytearray(65536)
            for i, b in enumerate(code[:ref.length]):
                mem[(start + i) & 0xFFFF] = b
            binfile = tools.write_file('c.bin', bytes(mem), d)
            for wrap in (0, 1):
                ctl = 'c {}\n'.format(start)
                args = ['-I', 'Wrap={}'.format(wrap), '-I', 'Opcodes=ALL']
                r = tools.run_tool('sna2skool', ['-o', '0', '-s', str(start), '-c', tools.write_file('c.ctl', ctl, d)] + args + [binfile])
                stats.evaluations += 1
                stats.transitions += 2
                stats.counters['C_cases'] += 1
                problems = []
                if r.rc:
                    problems.append('sna2skool failed: {}'.format(r.exc))
                else:
                    skool = tools.write_file('c.skool', r.out, d)
                    out = os.path.join(d, 'c.out.bin')
                    if os.path.exists(out):
                        os.unlink(out)
                    r2 = tools.run_tool('skool2bin', [skool, out])
                    m = re.search(r'start=(\d+), end=(\d+), size=(\d+)', r2.err)
                    if r2.rc or not m:
                        problems.append('skool2bin failed: {} {}'.format(r2.exc, r2.err[-200:]))
                    else:
                        s0 = int(m.group(1))
                        got = tools.read_file(out)
                        img = {(s0 + i): b for i, b in enumerate(got)}
                        for a in range(start, 65536):
                            if img.get(a) != mem[a]:
                                problems.append('byte at {} is {} (original {})'.format(a, img.get(a), mem[a]))
                        if wrap and k < ref.length and ref.undoc != 'ednop':
                            # with wrapping enabled the wrapped bytes are part of the instruction: they must be reproduced too
                            for a in range(65536, 65536 + ref.length - k):
                                if img.get(a) != mem[a & 0xFFFF] and img.get(a & 0xFFFF) != mem[a & 0xFFFF]:
                                    problems.append('wrapped byte at {} not reproduced (original {})'.format(a & 0xFFFF, mem[a & 0xFFFF]))
                if problems:
                    stats.violation('C/{}/k{}/wrap{}'.format(''.join('%02X' % b for b in code[:ref.length]), k, wrap),
                                    {'part': 'C', 'code': list(code), 'k': k, 'wrap': wrap}, '; '.join(problems[:3]),
                                    tags={'part': 'C', 'wrap': wrap, 'k': k}, order=2 * 10**6 + si)
        stats.nontriv(('C', code0[0], code0[1], code0[3]))


def part_d_cases():
    """Whole relative jumps next to the two ends of the address space: (opcode, address, displacement) with the
    target in -3..2 or 65533..65538 (inside, on and beyond the edge)."""
    for op in (0x18, 0x10, 0x28, 0x38):
        for a in range(65534, 65534 - 131, -1):
            for target in (65533, 65534, 65535, 65536, 65537, 65538):
                disp = target - a - 2
                if -128 <= disp <= 127:
                    yield op, a, disp & 0xFF
        for a in range(0, 130):
            for target in (-3, -2, -1, 0, 1, 2):
                disp = target - a - 2
                if -128 <= disp <= 127:
                    yield op, a, disp & 0xFF


def part_d_case(op, a, disp, hexa, d):
    binfile = tools.write_file('d.bin', bytes((op, disp)), d)
    ctl = 'c {}\ni {}\n'.format(a, a + 2) if a + 2 < 65536 else 'c {}\n'.format(a)
    res, problems, skool = run_pair(binfile, a, a + 2, ctl, ['-H'] if hexa else [], d, 'd')
    if res is None:
        return problems
    bad = compare(res[0], bytes((op, disp)), a, a + 2)
    return ['byte at {} is {} (original {})'.format(x, g, w) for x, w, g in bad] + problems[:2]


def part_d2_cases():
    """Two relative jumps with the same operation text (same mnemonic, same target) at different addresses in one file."""
    a = 32768
    for op in (0x18, 0x10, 0x20, 0x38):
        for k in (0, 1, 3, 100):
            for target in (a - 20, a, a + 2, a + 2 + k, a + 4 + k, a + 30 + k):
                d1 = target - (a + 2)
                d2 = target - (a + 2 + k + 2)
                if -128 <= d1 <= 127 and -128 <= d2 <= 127:
                    yield bytes((op, d1 & 0xFF) + (0x00,) * k + (op, d2 & 0xFF) + (0x00, 0xC9))


def part_d2_case(data, hexa, lower, d):
    a = 32768
    binfile = tools.write_file('d2.bin', data, d)
    ctl = 'c {}\ni {}\n'.format(a, a + len(data))
    res, problems, skool = run_pair(binfile, a, a + len(data), ctl, (['-H'] if hexa else []) + (['-l'] if lower else []), d, 'd2')
    if res is None:
        return problems
    bad = compare(res[0], data, a, a + len(data))
    return ['byte at {} is {} (original {})'.format(x, g, w) for x, w, g in bad[:4]] + problems[:2]


def part_d(stats, shard, nshards, tier):
    d = tools.workdir()
    for i, data in core.shard_iter(part_d2_cases(), shard, nshards):
        for hexa, lower in ((0, 0), (1, 0), (1, 1)):
            problems = part_d2_case(data, hexa, lower, d)
            stats.evaluations += 1
            stats.transitions += 2
            stats.counters['D_repeated_jump_text'] += 1
            if problems:
                stats.violation('D2/{}/hex{}lower{}'.format(data.hex(), hexa, lower), {'part': 'D2', 'data': list(data), 'hex': hexa, 'lower': lower},
                                '; '.join(problems[:3]), tags={'part': 'D2'}, order=3 * 10**6 + 500000 + i)
    for i, (op, a, disp) in core.shard_iter(part_d_cases(), shard, nshards):
        for hexa in (0, 1):
            problems = part_d_case(op, a, disp, hexa, d)
            stats.evaluations += 1
            stats.transitions += 2
            stats.counters['D_cases'] += 1
            if problems:
                stats.violation('D/{:02X}{:02X}@{}/hex{}'.format(op, disp, a, hexa), {'part': 'D', 'op': op, 'a': a, 'disp': disp, 'hex': hexa},
                                '; '.join(problems[:3]), tags={'part': 'D', 'op': op}, order=3 * 10**6 + i)
        stats.nontriv(('D', op, a, disp))


def _shard(shard, nshards, tier, seed):
    stats = core.Stats(PROPERTY)
    part_a(stats, shard, nshards, tier)
    part_b(stats, shard, nshards, tier)
    part_c(stats, shard, nshards, tier)
    part_d(stats, shard, nshards, tier)
    return stats


def run(tier, seed):
    stats = core.run_shards(_shard, tier, seed, prop=PROPERTY)
    stats.traces = stats.transitions // 2
    meta = dict(
        rule='A: an image of every opcode slot x operand bytes from {00,01,22,41,5C,7F,80,FF} (every combination) disassembled under each base letter '
             '(+ 36 two-letter pairs on the two-operand forms) x -H x -l x Opcodes settings; B: every control-file layout of <= 2 blocks over 8 block '
             'types x 3 (thorough 7) split points with <= 1 sub-block from a menu of B/C/S/T/W sublength patterns, M and L directives, on 4 fills, with '
             'sna2skool option deviations d <= 1 on the simple layouts; C: every slot cut by the 64K edge at k = 1..4 with Wrap 0/1; D: whole relative jumps (JR, DJNZ, JR Z, JR C) at every address within 130 bytes of either end of memory with targets inside, on and beyond the edge, decimal and hex; pairs of relative jumps with the same operation text at different addresses of one file. evaluations = '
             'instructions (A) / layouts (B) / edge cases (C); states = distinct layout shapes; layouts that make sna2skool warn (ill-formed) are counted, not judged',
        exhaustive=True,
        bound='<= 2 blocks, <= 1 sub-block, option deviations d <= 1',
        assumptions=["base 'm' is applied only to non-zero operands and not to RST / IN A,(n) / OUT (n),A (as in C02)",
                     'sub-block boundaries are generated on statement boundaries (2-byte instruction fill; even W lengths; S on constant runs)'],
        required_guards=['A_runs', 'B_judged', 'C_cases', 'D_cases'],
    )
    return stats, meta


def replay(case):
    d = tools.workdir()
    if case['part'] == 'B':
        out, ill = part_b_case(case['fill'], case['ctl'], [tuple(x) for x in case['ign']], case['cfg'], d)
        return out
    st = core.Stats()
    if case['part'] == 'A':
        for_m = 'm' in case['base']
        data, bounds = build_image(True, for_m, case['kind'] == 'two')
        binfile = tools.write_file('ra.bin', data, d)
        end = ORG + len(data)
        ctl = 'c {}\nC {},{}{}\ni {}\n'.format(ORG, ORG, case['base'] if case['base'] != 'n' else '', len(data), end)
        opts = (['-H'] if case['hex'] else []) + (['-l'] if case['lower'] else []) + (['-I', 'Opcodes=' + case['opcodes']] if case['opcodes'] else [])
        res, problems, skool = run_pair(binfile, ORG, end, ctl, opts, d, 'ra')
        if res is None:
            return problems
        bad = compare(res[0], data, ORG, end)
        return ['byte at {} is {} (original {})'.format(a, g, w) for a, w, g in bad[:5]] + problems[:3]
    if case['part'] == 'D2':
        return part_d2_case(bytes(case['data']), case['hex'], case['lower'], d)
    if case['part'] == 'D':
        return part_d_case(case['op'], case['a'], case['disp'], case['hex'], d)
    return ['replay of part C cases: run ./check C01 (cheap)']
