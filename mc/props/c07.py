"""C07 - all instruction tables agree on length, mnemonic and timing of every opcode.

Space (finite, enumerated completely): the 1792 opcode table slots x 2 operand-byte
fillings x 5 addresses (mid-memory, 0, and the last three addresses of the 64K space)
x every additional-opcode setting x wrap on/off.
Oracle: the algorithmic reference decoder (mc/refs/z80ref.py) against
Disassembler.disassemble, traceutils.disassemble, opcodes.decode, z80.get_timing and one
step of each of the four simulators (PC and T deltas under both outcomes of every
condition / repeat test).
"""
import itertools

from .. import core, simh, stepcmp
from ..refs import z80ref

PROPERTY = 'C07'
NEEDS_C = True

OPCODE_SETS = ('', 'ALL', 'ED63', 'ED6B', 'ED70', 'ED71', 'IM', 'NEG', 'RETN', 'XYCB')
ALL_TAGS = {'ED63', 'ED6B', 'ED70', 'ED71', 'IM', 'NEG', 'RETN', 'xycb'}
OPERANDS = ((0x12, 0x34), (0x85, 0xFE))
ADDRESSES = (0x8000, 0, 65533, 65534, 65535)


def slots():
    """The full slot set: (kind, bytes) with bytes always 4 long."""
    for n1, n2 in OPERANDS:
        for b in range(256):
            if b not in (0xCB, 0xED, 0xDD, 0xFD):
                yield (b, n1, n2, 0x56)
        for p in (0xCB, 0xED):
            for b in range(256):
                yield (p, b, n1, n2)
        for p in (0xDD, 0xFD):
            for b in range(256):
                if b != 0xCB:
                    yield (p, b, n1, n2)
            for b in range(256):
                yield (p, 0xCB, n1, b)


def enabled_tags(setting):
    if setting == 'ALL':
        return ALL_TAGS
    if setting == 'XYCB':
        return {'xycb'}
    return {setting} if setting else set()


def expected_disassembly(ref, code, tags, addr=0x8000):
    """(text, length) the skool disassembler must give for the reference decode `ref`
    when the additional-opcode families in `tags` are enabled.  Documented data
    fall-backs: a relative jump whose target lies outside 0..65535 cannot be written as
    an operand, so it is emitted as a 2-byte DEFB; undocumented sequences that are not
    enabled are emitted as DEFB statements covering the whole sequence."""
    u = ref.undoc
    if ref.op in ('jr', 'djnz'):
        off = code[1] - 256 if code[1] > 127 else code[1]
        if not 0 <= addr + 2 + off < 65536:
            return 'DEFB {},{}'.format(code[0], code[1]), 2
    if u in ('', 'xyhl', 'sll') or u in tags:
        return ref.text, ref.length
    if u == 'prefix':
        return 'DEFB {}'.format(code[0]), 1
    if u in ('xycb', 'ED63', 'ED6B'):
        return 'DEFB ' + ','.join(str(b) for b in code[:4]), 4
    # undocumented ED forms not enabled: two-byte data
    return 'DEFB {},{}'.format(code[0], code[1]), 2


class Cfg:
    def __init__(self, opcodes, wrap, imaker):
        self.asm_hex = False
        self.asm_lower = False
        self.defb_size = 8
        self.defm_size = 66
        self.defw_size = 1
        self.handle_rst = False
        self.imaker = imaker
        self.opcodes = opcodes
        self.wrap = wrap


class Ins:
    def __init__(self, address, operation, data):
        self.address = address
        self.operation = operation
        self.bytes = data
        self.variant = 0


VARIANTS = [dict(F=0x00, B=2, C=2), dict(F=0xFF, B=2, C=2), dict(F=0x00, B=1, C=0), dict(F=0xFF, B=0, C=1),
            dict(F=0x00, B=0, C=1, A=1), dict(F=0x00, B=1, C=1, A=1), dict(F=0x00, B=0, C=1, A=0x0B)]


def _state(addr, v):
    return z80ref.State(PC=addr, SP=0x9000, H=0xA0, L=0x00, D=0xA8, E=0x10, IXh=0xB0, IXl=1, IYh=0xB8, IYl=2,
                        I=0x3F, R=1, T=1000, IFF=0, IM=1, **v)


class Checker:
    def __init__(self):
        from skoolkit.disassembler import Disassembler
        from skoolkit import traceutils, opcodes, z80
        self.Disassembler = Disassembler
        self.traceutils = traceutils
        self.opcodes = opcodes
        self.z80 = z80
        self.eng = stepcmp.Engine()
        self.snapshot = list(self.eng.base)
        self.dis = {}
        for s in OPCODE_SETS:
            for wrap in (0, 1):
                self.dis[s, wrap] = Disassembler(self.snapshot, Cfg(s, wrap, Ins))

    def check(self, code, addr, stats=None, operands_only=False):
        """Returns list of (table, detail)."""
        out = []
        snap = self.snapshot
        saved = []
        for i, v in enumerate(code):
            a = (addr + i) & 0xFFFF
            saved.append((a, snap[a]))
            snap[a] = v
        self.eng.poke(addr, code)
        try:
            ref = z80ref.decode(snap, addr)
            crosses = addr + ref.length > 65536
            hexb = ''.join('%02X' % b for b in code)
            if stats is not None:
                stats.state(('decode', ref.text if ref.length < 2 else ref.text.split(' ')[0], ref.length, ref.undoc))
            # --- simulators against the reference: PC and T deltas, both outcomes
            sim_t = set()
            for v in (() if operands_only else VARIANTS):
                st = _state(addr, v)
                exp, res, diffs = self.eng.compare(st)
                sim_t.update(self.eng.last_T.values())
                for dline in diffs:
                    out.append(('simulator', '{} {}: {}'.format(ref.text, v, dline)))
                if stats is not None:
                    stats.transitions += len(self.eng.kinds)
                self.eng.restore()
                self.eng.poke(addr, code)
            # --- trace-log disassembler
            try:
                t_text, t_size = self.traceutils.disassemble(snap, addr, '', 'd', 'd')
            except Exception as e:
                out.append(('traceutils.disassemble', 'raised {!r}'.format(e)))
            else:
                if ref.undoc in ('prefix', 'ednop'):
                    want = 'DEFB ' + ','.join(str(b) for b in code[:ref.length])
                else:
                    want = ref.text
                if t_size != ref.length:
                    out.append(('traceutils.disassemble', 'size {} expected {} for {}'.format(t_size, ref.length, ref.text)))
                if t_text != want:
                    out.append(('traceutils.disassemble', 'text {!r} expected {!r}'.format(t_text, want)))
            # --- skool disassembler under every opcode setting
            for (setting, wrap), d in self.dis.items():
                try:
                    ins = d.disassemble(addr, addr + 1, 'n')[0]
                except Exception as e:
                    out.append(('Disassembler', 'Opcodes={} wrap={} raised {!r}'.format(setting, wrap, e)))
                    continue
                e_text, e_len = expected_disassembly(ref, code, enabled_tags(setting), addr)
                if addr + e_len > 65536 and not wrap:
                    e_len = 65536 - addr
                    e_text = 'DEFB ' + ','.join(str(b) for b in code[:e_len])
                elif e_text.startswith('DEFB') and addr + e_len > 65536:
                    # data statements never wrap
                    e_len = 65536 - addr
                    e_text = 'DEFB ' + ','.join(str(b) for b in code[:e_len])
                if len(ins.bytes) != e_len or list(ins.bytes) != list(code[:e_len]):
                    out.append(('Disassembler', 'Opcodes={} wrap={}: bytes {} expected {} ({})'.format(
                        setting, wrap, list(ins.bytes), list(code[:e_len]), e_text)))
                elif ins.operation != e_text:
                    out.append(('Disassembler', 'Opcodes={} wrap={}: {!r} expected {!r}'.format(
                        setting, wrap, ins.operation, e_text)))
                # --- static timing table, for everything the disassembler emits as an instruction
                if not operands_only and not ins.operation.startswith('DEF') and not (addr + e_len > 65536):
                    try:
                        timing = self.z80.get_timing(ins)
                    except Exception as e:
                        out.append(('z80.get_timing', 'Opcodes={}: raised {!r} for {!r}'.format(setting, e, ins.operation)))
                    else:
                        tset = {timing} if isinstance(timing, int) else set(timing or ())
                        if tset != sim_t:
                            out.append(('z80.get_timing', '{!r}: table {} but simulators take {}'.format(
                                ins.operation, sorted(tset), sorted(sim_t))))
            # --- control-file generator's decoder
            if addr + 1 <= 65536:
                try:
                    dec = next(self.opcodes.decode(snap, addr, addr + 1))
                    size = dec[1]
                except Exception as e:
                    out.append(('opcodes.decode', 'raised {!r}'.format(e)))
                else:
                    # the ctl decoder has no additional-opcode setting: it must size every
                    # sequence as the default skool disassembler does
                    e_text, e_len = expected_disassembly(ref, code, set(), addr)
                    if addr + e_len > 65536:
                        e_len = 65536 - addr
                    if size != e_len:
                        out.append(('opcodes.decode', 'size {} expected {} ({!r} / {!r})'.format(size, e_len, dec[4], e_text)))
            if stats is not None:
                stats.counters['len%d' % ref.length] += 1
                if ref.undoc:
                    stats.counters['undoc_' + ref.undoc] += 1
                if crosses:
                    stats.counters['crosses_64k'] += 1
        finally:
            for a, v in saved:
                snap[a] = v
            self.eng.restore()
        return [(t, d, hexb) for t, d in out]

def _shard(shard, nshards, tier):
    stats = core.Stats(PROPERTY)
    chk = Checker()
    cases = itertools.product(slots(), ADDRESSES)
    for i, (code, addr) in core.shard_iter(cases, shard, nshards):
        res = chk.check(code, addr, stats)
        stats.evaluations += 1
        if code[0] in (0xCB, 0xED, 0xDD, 0xFD) or addr > 65000:
            stats.nontriv((code, addr))
        for table, detail, hexb in res:
            stats.violation('{}@{}:{}'.format(hexb, addr, table), {'code': list(code), 'addr': addr},
                            '{}: {}'.format(table, detail),
                            tags={'table': table, 'b0': code[0], 'b1': code[1], 'b3': code[3], 'addr': addr}, order=i)
        if i % 997 == 0:
            stats.sample({'bytes': '%02X%02X%02X%02X' % code, 'address': addr})
    # operand sweep: for every slot that has a byte operand, displacement or jump offset, ALL 256 values of
    # that byte (mnemonic and operands of the two disassemblers must agree for every operand value)
    seen = set()
    sweep = []
    for code in slots():
        key = (code[0], code[1] if code[0] in (0xCB, 0xED, 0xDD, 0xFD) else None, code[3] if code[1] == 0xCB and code[0] in (0xDD, 0xFD) else None)
        if key in seen:
            continue
        seen.add(key)
        ref = z80ref.decode(list(code) + [0] * 4, 0)
        if ref.length >= 2 and not (ref.length == 2 and code[0] in (0xCB, 0xED) or ref.undoc in ('prefix', 'ednop')):
            first = 2 if code[0] in (0xED, 0xDD, 0xFD) else 1
            for pos in range(first, ref.length):
                if code[0] in (0xDD, 0xFD) and code[1] == 0xCB and pos == 3:
                    continue
                sweep.append((code, pos))
    for j, (code, pos) in core.shard_iter(sweep, shard, nshards):
        for v in range(256):
            c = list(code)
            c[pos] = v
            res = chk.check(tuple(c), 0x8000, None, operands_only=True)
            stats.evaluations += 1
            stats.counters['operand_sweep'] += 1
            for table, detail, hexb in res:
                stats.violation('{}@32768:{}'.format(hexb, table), {'code': c, 'addr': 0x8000, 'operands_only': True}, '{}: {}'.format(table, detail),
                                tags={'table': table, 'b0': c[0], 'b1': c[1], 'b3': c[3], 'addr': 0x8000, 'sweep': True}, order=10**6 + j * 256 + v)
    return stats


def run(tier, seed):
    stats = core.run_shards(_shard, tier, prop=PROPERTY)
    stats.traces = stats.evaluations
    meta = dict(
        rule='complete product: 1792 opcode table slots x 2 operand fillings x addresses {32768,0,65533,65534,65535}; each case '
             'checked against Disassembler (10 additional-opcode settings x wrap 0/1), traceutils.disassemble, opcodes.decode, '
             'z80.get_timing and one step of all 4 simulators under 7 register variants (both outcomes of every condition/repeat '
             'test); plus, for every slot with operand bytes, all 256 values of each operand byte through the three decoders. states = distinct (mnemonic, length, undocumented-family) decode classes; non-trivial = prefixed or next to '
             'the 64K boundary',
        exhaustive=True,
        bound='full slot set (finite space), identical in quick and thorough tiers',
        assumptions=['reference decoder mc/refs/z80ref.py (algorithmic, from the Zilog manual) is the oracle for length, '
                     'mnemonic and machine-cycle timing', 'operand bytes limited to two fillings per slot (C02 sweeps operands)'],
        required_guards=['len1', 'len2', 'len3', 'len4', 'undoc_prefix', 'undoc_xycb', 'undoc_ednop', 'crosses_64k', 'operand_sweep'],
    )
    return stats, meta


def replay(case):
    chk = Checker()
    return ['{}: {}'.format(t, d) for t, d, _ in chk.check(tuple(case['code']), case['addr'], None, case.get('operands_only', False))]
