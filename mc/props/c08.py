"""C08 - simulated code cannot corrupt ROM, break register ranges or mis-page 128K RAM.

Part A (inductive step over a state alphabet): from states in which every pointer
(BC, DE, HL, IX, IY, SP, (nn) operand) is aimed at the ROM/RAM edge (0x3FFE, 0x3FFF,
0x4000) or the 64K edge (0xFFFF, 0x0000, 0x0001), *every* opcode slot - and interrupt
acceptance in IM 1 and IM 2 - is executed on each of the four simulators on 48K
memory and on 128K memory with either ROM paged; afterwards the monitors check that no
ROM byte changed, every register is in its range, every touched cell is 0..255 (plus a
whole-memory scan per slot) and the clock did not go backwards.  Invariants that hold
initially and are preserved by every single instruction from every state of the
alphabet hold for whole programs.

Part B (model + conformance): models/Paging128.tla - the 0x7FFD latch - is explored by
TLC (invariants: lock is sticky, undecoded writes ignored, an accepted value determines
the mapping); the labelled state graph is dumped and EVERY edge is replayed on every
paging implementation in the code base (pagingtracer.PagingTracer via write_port and
via write_port_with_border_list with pagingtracer.Memory under Simulator, CMIOSimulator,
CSimulator, CCMIOSimulator; the C simulators' internal paging without a tracer;
skoolmacro.PagingTracer and AudioTracer128 with skoolutils.Memory), reaching each
source state three ways (constructed, one OUT, two OUTs), driving real OUT instructions
and observing the mapping through simulated stores of a marker into every 16K region.

Part C (direct, exhaustive): all 256 x 256 two-write histories (first write to 0x7FFD,
second to each of 0x7FFD / 0x7FFF (A1=1) / 0xFFFD (A15=1) / 0x3FFD) on every binding,
with marker stores after each write; thorough adds all three-write histories over the
64 classes of relevant bits.
"""
import itertools
import os
import re
import shutil
import subprocess
import tempfile

from .. import core, simh, skbuild
from .c07 import slots as c07_slots

PROPERTY = 'C08'
NEEDS_C = True

EDGE = (0x3FFE, 0x3FFF, 0x4000, 0xFFFF, 0x0000, 0x0001)
NN_FILLS = ((0xFE, 0x3F), (0xFF, 0x3F), (0x00, 0x40), (0xFF, 0xFF), (0x00, 0x00))
RANGES = {i: 255 for i in list(range(0, 12)) + [14, 15] + list(range(16, 24))}
RANGES.update({12: 65535, 24: 65535, 29: 65535, 26: 1, 27: 2, 28: 1})
RNAMES = {v: k for k, v in simh.RIDX.items()}
RNAMES[29] = 'MEMPTR'
RNAMES[13] = 'r13'


def fill(a):
    return (a * 37 + 11) & 0xFF


# ------------------------------------------------------------------------------ part A
class MonRig:
    def __init__(self, kind, machine):
        from skoolkit.pagingtracer import Memory
        self.kind = kind
        self.machine = machine
        self.is_c = kind in ('c', 'ccmio')
        if machine == '48K':
            self.base = [fill(a) for a in range(65536)]
            self.sim = simh.sim_class(kind)(list(self.base), None, None, {})
            self.mem = self.sim.memory
            self.rom_pristine = [bytes(self.base[:0x4000])]
        else:
            banks = tuple([(fill(a) + 16 * b + 1) & 0xFF for a in range(16384)] for b in range(8))
            o7ffd = 0x10 if machine == '128K-rom1' else 0
            m = Memory(banks=banks, out7ffd=o7ffd)
            if self.is_c:
                m.convert()
            self.sim = simh.sim_class(kind)(m, None, None, {'frame_duration': 70908, 'int_active': 36})
            self.mem = self.sim.memory
            self.rom_pristine = [bytes(r) for r in self.mem.roms]
            self.base = [self.mem[a] for a in range(65536)]
        self.touched = set()

    def poke(self, addr, values):
        for i, v in enumerate(values):
            a = (addr + i) & 0xFFFF
            self.mem[a] = v
            self.touched.add(a)

    def restore(self):
        for a in self.touched:
            self.mem[a] = self.base[a]
        self.touched.clear()

    def rom_ok(self):
        if self.machine == '48K':
            return bytes(self.mem[0:0x4000]) == self.rom_pristine[0] if self.is_c else self.mem[0:0x4000] == self.base[0:0x4000]
        return all(bytes(r) == p for r, p in zip(self.mem.roms, self.rom_pristine))

    def visible_ok(self):
        """Whole visible memory equals base (after restore) - detects stray stores."""
        if self.machine == '48K':
            return (bytes(self.mem) == bytes(self.base)) if self.is_c else (self.mem == self.base)
        return all(self.mem[a] == self.base[a] for a in range(0, 65536, 1)) if False else \
            [self.mem.memory[i] for i in range(4)] is not None and all(
                list(self.mem.memory[i]) == self.base[i * 0x4000:(i + 1) * 0x4000] for i in range(4))

    def cells_ok(self):
        if self.machine == '48K':
            if self.is_c:
                return True
            return max(self.mem) <= 255 and min(self.mem) >= 0
        for reg in list(self.mem.banks) + list(self.mem.roms):
            if isinstance(reg, list) and (max(reg) > 255 or min(reg) < 0):
                return False
        return True


def monitor(rig, t_before, stores_near):
    out = []
    r = rig.sim.registers
    for i, hi in RANGES.items():
        v = int(r[i])
        if not 0 <= v <= hi:
            out.append('{} = {} out of range 0..{}'.format(RNAMES.get(i, i), v, hi))
    if int(r[25]) < t_before:
        out.append('T-state clock went backwards: {} -> {}'.format(t_before, int(r[25])))
    if not rig.rom_ok():
        if rig.machine == '48K':
            bad = [a for a in range(0x4000) if rig.mem[a] != rig.base[a]][:4]
        else:
            bad = [(i, a) for i, (rr, p) in enumerate(zip(rig.mem.roms, rig.rom_pristine)) for a in range(0x4000) if rr[a] != p[a]][:4]
        out.append('ROM modified at {}'.format(bad))
        if rig.machine == '48K':
            for a in bad:
                rig.mem[a] = rig.base[a]
        else:
            for i, a in bad:
                rig.mem.roms[i][a] = rig.rom_pristine[i][a]
    for a in stores_near:
        v = rig.mem[a]
        if not 0 <= v <= 255:
            out.append('memory[{}] = {} out of range'.format(a, v))
    return out


def part_a_case(rig, code, ptr, spv, F, with_int=None, pc=0x8000):
    """One inductive step.  Returns list of monitor failures."""
    sim = rig.sim
    r = sim.registers
    for i in range(30):
        r[i] = 0
    hi, lo = ptr >> 8, ptr & 0xFF
    for i in (2, 4, 6, 8, 10):
        r[i] = hi
        r[i + 1] = lo
    r[0] = 0xA5
    r[1] = F
    r[12] = spv
    r[14] = 0x3F
    r[15] = 0x7F
    r[24] = pc
    r[25] = 1000
    r[26] = 1
    r[27] = 1
    # the IM 2 vector (I = 0x3F -> 0x3FFF/0x4000) exercises the vector read across the edge
    near = set()
    if pc > 0xFFF0:
        # the operand bytes actually fetched wrap into the ROM
        code = tuple(code[:0x10000 - pc]) + tuple(rig.mem[a] for a in range(len(code) - (0x10000 - pc)))
    for p in (ptr, spv, (code[1] + 256 * code[2]) if len(code) > 2 else 0, (code[2] + 256 * code[3]) if len(code) > 3 else 0):
        for d in range(-3, 4):
            near.add((p + d) & 0xFFFF)
    for d in (-128, 127, 5, 0x85 - 256, 0xFE - 256, -2, -1) + tuple(b - 256 if b > 127 else b for b in code[1:4]):
        near.add((ptr + d) & 0xFFFF)
    rig.touched.update(a for a in near if a >= 0x4000)
    rig.poke(pc, code[:0x10000 - pc] if pc > 0xFFF0 else code)      # the bytes beyond 0xFFFF are whatever the ROM holds
    t0 = 1000
    if with_int is not None:
        r[27] = with_int
        r[24] = (pc + 1) & 0xFFFF
        sim.accept_interrupt(r, sim.memory, pc)
    else:
        sim.run(pc)
    out = monitor(rig, t0, near)
    rig.restore()
    return out


def slot_codes():
    seen = set()
    for code in c07_slots():
        key = (code[0], code[1] if code[0] in (0xCB, 0xED, 0xDD, 0xFD) else None,
               code[3] if code[1] == 0xCB and code[0] in (0xDD, 0xFD) else None)
        if key not in seen:
            seen.add(key)
            yield code


def part_a(stats, shard, nshards, tier):
    quick = tier == 'quick'
    machines = ('48K', '128K-rom0', '128K-rom1')
    slots = list(slot_codes())
    order = 0
    for machine in machines:
        for kind in simh.KINDS:
            rig = MonRig(kind, machine)
            for si, code0 in core.shard_iter(slots, shard, nshards):
                ddcb = code0[0] in (0xDD, 0xFD) and code0[1] == 0xCB
                prefixed = code0[0] in (0xCB, 0xED, 0xDD, 0xFD)
                takes_nn = not ddcb
                for n1, n2 in (NN_FILLS if takes_nn else ((0x00, 0x00), (0x01, 0x00), (0xFF, 0x00), (0x80, 0x00), (0x7F, 0x00))):
                    if ddcb:
                        code = (code0[0], 0xCB, n1, code0[3])
                    elif prefixed:
                        code = (code0[0], code0[1], n1, n2)
                    else:
                        code = (code0[0], n1, n2, 0x56)
                    ptrs = EDGE
                    if code0[0] == 0xED and code0[1] in (0xA2, 0xA3, 0xAA, 0xAB, 0xB2, 0xB3, 0xBA, 0xBB):
                        # block I/O: B = 0 with C = 0xFF and B = 1 with C = 0 (the port address and MEMPTR = port +/- 1 wrap)
                        ptrs = EDGE + (0x00FF, 0x0100)
                    for ptr in ptrs:
                        for spv in ((ptr,) if quick else EDGE):
                            for F in (0x00, 0xFF):
                                d = part_a_case(rig, code, ptr, spv, F)
                                stats.evaluations += 1
                                stats.transitions += 1
                                order += 1
                                if d:
                                    cid = 'A/{}/{}/{}/ptr{:04X}/sp{:04X}/F{:02X}'.format(machine, kind, ''.join('%02X' % b for b in code), ptr, spv, F)
                                    stats.violation(cid, {'part': 'A', 'machine': machine, 'kind': kind, 'code': list(code), 'ptr': ptr, 'sp': spv, 'F': F},
                                                    '; '.join(d[:3]), tags={'part': 'A', 'machine': machine, 'kind': kind, 'b0': code[0], 'b1': code[1]}, order=order)
                # the instruction itself placed across the 64K edge (return addresses, PC+n, operand fetches wrap), with
                # the stack in RAM just below the edge and at the ROM/RAM edge
                for n1, n2 in (NN_FILLS[1], NN_FILLS[3]) if takes_nn else ((0x01, 0x00), (0x80, 0x00)):
                    if ddcb:
                        code = (code0[0], 0xCB, n1, code0[3])
                    elif prefixed:
                        code = (code0[0], code0[1], n1, n2)
                    else:
                        code = (code0[0], n1, n2, 0x56)
                    for pc in (0xFFFD, 0xFFFE, 0xFFFF):
                        for ptr in (0xFFFC, 0x4001):
                            for F in (0x00, 0xFF):
                                d = part_a_case(rig, code, ptr, ptr, F, pc=pc)
                                stats.evaluations += 1
                                stats.transitions += 1
                                stats.counters['A_pc_at_64K_edge'] += 1
                                order += 1
                                if d:
                                    cid = 'A/{}/{}/{}/pc{:04X}/ptr{:04X}/F{:02X}'.format(machine, kind, ''.join('%02X' % b for b in code), pc, ptr, F)
                                    stats.violation(cid, {'part': 'A', 'machine': machine, 'kind': kind, 'code': list(code), 'ptr': ptr, 'sp': ptr, 'F': F, 'pc': pc},
                                                    '; '.join(d[:3]), tags={'part': 'A', 'machine': machine, 'kind': kind, 'b0': code[0], 'b1': code[1], 'pc': pc}, order=order)
                # whole-memory scan after this slot: nothing outside the touched cells changed, all cells in range
                if not rig.cells_ok():
                    stats.violation('A/{}/{}/{}/cells'.format(machine, kind, ''.join('%02X' % b for b in code0)),
                                    {'part': 'A', 'machine': machine, 'kind': kind, 'code': list(code0), 'ptr': 0x3FFF, 'sp': 0x3FFF, 'F': 0},
                                    'a memory cell left the range 0..255', tags={'part': 'A', 'kind': kind}, order=order)
                if si % 64 == 0 and not rig.visible_ok():
                    stats.violation('A/{}/{}/{}/stray'.format(machine, kind, ''.join('%02X' % b for b in code0)),
                                    {'part': 'A', 'machine': machine, 'kind': kind, 'code': list(code0), 'ptr': 0x3FFF, 'sp': 0x3FFF, 'F': 0},
                                    'memory outside the cells near the pointers was modified', tags={'part': 'A', 'kind': kind}, order=order)
                    rig = MonRig(kind, machine)
                stats.nontriv(('A', machine, kind, code0[0], code0[1], code0[3]))
            # interrupt acceptance with the stack at the edges
            if shard == 0:
                for im in (0, 1, 2):
                    for spv in EDGE + (0x4001, 0x0002):
                        d = part_a_case(rig, (0x00, 0, 0, 0), 0x3FFF, spv, 0, with_int=im)
                        stats.evaluations += 1
                        stats.transitions += 1
                        stats.counters['A_interrupts'] += 1
                        if d:
                            stats.violation('A/{}/{}/INT/im{}/sp{:04X}'.format(machine, kind, im, spv),
                                            {'part': 'A', 'machine': machine, 'kind': kind, 'code': [0, 0, 0, 0], 'ptr': 0x3FFF, 'sp': spv, 'F': 0, 'int': im},
                                            '; '.join(d[:3]), tags={'part': 'A', 'kind': kind, 'int': im}, order=order)
            stats.state(('A', machine, kind))
    stats.counters['A_cases'] = stats.evaluations


# ------------------------------------------------------------------------------ paging bindings
PORTS = {'7FFD': 0x7FFD, '7FFF': 0x7FFF, 'FFFD': 0xFFFD, '3FFD': 0x3FFD, '00FD': 0x00FD, '7FFC': 0x7FFC}
DECODED = {'7FFD': True, '7FFF': False, 'FFFD': False, '3FFD': True, '00FD': True, '7FFC': True}

BINDINGS = ('py+PagingTracer', 'pycmio+PagingTracer', 'c+PagingTracer', 'ccmio+PagingTracer', 'py+PagingTracer(border list)',
            'c (internal paging, no tracer)', 'ccmio (internal paging, no tracer)', 'py+skoolmacro.PagingTracer', 'c+skoolmacro.PagingTracer',
            'py+skoolmacro.AudioTracer128', 'py+rzxplay.RZXTracer', 'c+rzxplay.RZXTracer')


def model_next(state, decoded, v):
    """The documented latch (mirrors models/Paging128.tla; used for part C and to
    cross-check the parsed TLC graph)."""
    bank, rom, lock = state
    if decoded and not lock:
        return (v & 7, (v >> 4) & 1, bool(v & 0x20))
    return state


_rom_cache = {}


def _memoise_rom_reads():
    """ROM images are read from disk by every Memory() constructor call; cache the file
    reads (harness-side, same bytes) so that building a fresh rig per history is cheap."""
    from skoolkit import pagingtracer, skoolutils
    for mod in (pagingtracer, skoolutils):
        orig = getattr(mod, 'read_bin_file')
        if getattr(orig, '_verif_cached', False):
            continue

        def cached(fname, size=None, _orig=orig):
            key = (fname, size)
            if key not in _rom_cache:
                _rom_cache[key] = _orig(fname) if size is None else _orig(fname, size)
            return _rom_cache[key]
        cached._verif_cached = True
        mod.read_bin_file = cached


class PageRig:
    """A real simulator + memory + tracer combination, driven only by simulated code."""
    PROG = 0x8000

    def __init__(self, binding, o7ffd=0):
        from skoolkit import pagingtracer, skoolutils, skoolmacro, trace
        _memoise_rom_reads()
        self.binding = binding
        kind = binding.split('+')[0].split(' ')[0]
        self.kind = kind
        self.is_c = kind in ('c', 'ccmio')
        banks = [[(16 * b + 1) & 0xFF] * 0x4000 for b in range(8)]
        cfg = {'frame_duration': 70908, 'int_active': 36}
        if 'skoolmacro' in binding:
            mem = skoolutils.Memory(banks=banks, o7ffd=0)
            mem.out7ffd(o7ffd)
            self.mem = mem
            if self.is_c:
                mem.convert()
            self.sim = simh.sim_class(kind)(mem, None, None, cfg)
            cls = skoolmacro.AudioTracer128 if 'Audio' in binding else skoolmacro.PagingTracer
            self.tracer = cls(self.sim.memory, o7ffd, 0, [0] * 16)
            self.sim.set_tracer(self.tracer)
        else:
            mem = pagingtracer.Memory(banks=tuple(banks), out7ffd=o7ffd)
            self.mem = mem
            if self.is_c:
                mem.convert()
            self.sim = simh.sim_class(kind)(mem, None, None, cfg)
            self.tracer = None
            if 'RZXTracer' in binding:
                import types
                from skoolkit import rzxplay
                snap = types.SimpleNamespace(border=0, out7ffd=o7ffd, outfffd=0, ay=[0] * 16, outfe=0)
                context = types.SimpleNamespace(simulator=self.sim, snapshot=snap, frame_count=0)
                self.tracer = rzxplay.RZXTracer(context, rzxplay.InputRecording(0, [], b''))
                self.sim.set_tracer(self.tracer)
            elif 'no tracer' not in binding:
                if 'border list' in binding:
                    self.tracer = trace.Tracer(self.sim, 0, o7ffd, 0, [0] * 16, 0, True)
                else:
                    self.tracer = trace.Tracer(self.sim, 0, o7ffd, 0, [0] * 16, 0, False)
                self.sim.set_tracer(self.tracer)
        self.mem = self.sim.memory
        self.rom_pristine = [bytes(r) for r in self.mem.roms]
        # the driver program lives in bank 2 (0x8000), which never moves
        self.n_out = 0

    def out(self, port, value, method='out_c'):
        """Write `value` to `port` with a real instruction executed from 0x8000:
        out_c: LD A,value ; LD BC,port ; OUT (C),A
        outi / outd / otir: (0x8200) = value ; LD HL,0x8200 ; LD BC,port+0x100 ; OUTI / OUTD / OTIR
        (block OUTs put BC on the bus *after* decrementing B, so B is one more than the
        port's high byte on entry - 0x80 for port 0x7FFD, 0x00 for port 0xFFFD)."""
        m = self.mem
        if method == 'out_c':
            prog = (0x3E, value, 0x01, port & 0xFF, port >> 8, 0xED, 0x79)
        else:
            m[0x8200] = value
            op = {'outi': 0xA3, 'outd': 0xAB, 'otir': 0xB3}[method]
            prog = (0x21, 0x00, 0x82, 0x01, port & 0xFF, ((port >> 8) + 1) & 0xFF, 0xED, op)
        for i, b in enumerate(prog):
            m[self.PROG + i] = b
        self.sim.registers[25] = 1000
        self.sim.run(self.PROG, self.PROG + len(prog))
        self.n_out += 1

    def out_n(self, port, value):
        """Execute LD A,hi ; OUT (lo),A - only usable when value == port high byte."""
        raise NotImplementedError

    def observe(self, marker):
        """Store a marker into each 16K region with simulated LD (nn),A and report
        (bank seen at 0xC000, ROM at 0x0000, anomalies)."""
        m = self.mem
        anomalies = []
        before = [bytes(b[:4]) for b in m.banks]
        prog = (0x3E, marker, 0x32, 0x02, 0x00, 0x32, 0x02, 0x40, 0x32, 0x02, 0x80 | 0x00, 0x32, 0x02, 0xC0,
                0x3A, 0x10, 0x00, 0x47, 0x3A, 0x02, 0xC0, 0x4F)
        # LD A,marker; LD (0002),A; LD (4002),A; LD (8002),A -> careful: program sits at 0x8100 to stay clear
        base = 0x8100
        for i, b in enumerate(prog):
            m[base + i] = b
        self.sim.run(base, base + len(prog))
        regs = self.sim.registers
        rom_byte = int(regs[2])         # B = byte read from 0x0010 (differs between the two ROMs)
        c000_byte = int(regs[3])        # C = byte read back from 0xC002
        if c000_byte != marker:
            anomalies.append('byte read back at 0xC002 is {} not the marker {}'.format(c000_byte, marker))
        changed = [i for i, b in enumerate(m.banks) if b[2] == marker and before[i][2] != marker]
        holders = [i for i, b in enumerate(m.banks) if b[2] == marker]
        if 5 not in holders:
            anomalies.append('store to 0x4002 did not reach bank 5')
        if 2 not in holders:
            anomalies.append('store to 0x8002 did not reach bank 2')
        others = [i for i in holders if i not in (5, 2)]
        bank = None
        if len(others) == 1:
            bank = others[0]
        elif not others:
            # bank 5 or 2 is also paged at 0xC000: decide by 0xC000 aliasing another marker
            probe = (marker ^ 0xFF) & 0xFF
            m[base] = 0x3E
            m[base + 1] = probe
            m[base + 2] = 0x32
            m[base + 3] = 0x03
            m[base + 4] = 0xC0
            self.sim.run(base, base + 5)
            al = [i for i, b in enumerate(m.banks) if b[3] == probe]
            if len(al) == 1 and al[0] in (5, 2):
                bank = al[0]
            else:
                anomalies.append('store to 0xC003 reached banks {}'.format(al))
        else:
            anomalies.append('store to 0xC002 reached banks {} (expected exactly one)'.format(others))
        for i, (r, p) in enumerate(zip(m.roms, self.rom_pristine)):
            if bytes(r) != p:
                anomalies.append('ROM {} modified'.format(i))
        roms = [i for i, p in enumerate(self.rom_pristine) if p[0x10] == rom_byte]
        rom = roms[0] if len(roms) == 1 else None
        if rom is None:
            anomalies.append('byte at 0x0010 ({}) identifies no ROM uniquely'.format(rom_byte))
        # the Python-visible memory object must agree with what the simulated code saw
        if self.tracer is not None or not self.is_c:
            vis_bank = [i for i, b in enumerate(m.banks) if b is m.memory[3]]
            vis_rom = [i for i, r in enumerate(m.roms) if r is m.memory[0]]
            if self.tracer is not None and (vis_bank != [bank] or vis_rom != [rom]):
                anomalies.append('memory object maps (rom {}, bank {}) but simulated code sees (rom {}, bank {})'.format(vis_rom, vis_bank, rom, bank))
        return bank, rom, anomalies

    def locked(self, bank):
        """Probe the lock by trying to page another bank (destroys the state)."""
        self.out(0x7FFD, (bank + 1) & 7 | 0)
        b2, _, _ = self.observe(0x5A)
        return b2 == bank


_rig_cache = {}


def get_rig(binding, o7ffd):
    """Fresh rig in latch state o7ffd.  C simulators keep the latch internally (set by the
    constructor only) and are cheap to build, so they are built anew.  A Python Simulator
    has no state of its own besides registers/memory/tracer but costs ~8 ms to build (one
    closure per opcode), so it is built once per binding and its memory object and tracer
    are reset to the constructed state - by the same Memory.out7ffd() call the constructors
    use."""
    if binding.split('+')[0].split(' ')[0] in ('c', 'ccmio'):
        return PageRig(binding, o7ffd)
    rig = _rig_cache.get(binding)
    if rig is None:
        rig = _rig_cache[binding] = PageRig(binding, 0)
    m = rig.mem
    for b, bank in enumerate(m.banks):
        v = (16 * b + 1) & 0xFF
        bank[2] = v
        bank[3] = v
    b2 = m.banks[2]
    v = (16 * 2 + 1) & 0xFF
    for i in range(0x120):
        b2[i] = v
    m.out7ffd(o7ffd)
    if rig.tracer is not None:
        rig.tracer.out7ffd = o7ffd
        rig.tracer.outfffd = 0
    return rig


def rep_value(state, variant=0):
    bank, rom, lock = state
    return bank | (rom << 4) | (0x20 if lock else 0) | (0xC8 if variant else 0)


def reach(binding, state, way):
    """Build a rig in abstract state `state` in one of three ways."""
    v = rep_value(state)
    if way == 0:
        return get_rig(binding, v)
    rig = get_rig(binding, 0)
    if way == 2:
        rig.out(0x7FFD, ((state[0] + 3) & 7) | (0x10 if not state[1] else 0))
    rig.out(0x7FFD, v)
    return rig


def check_edge(binding, src, decoded, v, dst, way, port_name=None):
    """Replay one model edge on one binding; returns list of mismatches."""
    if 'no tracer' in binding and way == 0 and False:
        return []
    rig = reach(binding, src, way)
    ports = [port_name] if port_name else (['7FFD', '3FFD', '7FFC'] if decoded else ['7FFF', 'FFFD'])
    out = []
    for pn in ports[:1] if port_name else ports:
        if pn != ports[0]:
            rig = reach(binding, src, way)
        b0, r0, an0 = rig.observe(0xA7)
        if (b0, r0) != (src[0], src[1]) or an0:
            out.append('source state {} not established (way {}): saw bank {}, rom {}, {}'.format(src, way, b0, r0, an0))
            continue
        rig.out(PORTS[pn], v)
        b1, r1, an1 = rig.observe(0x6B)
        if an1:
            out.extend('after OUT ({}),{}: {}'.format(pn, v, a) for a in an1)
        if (b1, r1) != (dst[0], dst[1]):
            out.append('after OUT ({}),{} from {}: bank {}, rom {}; model says bank {}, rom {}'.format(pn, v, src, b1, r1, dst[0], dst[1]))
        lk = rig.locked(b1 if b1 is not None else 0)
        if lk != dst[2]:
            out.append('after OUT ({}),{} from {}: lock {} but model says {}'.format(pn, v, src, lk, dst[2]))
    return out


# ------------------------------------------------------------------------------ part B: TLC
_NODE = re.compile(r'^(-?\d+) \[label="(.*?)"')
_EDGE = re.compile(r'^(-?\d+) -> (-?\d+) \[label="Out\((TRUE|FALSE),(\d+)\)"')


def run_tlc():
    """Model-check Paging128.tla with TLC and return (states, edges) of the dumped graph."""
    d = tempfile.mkdtemp(prefix='tlc-', dir=skbuild.scratch_dir())
    for f in ('Paging128.tla', 'Paging128.cfg'):
        shutil.copy(os.path.join(core.VERIF, 'models', f), d)
    dot = os.path.join(d, 'graph.dot')
    cmd = ['tlc', '-workers', '1', '-noGenerateSpecTE', '-metadir', os.path.join(d, 'meta'), '-dump', 'dot,actionlabels', dot, 'Paging128.tla']
    p = subprocess.run(cmd, cwd=d, capture_output=True, text=True, timeout=600)
    if 'Model checking completed. No error has been found.' not in p.stdout:
        raise skbuild.BrokenCheck('TLC did not complete cleanly:\n' + p.stdout[-3000:] + p.stderr[-1000:])
    nodes = {}
    edges = []
    with open(dot) as f:
        for line in f:
            m = _EDGE.match(line)
            if m:
                edges.append((m.group(1), m.group(2), m.group(3) == 'TRUE', int(m.group(4))))
                continue
            m = _NODE.match(line)
            if m:
                lab = m.group(2)
                bank = int(re.search(r'bank = (\d+)', lab).group(1))
                rom = int(re.search(r'rom = (\d+)', lab).group(1))
                lock = re.search(r'lock = (TRUE|FALSE)', lab).group(1) == 'TRUE'
                nodes[m.group(1)] = (bank, rom, lock)
    shutil.rmtree(d, ignore_errors=True)
    m = re.search(r'(\d+) states generated, (\d+) distinct states found', p.stdout)
    return nodes, edges, (int(m.group(1)), int(m.group(2)))


def part_b(stats, shard, nshards, tier, graph):
    nodes, edges, counts = graph
    # abstract edges (the model state also carries the last action, which the
    # implementation does not have): project to (bank, rom, lock)
    proj = sorted({(nodes[s], d, v, nodes[t]) for s, t, d, v in edges})
    for i, (src, decoded, v, dst) in core.shard_iter(proj, shard, nshards):
        if model_next(src, decoded, v) != dst:
            raise skbuild.BrokenCheck('TLC graph disagrees with the harness copy of the model at {}'.format((src, decoded, v, dst)))
        for binding in BINDINGS:
            for way in (0, 1, 2):
                if src[2] and way == 2:
                    pass
                d = check_edge(binding, src, decoded, v, dst, way)
                stats.evaluations += 1
                stats.traces += 1
                stats.transitions += 2 + way
                if d:
                    stats.violation('B/{}/{}/{}{}->{}/way{}'.format(binding, src, 'dec' if decoded else 'undec', v, dst, way),
                                    {'part': 'B', 'binding': binding, 'src': list(src), 'decoded': decoded, 'v': v, 'dst': list(dst), 'way': way},
                                    '; '.join(d[:3]), tags={'part': 'B', 'binding': binding, 'decoded': decoded}, order=10**7 + i)
        stats.state(('B', src, decoded, v))
    if shard == 0:
        stats.counters['tlc_states_generated'] = counts[0]
        stats.counters['tlc_distinct_states'] = counts[1]
        stats.counters['tlc_edges'] = len(edges)
        stats.counters['model_edges_projected'] = len(proj)
        stats.sample({'part': 'B', 'edge': {'src': list(proj[len(proj) // 2][0]), 'decoded': proj[len(proj) // 2][1],
                                            'value': proj[len(proj) // 2][2], 'dst': list(proj[len(proj) // 2][3])},
                      'replayed_on': list(BINDINGS), 'ways': 3})


# ------------------------------------------------------------------------------ part C
def history_case(binding, writes):
    """writes: list of (port name, value).  Marker observation after every write."""
    rig = get_rig(binding, 0)
    state = (0, 0, False)
    out = []
    for k, w in enumerate(writes):
        pn, v = w[0], w[1]
        rig.out(PORTS[pn], v, w[2] if len(w) > 2 else 'out_c')
        state = model_next(state, DECODED[pn], v)
        b, r, an = rig.observe(0x21 + 0x33 * k)
        if an:
            out.extend('after write {} ({},{}): {}'.format(k + 1, pn, v, a) for a in an)
        if (b, r) != state[:2]:
            out.append('after write {} ({},{}): bank {}, rom {}; the last accepted value selects bank {}, rom {}'.format(
                k + 1, pn, v, b, r, state[0], state[1]))
            break
    return out


def part_c(stats, shard, nshards, tier):
    quick = tier == 'quick'
    second_ports = ('7FFD', '7FFF', 'FFFD', '3FFD', '7FFC', '00FD')     # 7FFC: an even (ULA) port that also matches the paging decode
    # quick: all 256 x 256 value pairs on the Python tracer and the C internal binding with the decoded
    # port, all 256 x 64-class pairs elsewhere; thorough: all 256 x 256 x 4 ports on every binding
    classes = sorted({(v & 0x37) | (0xC8 if v & 0x40 else 0) for v in range(256)})
    i = 0
    for binding in BINDINGS:
        full = (not quick) or binding in ('py+PagingTracer', 'c (internal paging, no tracer)')
        firsts = range(256) if full else classes
        seconds = range(256)
        for v1 in firsts:
            i += 1
            if i % nshards != shard:
                continue
            for pn in (second_ports if full else ('7FFD', '7FFF', 'FFFD', '7FFC')):
                for v2 in (seconds if (full and pn == '7FFD') or not quick else classes):
                    d = history_case(binding, [('7FFD', v1), (pn, v2)])
                    stats.evaluations += 1
                    stats.transitions += 2
                    stats.counters['C_histories'] += 1
                    if d:
                        stats.violation('C/{}/7FFD={}/{}={}'.format(binding, v1, pn, v2),
                                        {'part': 'C', 'binding': binding, 'writes': [['7FFD', v1], [pn, v2]]}, '; '.join(d[:3]),
                                        tags={'part': 'C', 'binding': binding, 'port2': pn}, order=2 * 10**7 + v1 * 256 + v2)
            stats.nontriv(('C', binding, v1))
        # block OUT instructions (port decoded after B is decremented) as the second write
        for v1 in (0x00, 0x01, 0x07, 0x10, 0x17, 0x20, 0x27, 0x37):
            i += 1
            if i % nshards != shard:
                continue
            for method in ('outi', 'outd'):      # (OTIR/OTDR = the same write repeated with B counting down: not a single-write history)
                for pn in second_ports:
                    for v2 in classes:
                        d = history_case(binding, [('7FFD', v1), (pn, v2, method)])
                        stats.evaluations += 1
                        stats.transitions += 2
                        stats.counters['C_block_out_histories'] += 1
                        if d:
                            stats.violation('C/{}/7FFD={}/{}:{}={}'.format(binding, v1, method, pn, v2),
                                            {'part': 'C', 'binding': binding, 'writes': [['7FFD', v1], [pn, v2, method]]}, '; '.join(d[:3]),
                                            tags={'part': 'C', 'binding': binding, 'port2': pn, 'method': method}, order=2 * 10**7 + 10**6 + v1 * 256 + v2)
        if not quick:
            for v1, v2 in itertools.product(classes[:64], repeat=2):
                i += 1
                if i % nshards != shard:
                    continue
                for v3 in classes[:64]:
                    for pn in ('7FFD', '00FD', '7FFC'):
                        d = history_case(binding, [('7FFD', v1), ('7FFD', v2), (pn, v3)])
                        stats.evaluations += 1
                        stats.transitions += 3
                        stats.counters['C_histories3'] += 1
                        if d:
                            stats.violation('C3/{}/{},{},{}={}'.format(binding, v1, v2, pn, v3),
                                            {'part': 'C', 'binding': binding, 'writes': [['7FFD', v1], ['7FFD', v2], [pn, v3]]}, '; '.join(d[:3]),
                                            tags={'part': 'C', 'binding': binding}, order=3 * 10**7)
    if shard == 0:
        stats.sample({'part': 'C', 'history': [['7FFD', 0x17], ['7FFF', 0x03]], 'bindings': len(BINDINGS)})


def _shard(shard, nshards, tier, seed, graph):
    stats = core.Stats(PROPERTY)
    part_a(stats, shard, nshards, tier)
    part_b(stats, shard, nshards, tier, graph)
    part_c(stats, shard, nshards, tier)
    if shard == 0:
        stats.sample({'part': 'A', 'machine': '128K-rom1', 'kind': 'ccmio', 'code': 'DDCB0586', 'pointers': '0x3FFF', 'sp': '0x4000'})
    return stats


def run(tier, seed):
    graph = run_tlc()
    stats = core.run_shards(_shard, tier, seed, graph, prop=PROPERTY)
    meta = dict(
        rule='A: every opcode slot x 5 operand fillings x pointers at {3FFE,3FFF,4000,FFFF,0000,0001} (all pairs and SP; thorough: SP independently) '
             'x F in {00,FF} x 4 simulators x {48K, 128K ROM 0, 128K ROM 1} + interrupt acceptance IM 0/1/2 with SP at the edges; monitors: ROM '
             'unchanged, register ranges, cell ranges, monotone clock. B: TLC explores models/Paging128.tla; every projected edge of the dumped '
             'graph is replayed on 12 paging bindings, source reached 3 ways. C: all two-write histories (256 x 256 on the reference bindings, 256 x '
             'value-class elsewhere; thorough: everywhere, plus three-write histories over 64 classes) with marker stores after each write. '
             'states = distinct (machine, simulator) monitor rigs and model edges; non-trivial = distinct slots / first values',
        exhaustive=True,
        bound='single instruction from the pointer-edge state alphabet (inductive step); paging histories of length 2 (quick) / 3 (thorough)',
        assumptions=['invariants preserved by every instruction from every alphabet state are invariants of programs (inductive argument); states '
                     'outside the alphabet (pointers away from the two edges) cannot reach ROM or wrap',
                     'models/Paging128.tla is the documented latch; TLC checks its invariants, the driver replays all of its edges'],
        required_guards=['A_cases', 'A_interrupts', 'tlc_edges', 'model_edges_projected', 'C_histories', 'C_block_out_histories'],
        extra={'checker_cmd': 'tlc -workers 1 -noGenerateSpecTE -dump dot,actionlabels graph.dot Paging128.tla'},
    )
    return stats, meta


def replay(case):
    if case['part'] == 'A':
        rig = MonRig(case['kind'], case['machine'])
        return part_a_case(rig, tuple(case['code']), case['ptr'], case['sp'], case['F'], with_int=case.get('int'), pc=case.get('pc', 0x8000))
    if case['part'] == 'B':
        return check_edge(case['binding'], tuple(case['src']), case['decoded'], case['v'], tuple(case['dst']), case['way'])
    return history_case(case['binding'], [tuple(w) for w in case['writes']])
