"""C17 - skool macros expand with their documented semantics, identically in every mode.

Technique: bounded exhaustive enumeration.  Macro *texts* are never parsed by the oracle:
every text is rendered from an AST (mc/refs/macroast.py) in a stated style, and the
expected expansion is computed from the same AST by the reference evaluator written from
sphinx/source/skool-macros.rst.

Four complete enumerations (all sharded by case index):

 (i)   EXPR   arithmetic expressions, complete to depth 2: 19 documented operators x the
              operand alphabet {0,1,2,3,7,255,256,65535,$FF,{a}}, both tree shapes, in fully
              parenthesised / minimally parenthesised (/ spaced: depth 1, thorough all) forms,
              wrapped in #EVAL(...) (exact value) and #IF(...)(T,F) (truth value).
 (ii)  MACRO  macro ASTs to nesting depth 3 (thorough: 4 over a reduced context alphabet) over
              #EVAL #N #IF #MAP #FOR #FOREACH #WHILE #FORMAT #CHR #STR #SPACE #PC #PEEK #(...)
              and #DEF'd macros (leaves x integer contexts x string contexts x #() contexts x
              loop bodies over the loop variable, plus self-contained #LET/#POKES/#PUSHS/#POPS/
              #DEF composites); every integer-parameter / string-parameter slot in every legal
              style: complete product of styles to depth 2; at depth 3 the simplest legal global
              style, all deviations from it in one slot (thorough: also every pair of string
              slots) and 84 global styles (integer style x string style per nesting level).
              Every AST of depth <= 2 also under the other 8 base/case configurations.
 (iii) HIST   breadth-first explicit-state search over 16 state-changing macros (#POKES also at the boundary
              addresses 0, 1, 16383, 16384, 65534, 65535) to depth 4
              (thorough 5).  A state is the history reaching it: fresh real writers + replay.
              Canonical state = (variables, poked cells, snapshot stack contents, defined
              macros) of the *reference* state; successors are deduplicated by its hash for
              further expansion, but the 32 probe macros are expanded at *every* transition
              target, so implementation state that the documented model does not have (e.g. a
              stale module-level cache) cannot hide behind a merged state.
 (iv)  TOOL   for every distinct state to depth 2 (thorough 3): the history as @expand
              directives and every pure probe planted in 8 comment positions (+ a ref-file
              page) of a generated skool file, through skool2asm.main / skool2html.main
              in-process.
 (v)   SHAPE  position-dependent macros (#PC alone and feeding #PEEK/#EVAL/#FOR/#IF): all 15
              compositions of an entry's N = 1..4 instructions into single-comment instructions
              and multi-instruction {...} comment groups x every comment position the shape has
              (title, description, register, start comment, a mid-block comment before every
              unit but the first, the comment of every instruction / group, end comment) x all
              9 base/case configurations, through skool2asm.main / skool2html.main.

Oracle: expansion == macroast evaluation of the same AST in the same state (ASM and HTML
writers separately); ASM expansion == html.unescape(HTML expansion) for mode-independent
macros; same result in every comment position; #POPS restores memory exactly (checked by
#PEEK of every poked cell while the snapshot stack is drained).

Module-level caches (skoolmacro._map_cache, keyed by the text of the map).  Each tool run is
its own process and therefore starts with an empty cache, so "one process lifetime" is the
legitimate unit within which a stale cache is a defect.  The check therefore empties such
caches only where a process would start - at the beginning of a case (one text in (i)/(ii),
one history + its probes in (iii), one tool run in (iv)) - which also keeps every case
independent of enumeration order and of sharding, i.e. deterministic and replayable.  It never
empties them *within* a case: the probe list expands several #MAP macros that differ only in
their default value or only in one value, after a history that may already have expanded a
#MAP with the same pairs, so a cache that goes stale inside one process is caught.
"""
import html as _html
import itertools
import os
import re
import signal

from .. import core, tools
from ..refs import macroast as M
from ..refs.macroast import num, S, lit, Illegal, Undefined

PROPERTY = 'C17'
NEEDS_C = False
STOP_AFTER = 150       # violations per section per shard after which that section stops enumerating
REQUIRED_GUARDS = ('expr_exact', 'expr_truth_only', 'expr_undefined', 'expr_bare_precedence', 'expr_negative', 'macro_depth1', 'macro_depth2', 'macro_depth3',
                   'macro_hash', 'config_variants', 'hist_merged_targets_probed', 'probe_expansions', 'tool_runs', 'tool_positions_compared', 'style_illegal',
                   'shape_positions_compared', 'shape_end_comment_after_group', 'shape_mid_block_after_group', 'shape_pos_g', 'shape_pos_i', 'shape_pos_m', 'shape_pos_e')

# ------------------------------------------------------------------------------ fixtures
SKOOL = """@start
; Routine
c40000 LD A,1
 40002 RET

; Data
b40010 DEFM "Hi",0
 40013 DEFM "a  b","c"+128
 40018 DEFM " pad ",0
 40024 DEFM "end",255
 40028 DEFB 1,2,3,4,5
"""
# the same bytes, written down independently of the assembler
BASE_MEM = {40000: 62, 40001: 1, 40002: 201,
            40010: 72, 40011: 105, 40012: 0,
            40013: 97, 40014: 32, 40015: 32, 40016: 98, 40017: 227,
            40018: 32, 40019: 112, 40020: 97, 40021: 100, 40022: 32, 40023: 0,
            40024: 101, 40025: 110, 40026: 100, 40027: 255,
            40028: 1, 40029: 2, 40030: 3, 40031: 4, 40032: 5}
PC = 40000
# (base, case): 0/10/16 and 0/1 (lower)/2 (upper); the first three cover every value
CONFIGS = ((0, 0), (16, 1), (10, 2), (16, 0), (16, 2), (0, 1), (10, 0), (0, 2), (10, 1))


def B(op, l, r):
    return ('bin', op, l, r)


def F(name):
    return ('fld', name)


def LV(name='n'):
    return ('lv', name)


def EV(e, base=None, width=None):
    return ('EVAL', e, base, width)


DEF_M = ('DEF', None, 'M', (('a', None), ('b', 2)), (('s', lit('x')),), S(('arg', 'a', 0), '-', ('arg', 'b', 1), '-', ('arg', 's', 0)))
DEF_Q = ('DEF', num(1), 'Q', (('n', None),), None, S('<', ('arg', 'n', 2, '04X'), '>'))
DEF_W = ('DEF', None, 'W', (('a', None),), None, S(EV(B('*', ('arg', 'a', 0), num(2)))))
DEF_T = ('DEF', num(2), 'T', (('a', 1),), (('s', None), ('t', lit('y'))), S(('arg', 's', 1), ':', ('arg', 't', 0), ':', ('arg', 'a', 0)))
ENV_SETUP = (('LET', 'a', num(5)), ('LET', 's$', lit('xy')), ('LETD', 'd', num(0), ((num(1), num(2)),)),
             ('LETD', 'e$', lit('?'), ((num(1), lit('one')), (num(2), None))), DEF_M, DEF_Q, DEF_W, DEF_T)


HORIZON = 1.0          # CPU-seconds allowed for the expansion of one text (the longest legitimate one takes ~20 ms)
TOOL_HORIZON = 20.0    # CPU-seconds allowed for one tool run (~0.1 s)


class ExpansionTimeout(BaseException):
    """Raised by the watchdog inside the code under test.  Not an Exception subclass, so that
    `except Exception` handlers there do not swallow it; the timer keeps firing for the bare
    `except:` handlers that do."""


def _on_timer(signum, frame):
    raise ExpansionTimeout()


_timer_pid = None


def _arm(seconds):
    """Horizon for one execution of the code under test, in CPU time of this process (so that
    machine load cannot fake a hang).  An expansion that does not terminate is a violation."""
    global _timer_pid
    if _timer_pid != os.getpid():
        signal.signal(signal.SIGVTALRM, _on_timer)
        _timer_pid = os.getpid()
    signal.setitimer(signal.ITIMER_VIRTUAL, seconds, 0.25)


def _disarm():
    signal.setitimer(signal.ITIMER_VIRTUAL, 0)


def _clear_caches():
    """Simulated process start (see the module docstring)."""
    from skoolkit import skoolmacro
    for name, val in vars(skoolmacro).items():
        if name.startswith('_') and 'cache' in name and isinstance(val, dict):
            val.clear()


class SetupViolation(Exception):
    """One of the macros that build the fixed environment of (i)/(ii) did not expand as documented."""

    def __init__(self, text, detail):
        Exception.__init__(self, detail)
        self.text = text
        self.detail = detail


class Writers:
    """Real AsmWriter / HtmlWriter objects on the two-entry skool file."""
    _path = None

    def __init__(self, cfg, setup=ENV_SETUP):
        self.cfg = tuple(cfg)
        self.setup = setup
        self.nexp = 0
        self.fresh()

    @classmethod
    def skoolfile(cls):
        if cls._path is None or cls._path[0] != os.getpid():
            cls._path = (os.getpid(), tools.write_file('c17.skool', SKOOL))
        return cls._path[1]

    def fresh(self):
        from skoolkit.skoolparser import SkoolParser
        from skoolkit.skoolasm import AsmWriter
        from skoolkit.skoolhtml import HtmlWriter
        from skoolkit.refparser import RefParser
        base, case = self.cfg
        path = self.skoolfile()
        # as skool2asm.run() / skool2html.run() construct them
        p = SkoolParser(path, case, base, 1, False, 0, False, 0, True, None, 0, 65536, [])
        self.asm = AsmWriter(p, {'warnings': '0'}, {}, {'Address': ''})
        p = SkoolParser(path, case=case, base=base, html=True, create_labels=0, asm_labels=0, variables=[])
        self.html = HtmlWriter(p, RefParser())
        # the writers set pc while writing an entry; at this seam the harness does it
        self.asm.pc = self.html.pc = PC
        self.state = M.State(BASE_MEM, PC)
        for node in self.setup:
            t = M.render(node, None, self.state.macros)
            ra, rh = self.expand(t)
            if ra != '' or rh != '':
                raise SetupViolation(t, 'environment macro {} expanded to {!r} (ASM) / {!r} (HTML), documented: empty string'.format(t, ra, rh))
            M.Evaluator(self.state, M.Mode()).text(node)
        self.defs = dict(self.state.macros)

    def expand(self, text):
        """(asm, html) expansions; an exception is returned as 'ERROR: ...'."""
        self.nexp += 2
        try:
            _arm(HORIZON)
            ra = self.asm.expand(text)
            _disarm()
        except ExpansionTimeout:
            _disarm()
            ra = 'ERROR: expansion did not terminate within {} CPU-seconds'.format(HORIZON)
        except Exception as e:
            _disarm()
            ra = 'ERROR: {}: {}'.format(type(e).__name__, e)
        try:
            # the skool parser HTML-escapes comment text before the HTML writer sees it
            _arm(HORIZON)
            rh = self.html.expand(_html.escape(text, False), 'asm')
            _disarm()
        except ExpansionTimeout:
            _disarm()
            rh = 'ERROR: expansion did not terminate within {} CPU-seconds'.format(HORIZON)
        except Exception as e:
            _disarm()
            rh = 'ERROR: {}: {}'.format(type(e).__name__, e)
        return ra, rh

    def mode(self, html, raw=False):
        return M.Mode(html, self.cfg[0], self.cfg[1], raw=raw)


def _nbsp(x):
    return x.replace('\xa0', ' ')


def expected(ast, state, mode):
    """Reference expansion, or raises Undefined."""
    st = state.copy()
    return M.Evaluator(st, mode).text(ast), st


def compare(w, ast, text, state=None, commit=False):
    """Expand '[text]' on both writers and compare with the reference.  Returns a list of
    (kind, detail).  state: reference state (default: the writers' environment)."""
    st0 = state if state is not None else w.state
    ea, sa = expected(ast, st0, w.mode(False))
    eh, sh = expected(ast, st0, w.mode(True))
    ra, rh = w.expand('[' + text + ']')
    out = []
    ea, eh = '[' + ea + ']', '[' + eh + ']'
    ru = _html.unescape(rh)
    if ra != ea:
        out.append(('asm!=ref', 'ASM expansion {!r}, documented {!r}'.format(ra, ea)))
    if ru != eh:
        out.append(('html!=ref', 'HTML expansion {!r} (unescaped {!r}), documented {!r}'.format(rh, ru, eh)))
    if not M.mode_dependent(ast) and _nbsp(ra) != _nbsp(ru):
        out.append(('asm!=html', 'ASM {!r} != unescaped HTML {!r}'.format(ra, ru)))
    if not out and M.mode_dependent(ast) and not _has_html_special(text):
        # the documented HTML forms of #CHR / #SPACE (&#65; &#160;)
        try:
            er = '[' + expected(ast, st0, w.mode(True, raw=True))[0] + ']'
        except Undefined:
            er = None
        if er is not None and rh != er:
            out.append(('html-raw', 'HTML expansion {!r}, documented {!r}'.format(rh, er)))
    if commit and state is not None:
        state.__dict__.update(sa.__dict__)
    return out


def _has_html_special(text):
    return any(c in text for c in '&<>"\'')


# ------------------------------------------------------------------------------ (i) expressions
OPERANDS = (num(0), num(1), num(2), num(3), num(7), num(255), num(256), num(65535), num(255, 'h'), F('a'))


def expr_cases(tier):
    """Depth 1, then both depth-2 shapes."""
    for op in M.OPS:
        for a in OPERANDS:
            for b in OPERANDS:
                yield B(op, a, b)
    for o1 in M.OPS:
        for o2 in M.OPS:
            for a in OPERANDS:
                for b in OPERANDS:
                    for c in OPERANDS:
                        yield B(o2, B(o1, a, b), c)
                        yield B(o2, a, B(o1, b, c))


def check_expr(w, e, stats, tier='thorough'):
    res = []
    ev = M.Evaluator(w.state, w.mode(False))
    try:
        v = ev.int_(e, M._Env())
    except Undefined as u:
        stats.counters['expr_undefined'] += 1
        return res
    exact = not isinstance(v, M.Truth)
    wrappers = [('IF', e, lit('T'), lit('F'))]
    if exact:
        wrappers.insert(0, EV(e))
        stats.counters['expr_exact'] += 1
        if v < 0:
            stats.counters['expr_negative'] += 1
    else:
        stats.counters['expr_truth_only'] += 1
    deep = e[2][0] == 'bin' or e[3][0] == 'bin'
    for wi, wr in enumerate(wrappers):
        if not deep:
            istyles = (0, 3)
        elif tier == 'quick':
            # quick: exact value in full / minimal parenthesisation, truth value fully parenthesised
            istyles = (0, 2) if wi == 0 else (0,)
        else:
            istyles = (0, 2, 3, 4)
        for istyle in istyles:
            try:
                text = M.render(wr, {0: istyle}, None, (']',))
            except Illegal:
                continue
            if istyle == 2:
                stats.counters['expr_bare_precedence'] += 1
            _clear_caches()
            bad = compare(w, wr, text)
            stats.evaluations += 1
            for kind, detail in bad:
                res.append((kind, text, detail))
    return res


# ------------------------------------------------------------------------------ (ii) macro ASTs
def leaves():
    """Depth-1 macros."""
    a, n = F('a'), num
    out = [
        EV(n(7)), EV(n(255, 'h')), EV(B('+', n(1), n(2))), EV(B('*', a, n(2))), EV(n(255), n(16)), EV(n(254), n(16), n(4)),
        EV(n(5), n(2), n(8)), EV(n(7), None, n(3)), EV(B('-', n(1), n(2))), EV(('fldk', 'd', 1)), EV(('fldk', 'd', 9)),
        EV(B('+', F('html'), B('*', n(2), F('asm')))), EV(('fldk', 'mode', 'base')), EV(F('case')), EV(('fldk', 'vars', 'zz')),
        ('N', n(7), None, None, None, None, None, None), ('N', n(255), None, None, None, None, None, None),
        ('N', n(256), None, None, None, None, None, None), ('N', n(15), n(4), n(5), n(1), None, lit('0x'), None),
        ('N', n(15), None, n(3), None, None, None, None), ('N', n(255), None, None, n(1), n(1), lit('$'), lit('h')),
        ('N', n(10), None, None, None, n(1), None, None), ('N', n(10), n(1), None, None, None, None, None),
        ('N', n(4660), n(2), n(2), None, None, None, None), ('N', n(10), None, None, n(1), None, lit(''), lit('h')),
        ('IF', n(1), lit('yes'), lit('no')), ('IF', n(0), lit('yes'), lit('no')), ('IF', n(0), lit('yes'), None),
        ('IF', B('>', a, n(3)), lit('yes'), lit('no')), ('IF', B('&&', n(2), n(0)), lit('T'), lit('F')), ('IF', n(2), lit(''), lit('no')),
        ('IF', n(1), lit('a<b'), lit('&')), ('IF', B('<', n(1), n(2)), lit('"q"'), None), ('IF', n(1), lit(' s p '), lit('')),
        ('MAP', n(2), lit('x'), ((n(1), lit('p')), (n(2), lit('q')))), ('MAP', n(9), lit('x'), ((n(1), lit('p')), (n(2), lit('q')))),
        ('MAP', n(2), lit('x'), ((n(1), lit('p')), (B('+', n(1), n(1)), lit('q')))), ('MAP', n(255), lit(''), ((n(255, 'h'), lit('h')),)),
        ('MAP', a, lit('0'), ((n(5), lit('7')),)), ('MAP', n(1), lit('d'), ()), ('MAP', n(3), lit('x:y'), ((n(3), lit('u:v')),)),
        ('MAP', n(1), lit('<'), ((n(1), lit('&')),)),
        ('FOR', n(1), n(3), None, None, 'n', S(LV()), None, None), ('FOR', n(1), n(3), None, None, 'n', S(LV()), lit('+'), None),
        ('FOR', n(1), n(3), None, None, 'n', S('<', LV(), '>'), lit(';'), lit('=')), ('FOR', n(3), n(1), B('-', n(0), n(1)), None, 'n', S(LV()), lit(';'), None),
        ('FOR', n(1), n(3), None, n(1), 'n', S(LV()), lit(' '), lit(' and ')), ('FOR', n(1), n(3), None, n(2), 'n', S(LV()), lit(' '), None),
        ('FOR', n(1), n(3), None, n(3), 'n', S(LV()), None, None), ('FOR', n(1), n(4), n(2), None, 'n', S(LV()), lit(';'), None),
        ('FOR', n(3), n(1), None, None, 'n', S(LV()), lit(';'), None), ('FOR', n(2), n(2), None, None, 'n', S(LV()), lit(';'), lit('=')),
        ('FOR', n(1), n(2), None, None, 'n', S(LV()), lit(';'), lit('=')), ('FOR', n(1), n(3), None, n(4), 'n', S(LV()), lit(';'), None),
        ('FOR', n(1), n(3), n(1), n(0), 'n', S(LV(), LV()), None, lit('=')), ('FOR', n(9), n(11), None, None, 'n', S('(', LV(), ')'), None, None),
        ('FOR', n(1), n(3), None, None, 'n', S(LV()), lit(' & '), None), ('FOR', n(1), n(3), None, None, 'n', S(LV()), lit(';'), lit('<')),
        ('FOR', n(1), n(2), None, None, 'n', S('&', LV(), '"'), lit(';'), None),
        ('FOREACH', (lit('p'), lit('q'), lit('r')), 'v', S('(', LV('v'), ')'), lit('+'), lit('=')), ('FOREACH', (lit('p'), lit('q')), 'v', S(LV('v')), lit('+'), lit('=')),
        ('FOREACH', (lit('p'),), 'v', S('[', LV('v'), ']'), lit('+'), lit('=')), ('FOREACH', (), 'v', S(LV('v')), lit('+'), None),
        ('FOREACH', (lit('f(1,2)'), lit('g')), 'v', S(LV('v')), lit(';'), None), ('FOREACH', (lit('1'), lit('2'), lit('3')), 'v', S(LV('v')), lit('*'), None),
        ('FOREACH', (lit('p'), lit('q'), lit('r')), 'v', S(LV('v'), LV('v')), None, None), ('FOREACH', (lit('p'), lit(''), lit('r')), 'v', S(LV('v')), lit(','), lit(' or ')),
        ('FOREACH', (lit('<'), lit('&')), 'v', S(LV('v')), lit(';'), None), ('FOREACH', (lit('p'), lit('q')), 'v', S(LV('v')), lit('>'), None),
        # explicit final separators made of characters that HTML mode escapes (with a plain and an escaped separator)
        ('FOREACH', (lit('p'), lit('q'), lit('r')), 'v', S(LV('v')), lit(';'), lit(' & ')), ('FOREACH', (lit('p'), lit('q')), 'v', S(LV('v')), lit('<'), lit('>')),
        ('FOREACH', (lit('p'), lit('q'), lit('r')), 'v', S(LV('v')), lit(''), lit('&amp;')), ('FOR', n(1), n(3), None, None, 'n', S(LV()), lit('<'), lit(' & ')),
        ('FORMAT', None, (('lit', 'x'), ('ff', 'a', None, '03'), ('lit', '/'), ('ff', 's$', None, ''), ('ff', 'd', 1, ''))),
        ('FORMAT', num(0), (('ff', 'a', None, ''),)), ('FORMAT', num(2), (('lit', 'x{'), ('ff', 'a', None, '02X'), ('lit', '}'))),
        ('FORMAT', num(1), (('lit', 'Ab'), ('ff', 's$', None, ''))), ('FORMAT', None, (('lit', 'z'), ('ff', 'e$', 1, ''), ('ff', 'e$', 2, ''), ('ff', 'e$', 7, ''))),
        ('FORMAT', None, (('lit', 'h='), ('ff', 'html', None, ''), ('lit', ',b='), ('ff', 'base', None, ''), ('lit', ',c='), ('ff', 'mode', 'case', ''))),
        ('FORMAT', num(0), (('lit', '<&>'), ('ff', 'a', None, '08b'))),
        ('CHR', n(65), None), ('CHR', n(65), n(1)), ('CHR', n(127), n(2)), ('CHR', n(127), n(3)), ('CHR', n(169), None), ('CHR', n(96), n(2)),
        ('CHR', B('+', n(60), a), n(0)), ('CHR', n(94), n(3)), ('CHR', n(8593), None), ('CHR', n(38), None), ('CHR', n(60), n(1)),
        ('STR', n(40010), None, None, None), ('STR', n(40013), None, None, None), ('STR', n(40013), n(4), None, None), ('STR', n(40018), n(1), None, None),
        ('STR', n(40018), n(2), None, None), ('STR', n(40018), n(3), None, None), ('STR', n(40024), n(8), None, B('==', ('strb',), n(255))),
        ('STR', n(40010), n(8), None, B('>', ('strb',), n(100))), ('STR', n(40019), None, n(3), None), ('STR', n(40012), None, None, None),
        ('STR', n(40010), None, n(0), None), ('STR', n(40013), n(7), None, None), ('STR', n(40014), n(6), n(3), None),
        ('SPACE', None, 0), ('SPACE', None, 1), ('SPACE', n(3), 0), ('SPACE', n(0), 0), ('SPACE', B('-', a, n(3)), 0),
        ('PC',), ('PEEK', n(40028)), ('PEEK', B('+', n(40028), n(1))), ('PEEK', B('+', a, n(40005))), ('PEEK', n(0x9C40, 'h')), ('PEEK', n(30000)),
        ('CALL', 'M', ((None, n(1)),), None), ('CALL', 'M', ((None, n(1)), (None, n(3))), None), ('CALL', 'M', ((None, n(1)), (None, n(3))), (lit('q'),)),
        ('CALL', 'M', (('b', n(4)), ('a', n(1))), None), ('CALL', 'M', ((None, n(1)), ('b', n(4))), (lit(''),)), ('CALL', 'M', ((None, n(1)),), (lit('p,q'),)),
        ('CALL', 'M', ((None, B('+', a, n(1))), (None, None)), (lit('(z)'),)), ('CALL', 'Q', ((None, n(255)),), None), ('CALL', 'Q', (('n', n(4660)),), None),
        ('CALL', 'W', ((None, n(4)),), None), ('CALL', 'T', ((None, n(3)),), (lit('p'),)), ('CALL', 'T', ((None, None),), (lit('p'), lit('q'))),
        ('CALL', 'T', (), (lit('p'), lit(''))), ('CALL', 'T', (('a', n(9)),), (lit(' p '), lit('q'))),
    ]
    return [S(x) for x in out]


def composites():
    """Self-contained texts that change state (and restore / re-initialise it)."""
    n, a = num, F('a')
    i = F('i')
    dec = ('LET', 'i', B('-', i, n(1)))
    out = [
        S(('LET', 'i', n(3)), ('WHILE', B('>', i, n(0)), S(EV(i), dec))),
        S(('LET', 'i', n(2)), ('WHILE', i, S(' ', EV(i), ' ', dec, ' '))),
        S(('LET', 'i', n(0)), ('WHILE', B('<', i, n(3)), S(('LET', 'i', B('+', i, n(1))), '<', EV(B('*', i, i)), '>'))),
        S(('LET', 'i', n(0)), ('WHILE', i, S('never'))),
        S(('LET', 'i', n(1)), ('WHILE', B('&&', i, B('<', i, n(9))), S(('N', i, None, n(2), None, None, None, None), ('LET', 'i', B('*', i, n(3))), ','))),
        S(('LET', 'i', B('+', a, n(1))), EV(i), ('LET', 'i', B('*', i, i)), '/', EV(i)),
        S(('LET', 't$', S('p', EV(a), 'q')), ('FORMAT', None, (('lit', 'v'), ('ff', 't$', None, '')))),
        S(('LET', 't$', S('<&>')), ('FORMAT', n(0), (('ff', 't$', None, ''), ('ff', 't$', None, '')))),
        S(('LETD', 'k', n(7), ((n(1), n(10)), (n(2), None), (B('+', n(1), n(2)), B('*', n(5), n(6))))), EV(B('+', ('fldk', 'k', 1), ('fldk', 'k', 2))), ',',
          EV(('fldk', 'k', 3)), ',', EV(('fldk', 'k', 4))),
        S(('LETD', 'k$', lit('?'), ((n(1), lit('a')), (n(2), lit('b')))), ('LETK', 'k$', n(2), lit('B')), ('LETK', 'k$', B('+', n(1), n(2)), lit('c')),
          ('FORMAT', n(0), (('ff', 'k$', 1, ''), ('ff', 'k$', 2, ''), ('ff', 'k$', 3, ''), ('ff', 'k$', 4, '')))),
        S(('PUSHS', ''), ' ', ('POKES', ((n(40011), n(9)),)), ('PEEK', n(40011)), ',', ('POPS',), ('PEEK', n(40011))),
        S(('PUSHS', 'nm'), ' ', ('POKES', ((n(40011), n(9)), (n(40012), n(8), n(2), n(2)))), ('POKES', ((n(40030), n(0), n(3)),)),
          ('FOREACHP', 'nm', 'p', S(LV('p')), lit('; '), None), '/', ('FOR', n(40011), n(40014), None, None, 'n', S(('PEEK', LV())), lit(','), None), ('POPS',),
          '/', ('FOR', n(40011), n(40014), None, None, 'n', S(('PEEK', LV())), lit(','), None)),
        S(('PUSHS', ''), ' ', ('POKES', ((n(65535), n(9)), (n(0), n(8)), (n(16383), n(7), n(2)))), ('PEEK', n(65535)), ',', ('PEEK', n(0)), ',', ('PEEK', n(16384)), '/',
          ('POPS',), ('PEEK', n(65535)), ',', ('PEEK', n(0)), ',', ('PEEK', n(16383)), ',', ('PEEK', n(16384))),
        S(('PUSHS', ''), ' ', ('POKES', ((n(40011), n(1)),)), ('PUSHS', 'x2'), ' ', ('POKES', ((n(40011), n(2)),)), ('PEEK', n(40011)), ('POPS',), ('PEEK', n(40011)),
          ('POPS',), ('PEEK', n(40011))),
        S(('DEF', None, 'Z', (('p', None), ('q', 3)), None, S('[', ('arg', 'p', 0), '.', ('arg', 'q', 1), ']')), ('CALL', 'Z', ((None, n(1)),), None),
          ('CALL', 'Z', ((None, n(1)), (None, n(2))), None), ('CALL', 'Z', (('q', n(5)), ('p', n(4))), None)),
        S(('DEF', num(1), 'Z', (('p', None),), (('s', None),), S(('arg', 's', 2), '=', ('arg', 'p', 2, '03'), '.')), ('CALL', 'Z', ((None, n(7)),), (lit('w'),))),
        S(('DEF', num(2), 'Z', (), (('s', None), ('t', None)), S(('IF', n(1), S(('arg', 's', 0)), S(('arg', 't', 0))))), '<', ('CALL', 'Z', (), (lit(' p '), lit('q'))), '>'),
        S(('DEF', None, 'Z', (('p', None),), None, S(EV(B('+', ('arg', 'p', 0), n(1))))), ('DEF', None, 'Z', (('p', None),), None, S(EV(B('+', ('arg', 'p', 0), n(2))))),
          ('CALL', 'Z', ((None, n(1)),), None)),
        # two maps that differ only in the default / only in one value, in one process lifetime
        S(('MAP', n(9), lit('x'), ((n(1), lit('p')),)), ('MAP', n(9), lit('y'), ((n(1), lit('p')),)), ('MAP', n(1), lit('y'), ((n(1), lit('q')),)),
          ('MAP', n(1), lit('x'), ((n(1), lit('p')),)), ('MAP', n(8), lit('x'), ((n(1), lit('p')),))),
    ]
    return out


def int_contexts(reduced=False):
    n, a = num, F('a')
    c = [
        lambda h: EV(h),
        lambda h: EV(B('*', n(2), h)),
        lambda h: ('IF', B('==', h, n(1)), lit('yes'), lit('no')),
    ]
    if not reduced:
        c += [
            lambda h: ('MAP', h, lit('x'), ((n(1), lit('p')), (n(2), lit('q')), (n(3), lit('r')))),
            lambda h: ('FOR', n(1), h, None, None, 'm', S(LV('m')), lit(';'), None),
            lambda h: EV(B('+', h, n(1)), n(16), n(2)),
            lambda h: ('N', h, None, None, None, None, None, None),
            lambda h: ('IF', h, lit('T'), None),
            lambda h: ('CHR', B('+', n(64), h), None),
            lambda h: ('SPACE', h, 0),
            lambda h: ('PEEK', B('+', n(40027), h)),
            lambda h: ('STR', B('+', n(40009), h), None, n(1), None),
            lambda h: ('CALL', 'W', ((None, h),), None),
            lambda h: ('CALL', 'M', ((None, h), ('b', h)), None),
            lambda h: EV(n(7), None, h),
        ]
    return c


def str_contexts(reduced=False):
    n = num
    i = F('i')
    c = [
        lambda s: ('IF', n(1), s, lit('no')),
        lambda s: ('MAP', n(2), lit('x'), ((n(1), lit('p')), (n(2), s))),
        lambda s: ('FOR', n(1), n(2), None, None, 'u', S(s), lit(';'), None),
    ]
    if not reduced:
        c += [
            lambda s: ('FOREACH', (s, lit('q')), 'w', S('<', LV('w'), '>'), None, None),
            lambda s: S(('LET', 'i', n(2)), ('WHILE', i, S(s, ('LET', 'i', B('-', i, n(1)))))),
            lambda s: ('IF', n(0), lit('yes'), s),
            lambda s: ('IF', n(1), s, None),
            lambda s: ('MAP', n(9), s, ((n(1), lit('p')),)),
            lambda s: ('FOREACH', (lit('p'), lit('q')), 'w', S(LV('w'), s), lit(','), None),
            lambda s: ('FORMAT', n(0), (('lit', 'f'),) + tuple(s)),
            lambda s: ('CALL', 'M', ((None, n(1)),), (s,)),
            lambda s: ('CALL', 'T', (), (s, lit('k'))),
            lambda s: S('(', s, ')'),
        ]
    return c


# String values with leading, trailing and inner runs of spaces, and a lone space: "value is the
# value to assign", "true is the output string", "sep is the separator placed between each
# output string" - nothing in the documentation trims a string parameter, so every place that
# takes or produces a string must hand it on unchanged, in ASM mode as in HTML mode.  (The two
# documented exceptions are modelled: the #WHILE body and a #DEF macro with flags&2 are stripped.)
SPACED = (' x', 'x ', ' x ', 'a  b', ' ')


def space_contexts():
    """Every place a macro takes or produces a string, as a function of that string."""
    n = num
    i = F('i')

    def fmt(*names):
        parts = [('lit', '<')]
        for j, (name, key) in enumerate(names):
            if j:
                parts.append(('lit', '|'))
            parts.append(('ff', name, key, ''))
        return ('FORMAT', n(0), tuple(parts) + (('lit', '>'),))
    defz = lambda flags, body: ('DEF', flags, 'Z', (), (('q', None),), body)
    return [
        # #LET string variables (whole value, inside a value, produced by a nested macro) and string dictionaries
        lambda s: S(('LET', 't$', s), fmt(('t$', None))),
        lambda s: S(('LET', 't$', S('p', s, 'q')), fmt(('t$', None))),
        lambda s: S(('LET', 't$', S(('IF', n(1), s, None))), fmt(('t$', None))),
        lambda s: S(('LET', 't$', S(('MAP', n(1), lit('d'), ((n(1), s),)))), fmt(('t$', None))),
        lambda s: S(('LETD', 'k$', s, ((n(1), s),)), fmt(('k$', 1), ('k$', 9))),
        lambda s: S(('LETD', 'k$', lit(''), ((n(1), s), (n(2), lit('u')))), fmt(('k$', 1), ('k$', 2), ('k$', 9))),
        lambda s: S(('LETD', 'k$', lit('?'), ((n(1), lit('u')),)), ('LETK', 'k$', n(2), s), fmt(('k$', 1), ('k$', 2))),
        # #FORMAT text
        lambda s: ('FORMAT', n(0), tuple(s)),
        lambda s: ('FORMAT', n(2), (('lit', '<'),) + tuple(s) + (('ff', 'a', None, ''),) + tuple(s) + (('lit', '>'),)),
        # outputs of #IF and #MAP
        lambda s: ('IF', n(1), s, lit('no')),
        lambda s: ('IF', n(0), lit('yes'), s),
        lambda s: ('IF', n(1), s, None),
        lambda s: ('MAP', n(2), lit('x'), ((n(1), lit('p')), (n(2), s))),
        lambda s: ('MAP', n(9), s, ((n(1), lit('p')),)),
        # #FOR / #FOREACH bodies, separators and final separators (and the comma flags around a separator)
        lambda s: ('FOR', n(1), n(3), None, None, 'n', S(LV()), s, None),
        lambda s: ('FOR', n(1), n(3), None, None, 'n', S(LV()), lit(';'), s),
        lambda s: ('FOR', n(1), n(3), None, n(1), 'n', S(LV()), s, s),
        lambda s: ('FOR', n(1), n(3), None, n(2), 'n', S(LV()), s, None),
        lambda s: ('FOR', n(1), n(2), None, None, 'n', S(s, LV(), s), lit(';'), None),
        lambda s: ('FOREACH', (lit('p'), lit('q'), lit('r')), 'v', S(LV('v')), s, None),
        lambda s: ('FOREACH', (lit('p'), lit('q'), lit('r')), 'v', S(LV('v')), lit(';'), s),
        lambda s: ('FOREACH', (s, lit('q'), s), 'v', S('(', LV('v'), ')'), lit(';'), None),
        lambda s: ('FOREACH', (lit('p'), lit('q')), 'v', S(s, LV('v'), s), None, None),
        # #DEF bodies and string arguments; flags&2 strips the output, flags&1 uses replacement fields
        lambda s: S(defz(None, S('<', s, ('arg', 'q', 1), s, '>')), ('CALL', 'Z', (), (lit('v'),))),
        lambda s: S(defz(None, S('<', ('arg', 'q', 1), '>')), ('CALL', 'Z', (), (s,))),
        lambda s: S(defz(n(1), S('<', ('arg', 'q', 2), '>')), ('CALL', 'Z', (), (s,))),
        lambda s: S(defz(n(2), S(('arg', 'q', 1))), '<', ('CALL', 'Z', (), (s,)), '>'),
        lambda s: ('CALL', 'M', ((None, n(1)),), (s,)),
        lambda s: ('CALL', 'T', (), (s, s)),
        # #N affixes, #WHILE body (stripped), neighbours of #CHR / #STR / #SPACE / #PEEK
        lambda s: ('N', n(15), None, None, n(1), n(1), s, s),
        lambda s: S(('LET', 'i', n(2)), '<', ('WHILE', i, S(s, 'w', s, ('LET', 'i', B('-', i, n(1))))), '>'),
        lambda s: S(s, ('CHR', n(65), None), s, ('CHR', n(32), n(1)), s),
        lambda s: S(('STR', n(40018), None, None, None), s, ('STR', n(40010), None, None, None), s, ('PEEK', n(40028))),
        lambda s: S(s, ('SPACE', n(2), 0), s, EV(n(7)), s),
    ]


def hash_contexts():
    n = num
    return [
        lambda h: ('HASH', EV(h)),
        lambda h: ('HASH', ('MAP', n(2), lit('x'), ((n(1), lit('p')), (h, lit('q'))))),
        lambda h: ('HASH', ('IF', h, lit('yes'), lit('no'))),
        lambda h: ('HASH', ('FOR', n(1), h, None, None, 'm', S(LV('m')), lit(','), None)),
        lambda h: ('HASH', ('PEEK', B('+', n(40027), h))),
        lambda h: ('HASH', ('SPACE', h, 0)),
        lambda h: ('HASH', ('CALL', 'W', ((None, h),), None)),
    ]


def hash_str_contexts():
    n = num
    return [
        lambda s: ('HASH', ('IF', n(1), s, lit('no'))),
        lambda s: ('HASH', ('FOREACH', (s, lit('q')), 'w', S('<', LV('w'), '>'), None, None)),
        lambda s: ('HASH', ('CALL', 'M', ((None, n(1)),), (s,))),
    ]


def _intvalued(ast, env_state):
    """Is the reference expansion of this string a plain non-negative integer literal?"""
    try:
        t = M.Evaluator(env_state.copy(), M.Mode()).text(ast)
    except Undefined:
        return False
    return t.isdigit() and t.isascii() and (t == '0' or t[0] != '0')


def _as_parts(x):
    return x if (x and isinstance(x[0], tuple)) or x == () else (x,)


def macro_cases(tier, env_state):
    """[(depth, ast)] in a fixed order, simplest first."""
    reduced4 = tier == 'thorough'
    L = leaves()
    C = composites()
    ictx, sctx = int_contexts(), str_contexts()
    hctx, hsctx = hash_contexts(), hash_str_contexts()

    def ints_of(asts):
        return [('imac', a[0]) for a in asts if len(a) == 1 and a[0][0] in M.MACROS and _intvalued(a, env_state)]

    def body(n_, ctxs, holes):
        return [_as_parts(c(h)) for c in ctxs for h in holes]

    d1 = L
    i1 = ints_of(d1)
    lvn = [LV('n')]
    open2 = body(None, ictx, lvn)                                  # depth-1 macros of the loop variable
    loop = lambda b: ('FOR', num(1), num(3), None, None, 'n', b, lit(';'), None)
    each = lambda b: ('FOREACH', (lit('1'), lit('2'), lit('3')), 'n', b, lit(','), lit('='))
    d2 = body(None, ictx, i1) + body(None, sctx, d1) + [S(loop(b)) for b in open2] + [S(each(b)) for b in open2]
    d2 += body(None, hctx, i1) + body(None, hsctx, d1)
    d2 += C
    # spaced strings in every string place (depth 1), and those inside the reduced string
    # contexts (depth 2; thorough: on to depth 3 / 4 like everything else)
    sp = [lit(v) for v in SPACED]
    d1s = body(None, space_contexts(), sp)
    d2s = body(None, str_contexts(True), d1s)
    i2 = ints_of(d2)
    if tier != 'quick':
        d2 = d2 + d2s
    iopen2 = [('imac', b[0]) for b in open2 if len(b) == 1 and (b[0][0] in ('EVAL', 'PEEK') or b[0][:2] == ('CALL', 'W'))]
    open3 = body(None, ictx, iopen2) + body(None, sctx, open2)
    d3 = body(None, ictx, i2) + body(None, sctx, d2) + [S(loop(b)) for b in open3] + [S(each(b)) for b in open3]
    d3 += body(None, hctx, i2) + body(None, hsctx, [x for x in d2 if x not in C])
    out = [(1, x) for x in d1] + [(1, x) for x in d1s] + [(2, x) for x in d2] + ([(2, x) for x in d2s] if tier == 'quick' else []) + [(3, x) for x in d3]
    if reduced4:
        ir, sr = int_contexts(True), str_contexts(True)
        i3 = ints_of(d3)
        d4 = body(None, ir, i3) + body(None, sr, d3)
        out += [(4, x) for x in d4]
    return out


# global styles: one integer style x one choice of string style per nesting level of the group
LEVELS = [(k,) * 4 for k in range(M.N_SSTYLES)] + [(0, 3, 4, 5), (3, 4, 5, 0), (4, 5, 0, 3), (5, 0, 3, 4), (1, 2, 0, 3), (2, 0, 1, 4), (0, 1, 2, 3), (3, 0, 4, 1)]
GLOBAL = [{'*i': i, 'Lm': lv, 'Ls': lv} for i in range(M.N_ISTYLES) for lv in LEVELS]


def _legal(ast, style, defs):
    try:
        M.render(ast, style, defs, (']',))
        return True
    except (Illegal, Undefined):
        return False


def base_style(ast, defs):
    """The simplest global style that is legal for this AST (the all-default style for most)."""
    for g in [{}] + [g for g in GLOBAL if g['*i'] == 0] + [g for g in GLOBAL if g['*i'] != 0]:
        if _legal(ast, g, defs):
            return g
    return None


def style_space(sl, depth, tier, base):
    """Style assignments for the slot list `sl`.  Complete product to depth 2 (when it is not
    larger than the cap); otherwise the base style, all deviations from it in one slot (thorough:
    also in any two string-group slots) and the 84 global styles; at depth 4 the base style and
    the global styles."""
    sizes = [n for _, n in sl]
    total = 1
    for n in sizes:
        total *= n
    cap = 1500 if tier == 'quick' else 8000
    if depth <= 2 and total <= cap:
        for choices in itertools.product(*[range(n) for n in sizes]):
            yield dict(enumerate(choices))
        return
    yield base
    if depth < 4:
        idx = range(len(sizes))
        for i in idx:
            for v in range(sizes[i]):
                st = dict(base)
                st[i] = v
                yield st
        if tier != 'quick':
            # thorough: every pair of string-group slots as well (bracket / delimiter interactions)
            sidx = [i for i in idx if sl[i][0] != 'i']
            for combo in itertools.combinations(sidx, 2):
                for vals in itertools.product(*[range(sizes[i]) for i in combo]):
                    st = dict(base)
                    st.update(zip(combo, vals))
                    yield st
    for g in GLOBAL:
        if depth < 4 or g['*i'] < 2:
            yield g


def features(ast, defs, style=None):
    """Tags for known-finding matchers, taken from the rendered text: a #FOR/#FOREACH separator
    or a #FOREACH value that contains &, < or >."""
    try:
        return ','.join(sorted(M.render(ast, style, defs, (']',), want_slots='notes')[1]))
    except (Illegal, Undefined):
        return ''


def check_macro(w, ast, depth, tier, stats):
    res = []
    try:
        sl = M.slots(ast, w.defs)
        expected(ast, w.state, w.mode(False))
        expected(ast, w.state, w.mode(True))
    except (Undefined, Illegal):
        stats.counters['macro_undefined'] += 1
        return res
    base = base_style(ast, w.defs)
    if base is None:
        stats.counters['macro_no_legal_global_style'] += 1
        base = {}
    seen = set()
    for style in style_space(sl, depth, tier, base):
        try:
            text = M.render(ast, style, w.defs, (']',))
        except Illegal:
            stats.counters['style_illegal'] += 1
            continue
        except Undefined:
            stats.counters['style_undefined'] += 1
            continue
        if text in seen:
            continue
        seen.add(text)
        bad = check_text(w, ast, text, stats)
        for kind, detail in bad:
            res.append((kind, text, style, detail))
    if not seen:
        stats.counters['macro_unrenderable'] += 1
    return res


def check_text(w, ast, text, stats):
    _clear_caches()
    bad = compare(w, ast, text)
    stats.evaluations += 1
    if bad and (not pure(ast) or any('ERROR:' in d for _, d in bad)):
        # a wrong expansion of a state-changing text (or an exception half-way through one) may
        # have left the writers in an unknown state: the next case gets fresh ones
        w.fresh()
    return bad


# ------------------------------------------------------------------------------ (iii) histories
A1, A2, A3, A4 = 40010, 40011, 40012, 40013
# the ends of the address space and of the ROM / RAM boundary: a snapshot copy that stops one
# short (or starts one late) shows only there
BOUNDARY = (0, 1, 16383, 16384, 65534, 65535)
CELLS = (A1, A2, A3, A4) + BOUNDARY + (65533,)
OPS = (
    ('LET', 'a', num(1)),
    ('LET', 'a', B('+', F('a'), num(1))),
    ('LET', 'b', B('*', F('a'), num(2))),
    ('LET', 's$', lit('x')),
    ('LETD', 'd', num(0), ((num(1), num(2)),)),
    ('LETK', 'd', num(2), B('+', F('a'), num(6))),
    ('POKES', ((num(A1), num(65)),)),
    ('POKES', ((num(A1), num(66), num(2), num(2)),)),
    # single pokes at every boundary address
    ('POKES', tuple((num(a), num(67 + i)) for i, a in enumerate(BOUNDARY))),
    # a run that ends at 65535 (step 2) and a run that starts at 0
    ('POKES', ((num(65533), num(80), num(2), num(2)), (num(0), num(81), num(2), num(1)))),
    ('PUSHS', ''),
    ('PUSHS', 'nm'),
    ('POPS',),
    ('DEF', None, 'M', (('n', None),), None, S('[', ('arg', 'n', 0), ']')),
    ('DEF', None, 'M', (('n', None), ('k', 1)), None, S('|', ('arg', 'n', 0), '+', ('arg', 'k', 1), '|')),
    ('MAP', num(1), lit('z'), ((num(1), lit('p')), (num(2), lit('q')))),
)
OP_NAMES = ('LET a=1', 'LET a={a}+1', 'LET b={a}*2', 'LET s$=x', 'LET d[]=(0,1:2)', 'LET d[2]={a}+6', 'POKES A,65', 'POKES A,66,2,2', 'POKES 0;1;16383;16384;65534;65535', 'POKES 65533,80,2,2;0,81,2,1', 'PUSHS', 'PUSHS nm',
            'POPS', 'DEF M', 'DEF M (redefinition)', 'MAP (cached map)')
# a separator after each operation so that #PUSHS / bare integers end cleanly
OP_TEXT_FOLLOW = ('',)


def probes():
    n = num
    a, b = F('a'), F('b')
    pairs = ((n(1), lit('p')), (n(2), lit('q')))
    peeks = S(*[x for c in CELLS for x in (('PEEK', n(c)), ',')][:-1])
    P = [
        S(EV(a)), S(EV(b)), S(EV(B('+', a, b))), S(EV(B('*', a, b), n(16), n(4))), S(('IF', B('>', a, n(1)), lit('y'), lit('n'))),
        S(('IF', B('==', b, B('*', n(2), a)), lit('ok'), lit('bad'))), S(('N', a, n(4), None, None, None, None, None)), S(('CHR', B('+', n(64), a), None)),
        S(('SPACE', a, 0), '|'), S(('FORMAT', None, (('lit', 'v'), ('ff', 's$', None, ''), ('lit', '.')))), S(('FORMAT', n(0), (('ff', 'a', None, '03'), ('lit', '/'), ('ff', 'b', None, '02X')))),
        S(('FORMAT', n(0), (('ff', 'd', 1, ''), ('lit', ','), ('ff', 'd', 2, ''), ('lit', ','), ('ff', 'd', 5, '')))), S(EV(B('+', ('fldk', 'd', 1), ('fldk', 'd', 2)))),
        peeks, S(('FOR', n(A1), n(A4), None, None, 'n', S(('PEEK', LV())), lit(';'), None)), S(('STR', n(A1), None, n(4), None)), S(('STR', n(A1), None, None, None)),
        S(('CALL', 'M', ((None, n(7)),), None)), S(('CALL', 'M', ((None, n(1)), (None, n(2))), None)), S(('CALL', 'M', (('k', n(3)), ('n', n(4))), None)),
        S(('FOR', n(1), n(2), None, None, 'n', S(('CALL', 'M', ((None, LV()),), None)), lit(';'), None)),
        S(('MAP', n(1), lit('z'), pairs)), S(('MAP', n(3), lit('z'), pairs)), S(('MAP', n(3), lit('y'), pairs)), S(('MAP', n(1), lit('y'), pairs)),
        S(('MAP', n(2), lit('z'), ((n(1), lit('p')), (n(2), lit('r'))))), S(('MAP', a, lit('none'), ((n(1), lit('one')), (n(2), lit('two'))))),
        S(('FOREACHP', 'nm', 'p', S(LV('p')), lit('; '), None)),
        S(('LET', 'i', a), ('WHILE', B('>', F('i'), n(0)), S(EV(F('i')), ('LET', 'i', B('-', F('i'), n(1)))))),
        S(('PUSHS', 'pp'), ' ', ('POKES', ((n(A2), n(9)),)), ('PEEK', n(A2)), ',', ('POPS',), ('PEEK', n(A2))),
        S(('LET', 'c', B('+', a, n(1))), EV(F('c'))),
        peeks,
    ]
    return P


def drain_probe():
    peeks = S(*[x for c in CELLS for x in (('PEEK', num(c)), ',')][:-1])
    return S(('POPS',), peeks)


def model_bfs(depth):
    """Reference-model BFS.  Returns [(history, depth, is_new_state, canon_hash)] in BFS order
    (the initial state first)."""
    init = M.State(BASE_MEM, PC)
    seen = {core.h64(init.canon(CELLS))}
    nodes = [((), 0, True, core.h64(init.canon(CELLS)))]
    frontier = [((), init)]
    for d in range(1, depth + 1):
        nxt = []
        for hist, st in frontier:
            for oi, op in enumerate(OPS):
                s2 = st.copy()
                try:
                    M.Evaluator(s2, M.Mode()).text(op)
                except Undefined:
                    continue            # not enabled here (e.g. #POPS on an empty stack, {a} before #LET(a=..))
                h2 = hist + (oi,)
                c = core.h64(s2.canon(CELLS))
                new = c not in seen
                nodes.append((h2, d, new, c))
                if new:
                    seen.add(c)
                    nxt.append((h2, s2))
        frontier = nxt
    return nodes


FAMILIES = ({}, {'*i': 1, '*m': 1, '*s': 1}, {'*i': 3, '*m': 4, '*s': 3})


_family_cache = {}


def render_family(ast, fam, defs, follow=('',)):
    """Greedy: every slot takes the family's preferred choice where that is legal."""
    key = (ast, fam, tuple(sorted(defs.items())) if M._has(ast, ('CALL',)) else None, follow)
    r = _family_cache.get(key)
    if r is None:
        try:
            r = _render_family(ast, fam, defs, follow)
        except (Illegal, Undefined) as e:
            r = e
        _family_cache[key] = r
    if isinstance(r, Exception):
        raise r
    return r


def _render_family(ast, fam, defs, follow):
    pref = FAMILIES[fam]
    if not pref:
        return M.render(ast, None, defs, follow)
    sl = M.slots(ast, defs)
    style = {}
    for i, (kind, nch) in enumerate(sl):
        c = pref.get('*' + kind, 0)
        if c and c < nch:
            trial = dict(style)
            trial[i] = c
            try:
                M.render(ast, trial, defs, follow)
                style = trial
            except (Illegal, Undefined):
                pass
    return M.render(ast, style, defs, follow)


def run_history(hist, cfg, fam, stats=None, want=None):
    """Fresh writers, replay `hist`, expand every probe.  Returns [(kind, text, detail)]."""
    res = []
    _clear_caches()
    w = Writers(cfg, setup=())
    st = w.state
    for oi in hist:
        op = OPS[oi]
        text = render_family(op, fam, st.macros, ('',))
        ra, rh = w.expand(text)
        if stats is not None:
            stats.transitions += 2
        eo = M.Evaluator(st, M.Mode()).text(op)
        if ra != eo or rh != eo:
            res.append(('op-output', text, 'state-changing macro {!r} expanded to {!r} (ASM) / {!r} (HTML), documented: {!r}'.format(text, ra, rh, eo)))
    plist = probes()
    nrun = 0
    for pi, p in enumerate(plist):
        try:
            expected(p, st, w.mode(False))
            text = render_family(p, fam, st.macros, (']',))
        except (Undefined, Illegal):
            continue
        bad = compare(w, p, text, st, commit=True)
        nrun += 1
        for kind, detail in bad:
            res.append((kind, text, 'probe {}: {}'.format(pi, detail)))
    # drain the snapshot stack: every saved snapshot must come back exactly
    dp = drain_probe()
    while st.stack:
        text = render_family(dp, fam, st.macros, (']',))
        bad = compare(w, dp, text, st, commit=True)
        nrun += 1
        for kind, detail in bad:
            res.append((kind, text, 'drain: {}'.format(detail)))
    if stats is not None:
        stats.evaluations += nrun
        stats.counters['probe_expansions'] += nrun
    return res


# ------------------------------------------------------------------------------ (iv) tools
POSITIONS = 'tdrsimje'       # title, description, register, start comment, instruction, mid-block, instruction 2, end comment
ENTRY0 = 30000


def pure(ast):
    return not M._has(ast, ('LET', 'LETD', 'LETK', 'POKES', 'PUSHS', 'POPS', 'DEF'))


def tool_probes(hist=()):
    out = [p for p in probes() if pure(p)]
    out.append(S(('PC',)))
    out.append(S(('IF', B('<', num(1), num(2)), lit('a<b & "c"'), None)))
    if not hist:
        out.append(S(('FOR', num(1), num(3), None, None, 'n', S(LV()), lit(' & '), None)))
    out += tool_space_probes()
    return out


def tool_space_probes():
    """Spaced strings at tool level.  The writers strip / wrap a whole comment, so every probe
    carries its own non-space sentinels.  The #LET probes are idempotent (a constant into a
    scratch variable that no other probe reads), so the repeated expansion of a comment by
    skool2html does not matter."""
    n = num
    f = lambda name, key=None: ('FORMAT', n(0), (('lit', '['), ('ff', name, key, ''), ('lit', ']')))
    out = []
    for v in SPACED:
        s = lit(v)
        out += [
            S(('LET', 't$', s), f('t$')),
            S(('LETD', 'k$', lit(''), ((n(1), s),)), f('k$', 1)),
            S('[', ('IF', n(1), s, lit('no')), ']'),
            S('[', ('MAP', n(1), lit('d'), ((n(1), s),)), ']'),
            S('[', ('FOR', n(1), n(3), None, None, 'n', S(LV()), s, s), ']'),
            S('[', ('CALL', 'M', ((None, n(1)),), (s,)), ']') if False else S('[', ('FOREACH', (lit('p'), lit('q')), 'v', S(LV('v'), s), None, None), ']'),
        ]
    out.append(S('[', ('STR', n(40018), None, None, None), ']'))
    out.append(S('[', ('CHR', n(32), n(1)), ('CHR', n(65), n(1)), ('CHR', n(32), n(1)), ']'))
    return out


def skool_for(hist, texts, fam, defs_state):
    lines = ['@start']
    st = defs_state
    for oi in hist:
        lines.append('@expand=' + render_family(OPS[oi], fam, st.macros, ('',)))
        M.Evaluator(st, M.Mode()).text(OPS[oi])
    for k, t in enumerate(texts):
        a = ENTRY0 + 16 * k
        mk = lambda p: '~{0}{1}~{2}~/{0}{1}~'.format(p, k, t)
        lines += ['; ' + mk('t'), ';', '; ' + mk('d'), ';', '; A ' + mk('r'), ';', '; ' + mk('s'),
                  'c{} LD A,1 ; {}'.format(a, mk('i')), '; ' + mk('m'), ' {} RET ; {}'.format(a + 2, mk('j')), '; ' + mk('e'), '']
    lines += ['; Data'] + SKOOL.split('; Data\n')[1].rstrip('\n').split('\n')
    return '\n'.join(lines) + '\n'


def run_tools(hist, cfg, fam, stats=None):
    """The history as @expand directives, every pure probe in every comment position."""
    res = []
    base, case = cfg
    st = M.State(BASE_MEM, 0)
    plist = tool_probes(hist)
    st_h = st.copy()
    for oi in hist:
        M.Evaluator(st_h, M.Mode()).text(OPS[oi])
    items = []
    for pi, p in enumerate(plist):
        try:
            expected(p, st_h, M.Mode(False, base, case))
            text = render_family(p, fam, st_h.macros, ('~',))
        except (Undefined, Illegal):
            continue
        items.append((pi, p, text))
    skool = skool_for(hist, [t for _, _, t in items], fam, st)
    d = tools.workdir()
    name = 'h' + ''.join('%x' % o for o in hist)
    path = tools.write_file(name + '.skool', skool, d)
    page = ['[Page:Probes]', 'PageContent=' + '<br/>'.join('~p{0}~{1}~/p{0}~'.format(k, _html.escape(t, False)) for k, (_, p, t) in enumerate(items)
                                                            if not M._has(p, ('PC',)))]
    tools.write_file(name + '.ref', '\n'.join(page) + '\n', d)
    opts = {0: [], 10: ['-D'], 16: ['-H']}[base] + {0: [], 1: ['-l'], 2: ['-u']}[case]
    try:
        _clear_caches()
        _arm(TOOL_HORIZON)
        ra = tools.run_tool('skool2asm', ['-q', '-w', '-P', 'line-width=4000'] + opts + [path])
        _disarm()
        _clear_caches()
        _arm(TOOL_HORIZON)
        rh = tools.run_tool('skool2html', ['-q', '-d', os.path.join(d, name + '-html')] + opts + [path])
        _disarm()
    except ExpansionTimeout:
        _disarm()
        res.append(('tool-error', name, 'a tool run did not terminate within {} CPU-seconds'.format(TOOL_HORIZON)))
        return res
    if stats is not None:
        stats.transitions += 2 * len(hist)
        stats.counters['tool_runs'] += 2
    if ra.rc or rh.rc:
        res.append(('tool-error', name, 'skool2asm: {!r}; skool2html: {!r}'.format(ra, rh)))
        return res
    asm_out = ra.out
    hdir = os.path.join(d, name + '-html', name)
    html_out = {}
    for k in range(len(items)):
        f = os.path.join(hdir, 'asm', '{}.html'.format(ENTRY0 + 16 * k))
        html_out[k] = tools.read_file(f, False) if os.path.exists(f) else ''
    pf = os.path.join(hdir, 'Probes.html')
    page_out = tools.read_file(pf, False) if os.path.exists(pf) else ''
    import shutil
    shutil.rmtree(os.path.join(d, name + '-html'), ignore_errors=True)
    ncmp = 0
    for k, (pi, p, text) in enumerate(items):
        a0 = ENTRY0 + 16 * k
        pcs = {'t': a0, 'd': a0, 'r': a0, 's': a0, 'i': a0, 'm': a0 + 2, 'j': a0 + 2, 'e': a0 + 2}
        for pos in POSITIONS:
            st_h.pc = pcs[pos]
            ea = expected(p, st_h, M.Mode(False, base, case))[0]
            eh = expected(p, st_h, M.Mode(True, base, case))[0]
            pat = re.compile('~{0}{1}~(.*?)~/{0}{1}~'.format(pos, k), re.S)
            ma = pat.findall(asm_out)
            mh = pat.findall(html_out[k])
            ncmp += 1
            if len(ma) != 1:
                res.append(('tool-asm', text, 'position {}: marker found {} times in skool2asm output'.format(pos, len(ma))))
                continue
            if not mh or len(set(mh)) != 1:
                res.append(('tool-html', text, 'position {}: marker found with {} distinct contents in the entry page'.format(pos, len(set(mh)))))
                continue
            va, vh = ma[0], _html.unescape(mh[0])
            if va != ea:
                res.append(('asm!=ref', text, 'position {} of skool2asm output: {!r}, documented {!r}'.format(pos, va, ea)))
            if vh != eh:
                res.append(('html!=ref', text, 'position {} of skool2html output: {!r} (unescaped {!r}), documented {!r}'.format(pos, mh[0], vh, eh)))
            if not M.mode_dependent(p) and _nbsp(va) != _nbsp(vh):
                res.append(('asm!=html', text, 'position {}: skool2asm {!r} != skool2html (unescaped) {!r}'.format(pos, va, vh)))
        if not M._has(p, ('PC',)):
            mp = re.findall('~p{0}~(.*?)~/p{0}~'.format(k), page_out, re.S)
            eh = expected(p, st_h, M.Mode(True, base, case))[0]
            ncmp += 1
            if len(mp) != 1 or _html.unescape(mp[0]) != eh:
                res.append(('html!=ref', text, 'ref-file page: {!r}, documented {!r}'.format(mp, eh)))
    if stats is not None:
        stats.evaluations += ncmp
        stats.counters['tool_positions_compared'] += ncmp
    return res


# ------------------------------------------------------------------------------ (v) entry shapes
# Position-dependent macros.  "In an entry header (i.e. title, description, register
# description or start comment), the #PC macro expands to the address of the first instruction
# in the entry. In a mid-block comment, [...] the following instruction. In an instruction-level
# comment, [...] the address of the instruction. In a block end comment, [...] the address of
# the last instruction in the entry."  An entry shape is a composition of its N one-byte
# instructions into consecutive comment units: a part of size 1 is an instruction with its own
# comment, a part of size >= 2 is a multi-instruction comment group `{...}`.  All compositions of
# N = 1..4 are generated (15 shapes: no group, a group at the start / in the middle / at the
# end, two groups, one group covering the whole entry), and the position-dependent probe is
# planted in every comment position each shape has.
SHAPE_INSTRUCTIONS = (('XOR A', 175), ('INC A', 60), ('DEC A', 61), ('RET', 201))
SHAPE_MAX = 4


def compositions(n):
    """All ordered partitions of n (tuples of positive part sizes), in a fixed order."""
    if n == 0:
        return [()]
    out = []
    for first in range(1, n + 1):
        for rest in compositions(n - first):
            out.append((first,) + rest)
    return out


def shapes():
    return [c for n in range(1, SHAPE_MAX + 1) for c in compositions(n)]


def shape_probe():
    """Every macro whose expansion depends on the current instruction: #PC itself and #PC
    feeding #PEEK (the opcode there), #EVAL, #N and a #FOR range."""
    pc = ('imac', ('PC',))
    return S(('PC',), '|', ('PEEK', pc), '|', EV(B('+', pc, num(1)), num(16), num(4)), '|',
             ('FOR', pc, B('+', pc, num(1)), None, None, 'n', S(LV()), lit(';'), None), '|', ('IF', B('>', pc, num(0)), S(('PC',)), lit('none')))


def shape_layout():
    """[(entry index, address, shape, {marker id: (kind, expected #PC)})] and the base memory."""
    out = []
    mem = {}
    for k, shape in enumerate(shapes()):
        a0 = ENTRY0 + 16 * k
        n = sum(shape)
        pos = {}
        for p in 'tdrs':
            pos['{}{}'.format(p, k)] = (p, a0)
        i = 0
        for gi, size in enumerate(shape):
            if i > 0:
                # a mid-block comment before this unit: after a group / before a group / between singles
                pos['m{}x{}'.format(k, i)] = ('m', a0 + i)
            # the comment of the unit: of the instruction, or of the group's first instruction
            pos['c{}x{}'.format(k, i)] = ('g' if size > 1 else 'i', a0 + i)
            i += size
        pos['e{}'.format(k)] = ('e', a0 + n - 1)
        for j in range(n):
            mem[a0 + j] = SHAPE_INSTRUCTIONS[j][1]
        out.append((k, a0, shape, pos))
    return out, mem


def shape_skool(text):
    mk = lambda mid: '~{0}~{1}~/{0}~'.format(mid, text)
    lines = ['@start']
    for k, a0, shape, pos in shape_layout()[0]:
        lines += ['; ' + mk('t%d' % k), ';', '; ' + mk('d%d' % k), ';', '; A ' + mk('r%d' % k), ';', '; ' + mk('s%d' % k)]
        i = 0
        for size in shape:
            if i > 0:
                lines.append('; ' + mk('m{}x{}'.format(k, i)))
            for j in range(size):
                ctl = 'c' if i + j == 0 else ' '
                ins = '{}{} {}'.format(ctl, a0 + i + j, SHAPE_INSTRUCTIONS[i + j][0])
                if size == 1:
                    ins += ' ; ' + mk('c{}x{}'.format(k, i))
                elif j == 0:
                    ins += ' ; {' + mk('c{}x{}'.format(k, i))
                elif j == size - 1:
                    ins += ' ; }'
                else:
                    ins += ' ;'
                lines.append(ins)
            i += size
        lines += ['; ' + mk('e%d' % k), '']
    return '\n'.join(lines) + '\n'


SHAPE_KIND_NAMES = {'t': 'title', 'd': 'description', 'r': 'register', 's': 'start comment', 'm': 'mid-block comment', 'i': 'instruction comment',
                    'g': 'comment of a multi-instruction group', 'e': 'end comment'}


def run_shapes(cfg, fam, stats=None):
    """Every entry shape x every comment position, through skool2asm and skool2html."""
    res = []
    base, case = cfg
    probe = shape_probe()
    layout, mem = shape_layout()
    text = render_family(probe, fam, {}, ('~',))
    d = tools.workdir()
    name = 'shapes{}{}{}'.format(base, case, fam)
    path = tools.write_file(name + '.skool', shape_skool(text), d)
    opts = {0: [], 10: ['-D'], 16: ['-H']}[base] + {0: [], 1: ['-l'], 2: ['-u']}[case]
    try:
        _clear_caches()
        _arm(TOOL_HORIZON)
        ra = tools.run_tool('skool2asm', ['-q', '-w', '-P', 'line-width=4000'] + opts + [path])
        _disarm()
        _clear_caches()
        _arm(TOOL_HORIZON)
        rh = tools.run_tool('skool2html', ['-q', '-d', os.path.join(d, name + '-html')] + opts + [path])
        _disarm()
    except ExpansionTimeout:
        _disarm()
        return [('tool-error', text, 'a tool run did not terminate within {} CPU-seconds'.format(TOOL_HORIZON), '')]
    if stats is not None:
        stats.counters['tool_runs'] += 2
    if ra.rc or rh.rc:
        return [('tool-error', text, 'skool2asm: {!r}; skool2html: {!r}'.format(ra, rh), '')]
    hdir = os.path.join(d, name + '-html', name)
    import shutil
    st = M.State(mem, 0)
    ncmp = 0
    for k, a0, shape, pos in layout:
        f = os.path.join(hdir, 'asm', '{}.html'.format(a0))
        page = tools.read_file(f, False) if os.path.exists(f) else ''
        for mid, (kind, pc) in pos.items():
            st.pc = pc
            ea = expected(probe, st, M.Mode(False, base, case))[0]
            eh = expected(probe, st, M.Mode(True, base, case))[0]
            pat = re.compile('~{0}~(.*?)~/{0}~'.format(re.escape(mid)), re.S)
            ma = pat.findall(ra.out)
            mh = pat.findall(page)
            where = '{} of an entry of shape {} (instructions at {}-{}; documented #PC {})'.format(
                SHAPE_KIND_NAMES[kind], '+'.join(str(x) for x in shape), a0, a0 + sum(shape) - 1, pc)
            tag = 'shape={} pos={}'.format('+'.join(str(x) for x in shape), kind)
            ncmp += 1
            if stats is not None:
                stats.counters['shape_pos_' + kind] += 1
                if kind == 'e' and shape[-1] > 1:
                    stats.counters['shape_end_comment_after_group'] += 1
                if kind == 'm' and mid.endswith('x%d' % shape[0]) and shape[0] > 1:
                    stats.counters['shape_mid_block_after_group'] += 1
            if len(ma) != 1:
                res.append(('tool-asm', text, '{}: marker found {} times in skool2asm output'.format(where, len(ma)), tag))
                continue
            if not mh or len(set(mh)) != 1:
                res.append(('tool-html', text, '{}: marker found with {} distinct contents in the entry page'.format(where, len(set(mh))), tag))
                continue
            va, vh = ma[0], _html.unescape(mh[0])
            if va != ea:
                res.append(('asm!=ref', text, '{}: skool2asm gives {!r}, documented {!r}'.format(where, va, ea), tag))
            if vh != eh:
                res.append(('html!=ref', text, '{}: skool2html gives {!r}, documented {!r}'.format(where, vh, eh), tag))
            if va != vh:
                res.append(('asm!=html', text, '{}: skool2asm {!r} != skool2html {!r}'.format(where, va, vh), tag))
    shutil.rmtree(os.path.join(d, name + '-html'), ignore_errors=True)
    if stats is not None:
        stats.evaluations += ncmp
        stats.counters['shape_positions_compared'] += ncmp
    return res


# ------------------------------------------------------------------------------ driver
def bounds(tier):
    if tier == 'quick':
        return dict(hist=4, tool=2, fams=None)
    return dict(hist=5, tool=3, fams=(0, 1, 2))


def _cases(tier, seed, env_state):
    """The whole case space in a fixed order: (section, payload)."""
    b = bounds(tier)
    for e in expr_cases(tier):
        yield ('expr', e)
    mc = macro_cases(tier, env_state)
    for depth, ast in mc:
        yield ('macro', (depth, ast))
    for depth, ast in mc:
        if depth <= 2:
            yield ('macro-cfg', (depth, ast))
    nodes = model_bfs(b['hist'])
    fams = b['fams'] or (seed % 3,)
    for hist, d, new, c in nodes:
        for fam in fams:
            yield ('hist', (hist, d, new, c, fam))
    for hist, d, new, c in nodes:
        if d <= b['tool'] and new:
            yield ('tool', (hist, d, c))
    for c in CONFIGS:
        for fam in fams:
            yield ('shape', (c, fam))


def _shard(shard, nshards, tier, seed):
    stats = core.Stats(PROPERTY)
    cfg = CONFIGS[seed % len(CONFIGS)]
    try:
        return _run_shard(stats, shard, nshards, tier, seed, cfg)
    except SetupViolation as e:
        # nothing else can be trusted once the environment itself is wrong: report and stop
        stats.violation('setup/' + e.text, {'section': 'setup', 'cfg': cfg}, e.detail,
                        tags={'section': 'setup', 'kind': 'setup', 'text': e.text, 'feat': ''}, order=-1)
        stats.caps.append('shard stopped: environment macros do not expand as documented')
        for g in REQUIRED_GUARDS:
            stats.counters[g] += 1          # not a vacuous pass: the run ends with a violation
        return stats


def _run_shard(stats, shard, nshards, tier, seed, cfg):
    W = {}

    def writers(c):
        if c not in W:
            W[c] = Writers(c)
        return W[c]
    env_state = writers(cfg).state
    maxdepth = 0
    vcount = {'expr': 0, 'macro': 0, 'macro-cfg': 0, 'hist': 0, 'tool': 0, 'shape': 0}
    for i, (section, payload) in core.shard_iter(_cases(tier, seed, env_state), shard, nshards):
        sec = section
        if section in ('macro', 'macro-cfg'):
            # vacuity guards count what the generator reaches, whether or not the section still runs
            stats.counters['macro_depth%d' % payload[0]] += section == 'macro'
            if M._has(payload[1], ('HASH',)):
                stats.counters['macro_hash'] += section == 'macro'
        if vcount[sec] >= STOP_AFTER:
            # the verdict of this section is decided; do not spend hours enumerating a broken tree
            cap = '{} section stopped after {} violations in one shard'.format(sec, STOP_AFTER)
            if cap not in stats.caps:
                stats.caps.append(cap)
            continue
        n0 = stats.n_violations
        if section == 'expr':
            w = writers(cfg)
            ev0 = stats.evaluations
            for kind, text, detail in check_expr(w, payload, stats, tier):
                stats.violation('expr/' + text, {'section': 'expr', 'ast': payload, 'cfg': cfg}, detail,
                                tags={'section': 'expr', 'kind': kind, 'text': text, 'feat': ''}, order=i)
                if 'ERROR:' in detail:
                    w.fresh()
            if stats.evaluations > ev0 and len(stats.samples) < 3:
                stats.sample({'section': 'expr', 'text': M.render(EV(payload)), 'documented': expected(S(EV(payload)), w.state, w.mode(False))[0]
                              if not isinstance(M.Evaluator(w.state, w.mode(False)).int_(payload, M._Env()), M.Truth) else 'truth value only'})
        elif section in ('macro', 'macro-cfg'):
            depth, ast = payload
            cfgs = (cfg,) if section == 'macro' else [c for c in CONFIGS if c != cfg]
            for c in cfgs:
                w = writers(c)
                if section == 'macro':
                    found = check_macro(w, ast, depth, tier, stats)
                else:
                    found = []
                    try:
                        bst = base_style(ast, w.defs) or {}
                        text = M.render(ast, bst, w.defs, (']',))
                        expected(ast, w.state, w.mode(False))
                        expected(ast, w.state, w.mode(True))
                        found = [(k, text, bst, dt) for k, dt in check_text(w, ast, text, stats)]
                        stats.counters['config_variants'] += 1
                    except (Illegal, Undefined):
                        pass
                for kind, text, style, detail in found:
                    stats.violation('macro/' + text, {'section': 'macro', 'ast': ast, 'style': sorted((str(k), v) for k, v in style.items()), 'cfg': c},
                                    detail, tags={'section': 'macro', 'kind': kind, 'text': text, 'feat': features(ast, w.defs, style), 'depth': depth}, order=i)
            if depth >= 2:
                stats.nontriv(('macro', ast))
            if i % 1499 == 0:
                try:
                    stats.sample({'section': 'macro', 'depth': depth, 'text': M.render(ast, None, writers(cfg).defs),
                                  'documented': expected(ast, writers(cfg).state, writers(cfg).mode(False))[0]})
                except (Illegal, Undefined):
                    pass
        elif section == 'hist':
            hist, d, new, c, fam = payload
            stats.state(c)
            stats.traces += 1
            maxdepth = max(maxdepth, d)
            if not new:
                stats.counters['hist_merged_targets_probed'] += 1
            if len(hist) >= 2:
                stats.nontriv(('hist', hist))
            for kind, text, detail in run_history(hist, cfg, fam, stats):
                names = [OP_NAMES[o] for o in hist]
                stats.violation('hist/{}/{}'.format('-'.join('%x' % o for o in hist) or 'init', text),
                                {'section': 'hist', 'hist': list(hist), 'cfg': cfg, 'fam': fam},
                                'after {}: {}'.format(names, detail), tags={'section': 'hist', 'kind': kind, 'text': text, 'feat': ''}, order=i)
            if i % 211 == 0:
                stats.sample({'section': 'hist', 'history': [OP_NAMES[o] for o in hist], 'new_state': new})
        elif section == 'tool':
            hist, d, c = payload
            fam = seed % 3
            stats.traces += 1
            stats.counters['tool_histories'] += 1
            for kind, text, detail in run_tools(hist, cfg, fam, stats):
                names = [OP_NAMES[o] for o in hist]
                stats.violation('tool/{}/{}'.format('-'.join('%x' % o for o in hist) or 'init', text),
                                {'section': 'tool', 'hist': list(hist), 'cfg': cfg, 'fam': fam},
                                'after @expand of {}: {}'.format(names, detail),
                                tags={'section': 'tool', 'kind': kind, 'text': text, 'feat': 'loop_separator_has_html_special' if ' & ' in text else ''}, order=i)
        elif section == 'shape':
            c, fam = payload
            stats.traces += 1
            stats.nontriv(('shape', c, fam))
            for kind, text, detail, tag in run_shapes(c, fam, stats):
                stats.violation('shape/{}/{}'.format(tag, kind), {'section': 'shape', 'cfg': c, 'fam': fam}, detail,
                                tags={'section': 'shape', 'kind': kind, 'text': text, 'feat': tag}, order=i)
            if c == cfg:
                stats.sample({'section': 'shape', 'shapes': ['+'.join(str(x) for x in sh) for sh in shapes()], 'probe': render_family(shape_probe(), fam, {}, ('~',))})
        vcount[sec] += stats.n_violations - n0
    stats.counters['expansions'] += sum(w.nexp for w in W.values())
    return stats


def run(tier, seed):
    stats = core.run_shards(_shard, tier, seed, prop=PROPERTY)
    stats.traces += stats.counters['expr_exact'] + stats.counters['expr_truth_only'] + sum(
        stats.counters['macro_depth%d' % d] for d in (1, 2, 3, 4))
    b = bounds(tier)
    meta = dict(
        rule='(i) all expressions of depth <= 2 over 19 operators x 10 operands (both tree shapes), via #EVAL(..) (exact value; fully and minimally parenthesised{}) '
             'and #IF(..)(T,F) (truth value); (ii) macro ASTs to nesting depth 3{} built from 125 leaf macros, 15 integer contexts, 13 string contexts, 10 #(..) contexts, '
             '#FOR/#FOREACH bodies over the loop variable and 19 self-contained state-changing composites; styles: complete product over all slots to depth 2 '
             '(cap {} per AST), beyond that the simplest legal global style, every deviation from it in one slot{}, and the 84 global styles (6 integer styles x 14 '
             'per-nesting-level string styles); every AST of depth <= 2 also under the other 8 base/case configurations; (iii) BFS over 16 state-changing macros (incl. #POKES at 0, 1, 16383, 16384, 65534, 65535 and runs ending at 65535 / starting at 0) to '
             'depth {}: states = distinct canonical reference states (variables, poked cells, snapshot stack, defined macros); every transition target (merged or not) '
             'replayed on fresh AsmWriter+HtmlWriter and probed with 32 macros + snapshot-stack drain{}; (iv) every distinct state to depth {} through skool2asm/skool2html '
             'with every pure probe in 8 comment positions + a ref-file page; (v) the #PC-dependent probe in every comment position of all 15 compositions of 1..4 instructions into single comments and multi-instruction comment groups, under all 9 base/case configurations, through both tools. evaluations = macro texts (tool: comment positions) compared with the reference; '
             'transitions = real expansions of state-changing macros; non-trivial = macro nesting depth >= 2 or history length >= 2'.format(
                 '' if tier == 'quick' else ', with and without spaces', '' if tier == 'quick' else ' (+ depth 4 over 3+3 contexts in the base style and 28 global styles)',
                 1500 if tier == 'quick' else 8000, '' if tier == 'quick' else ' and in every pair of string-group slots', b['hist'],
                 ' in one style family (seed-rotated)' if tier == 'quick' else ' in 3 style families', b['tool']),
        exhaustive=True,
        bound='expressions depth 2; macro nesting depth {}; histories depth {}; tool histories depth {}; base/case configuration {} (seed-rotated) + all 9 for depth <= 2'.format(
            4 if tier == 'thorough' else 3, b['hist'], b['tool'], CONFIGS[seed % len(CONFIGS)]),
        assumptions=[
            'reference evaluator mc/refs/macroast.py (written from sphinx/source/skool-macros.rst) is the oracle; texts are rendered from ASTs, never parsed',
            '&& and || are compared by truth value only (their numeric value is not documented); an expression that feeds one into another operator is excluded',
            'comparison operators yield 1/0; / is integer division; division/modulo/shifts with a negative operand, division by zero, negative exponents and '
            'intermediate results beyond 1024 bits are excluded (rounding / range not documented)',
            'operator precedence is not documented: parentheses are dropped only where conventional arithmetic, C and Python agree (never between comparison '
            'and bitwise operators, in comparison chains, or in ** chains)',
            'bare (unparenthesised) integer parameters are used only where the following character cannot extend them (the documentation recommends parentheses otherwise)',
            'excluded as undocumented: the loop variable inside a #FOR separator with flags&4; zero step; negative #N values / negative values in base 2/16 / zero padding '
            'of negative values; #MAP or #LET dictionary with duplicate keys; #STR with flag 8 when a zero or bit-7 byte precedes the end marker; #STR characters outside '
            'plain ASCII (and 94/96/#/&/</>); empty parameters when delimiter == separator; '
            '#FORMAT case conversion of nested macro source; #POPS on an empty stack; replacement fields of undefined variables; POKEname for a name pushed more than once',
            'no string parameter is trimmed (nothing in the documentation says so): spaced values must come out unchanged in both modes; the documented exceptions '
            '(#WHILE body, #DEF flags&2) are modelled; white space at the edges of a #DEF body or of a #DEF string default is syntax (not generated)',
            '#PC at the writer seam is set by the harness (writer.pc); its per-position semantics are checked at tool level',
            '#PC in the comment of a multi-instruction {..} group is taken to be the address of the group\'s first instruction (the documentation says "the address of the '
            'instruction"); mid-block comments are placed only between comment units, never inside a group',
            'module-level caches are emptied only at simulated process start (beginning of a case), never within a case',
            'an expansion that uses more than 1 CPU-second (tool run: 20) is reported as non-terminating (the longest legitimate one takes ~20 ms)',
            'after 150 violations in one section of one shard that section stops enumerating (reported under caps_hit); the verdict is already decided',
            'alternative delimiters/separators must not occur in the HTML-escaped form of the parameters either (extends the documented "must not be &, < or >": '
            'e.g. ";" collides with &lt; in HTML mode); braces are not used to delimit a #LET dictionary value (the value undergoes replacement-field substitution)',
            'HTML expansions are compared after html.unescape; the documented raw forms of #CHR/#SPACE (&#N; / &#160;) are compared exactly when the text has no other HTML-special character',
        ],
        required_guards=list(REQUIRED_GUARDS),
        extra={'max_depth': b['hist'], 'state_changing_macros': list(OP_NAMES)},
    )
    return stats, meta


def replay(case):
    case = dict(case)
    cfg = tuple(case['cfg'])
    sec = case['section']
    stats = core.Stats()
    if sec == 'setup':
        try:
            Writers(cfg)
        except SetupViolation as e:
            return [e.detail]
        return []
    if sec == 'expr':
        w = Writers(cfg)
        return [d for _, _, d in check_expr(w, M.tuplify(case['ast']), stats)]
    if sec == 'macro':
        w = Writers(cfg)
        ast = M.tuplify(case['ast'])
        style = {}
        for k, v in case['style']:
            style[int(k) if k.isdigit() else k] = tuple(v) if isinstance(v, list) else v
        text = M.render(ast, style, w.defs, (']',))
        return [d for _, d in check_text(w, ast, text, stats)]
    if sec == 'hist':
        return [d for _, _, d in run_history(tuple(case['hist']), cfg, case['fam'])]
    if sec == 'tool':
        return [d for _, _, d in run_tools(tuple(case['hist']), cfg, case['fam'])]
    if sec == 'shape':
        return [d for _, _, d, _ in run_shapes(cfg, case['fam'])]
    raise ValueError(sec)
